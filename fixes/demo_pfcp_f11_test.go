package pfcp

import (
	"net"
	"testing"
	"time"

	"github.com/sirupsen/logrus"
	"github.com/wmnsk/go-pfcp/ie"

	"github.com/free5gc/go-upf/internal/forwarder"
	"github.com/free5gc/go-upf/internal/report"
)

// F11: Sess.CreatePDR counts a URR reference once per URR ID IE of the Create PDR, but records the PDR's URR list as a
// set.  A Create PDR that names the same URR twice (legal on the wire, the parser accepts it) therefore counts two
// references for one list entry; removing that PDR takes one away, the count never reaches zero, and the URR's final
// usage is not returned in the response to the request that removed its last PDR (C12).
type f11Driver struct {
	forwarder.Empty
	queries int
}

func (d *f11Driver) QueryURR(lSeid uint64, urrid uint32) ([]report.USAReport, error) {
	d.queries++
	return []report.USAReport{{URRID: urrid, VolumMeasure: report.VolumeMeasure{TotalVolume: 1234}}}, nil
}

func f11Run(t *testing.T, urrIEs int) []report.USAReport {
	drv := &f11Driver{}
	log := logrus.NewEntry(logrus.New())
	ln := &LocalNode{}
	rn := NewRemoteNode("smf", &net.UDPAddr{IP: net.IPv4(10, 0, 0, 1), Port: 8805}, ln, drv, log)
	s := rn.NewSess(0x10)
	if err := s.CreateURR(ie.NewCreateURR(ie.NewURRID(1), ie.NewMeasurementMethod(0, 1, 0),
		ie.NewReportingTriggers(0x01, 0x00), ie.NewMeasurementPeriod(10*time.Second))); err != nil {
		t.Fatal(err)
	}
	children := []*ie.IE{ie.NewPDRID(1), ie.NewPrecedence(10), ie.NewFARID(1)}
	for i := 0; i < urrIEs; i++ {
		children = append(children, ie.NewURRID(1))
	}
	if err := s.CreatePDR(ie.NewCreatePDR(children...)); err != nil {
		t.Fatal(err)
	}
	usars, err := s.RemovePDR(ie.NewRemovePDR(ie.NewPDRID(1)))
	if err != nil {
		t.Fatal(err)
	}
	return usars
}

func TestDemoF11_DuplicateURRIDInCreatePDR(t *testing.T) {
	usars := f11Run(t, 2)
	if len(usars) != 1 || usars[0].URRID != 1 || usars[0].USARTrigger.Flags&report.USAR_TRIG_TERMR == 0 {
		t.Errorf("the only PDR referring to URR 1 was removed: want one termination report for URR 1 in the response, got %+v", usars)
	}
}

func TestDemoF11_ControlSingleURRID(t *testing.T) {
	usars := f11Run(t, 1)
	if len(usars) != 1 || usars[0].URRID != 1 || usars[0].USARTrigger.Flags&report.USAR_TRIG_TERMR == 0 {
		t.Errorf("want one termination report for URR 1, got %+v", usars)
	}
}
