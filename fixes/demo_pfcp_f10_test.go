package pfcp

import (
	"net"
	"sync"
	"testing"
	"time"

	"github.com/wmnsk/go-pfcp/ie"
	"github.com/wmnsk/go-pfcp/message"

	"github.com/free5gc/go-upf/internal/forwarder"
	"github.com/free5gc/go-upf/pkg/factory"
)

// F10: with the legal configuration maxRetrans: 255 the retention time of a received request is computed as
// RetransTimeout * time.Duration(MaxRetrans+1) with MaxRetrans+1 evaluated in uint8: 255+1 wraps to 0, the response
// is retained for 0 s, and a retransmission that arrives a moment later is executed a second time (C06).
func f10Run(t *testing.T, maxRetrans uint8, ip string) (first, second uint64) {
	cfg := &factory.Config{Pfcp: &factory.Pfcp{Addr: ip, NodeID: ip, RetransTimeout: 2 * time.Second, MaxRetrans: maxRetrans}}
	s := NewPfcpServer(cfg, forwarder.Empty{})
	var wg sync.WaitGroup
	s.Start(&wg)
	defer func() { s.Stop(); wg.Wait() }()
	time.Sleep(300 * time.Millisecond)
	c, err := net.DialUDP("udp4", nil, &net.UDPAddr{IP: net.ParseIP(ip), Port: 8805})
	if err != nil {
		t.Fatal(err)
	}
	defer c.Close()
	xchg := func(m message.Message) message.Message {
		b := make([]byte, m.MarshalLen())
		if err := m.MarshalTo(b); err != nil {
			t.Fatal(err)
		}
		if _, err := c.Write(b); err != nil {
			t.Fatal(err)
		}
		buf := make([]byte, 4096)
		_ = c.SetReadDeadline(time.Now().Add(5 * time.Second))
		n, err := c.Read(buf)
		if err != nil {
			t.Fatalf("no response: %v", err)
		}
		r, err := message.Parse(buf[:n])
		if err != nil {
			t.Fatal(err)
		}
		return r
	}
	xchg(message.NewAssociationSetupRequest(1, ie.NewNodeID("10.9.9.9", "", ""), ie.NewRecoveryTimeStamp(time.Now())))
	est := message.NewSessionEstablishmentRequest(0, 0, 0, 2, 0, ie.NewNodeID("10.9.9.9", "", ""), ie.NewFSEID(0x77, net.IPv4(10, 9, 9, 9), nil))
	seidOf := func(r message.Message) uint64 {
		rsp, ok := r.(*message.SessionEstablishmentResponse)
		if !ok || rsp.UPFSEID == nil {
			t.Fatalf("unexpected response %T", r)
		}
		f, err := rsp.UPFSEID.FSEID()
		if err != nil {
			t.Fatal(err)
		}
		return f.SEID
	}
	first = seidOf(xchg(est))
	time.Sleep(200 * time.Millisecond) // well inside RetransTimeout x (MaxRetrans+1)
	second = seidOf(xchg(est))        // the same request again: same sequence number, same peer
	return first, second
}

func TestDemoF10_MaxRetrans255(t *testing.T) {
	a, b := f10Run(t, 255, "127.0.10.1")
	if a != b {
		t.Errorf("maxRetrans=255: the retransmitted Session Establishment Request was executed again: first answer UP SEID %#x, second answer UP SEID %#x", a, b)
	}
}

func TestDemoF10_ControlMaxRetrans3(t *testing.T) {
	a, b := f10Run(t, 3, "127.0.10.2")
	if a != b {
		t.Errorf("maxRetrans=3: first answer UP SEID %#x, second answer UP SEID %#x", a, b)
	}
}
