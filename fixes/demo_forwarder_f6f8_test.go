package forwarder

import (
	"syscall"
	"testing"
	"time"

	"github.com/khirono/go-nl"
	"github.com/wmnsk/go-pfcp/ie"

	"github.com/free5gc/go-gtp5gnl"
	"github.com/free5gc/go-upf/internal/forwarder/buffnetlink"
	"github.com/free5gc/go-upf/internal/report"
)

// F6: the BAR notification delay octet must reach the kernel unchanged.
func TestDemoF6_BARDelay(t *testing.T) {
	k := newFakeKernel(t)
	g := k.gtp5g(t)
	for _, octet := range []uint8{1, 2, 3, 200} {
		delay := time.Duration(octet) * 50 * time.Millisecond
		req := ie.NewCreateBAR(ie.NewBARID(1), ie.NewDownlinkDataNotificationDelay(delay))
		if err := g.CreateBAR(9, req); err != nil {
			t.Fatal(err)
		}
		rs := k.requests()
		last := rs[len(rs)-1]
		bar, err := gtp5gnl.DecodeBAR(last.Attrs)
		if err != nil {
			t.Fatal(err)
		}
		if bar.Delay == nil || *bar.Delay != octet {
			t.Errorf("CreateBAR: delay octet %d reached the kernel as %d", octet, *bar.Delay)
		}
		req = ie.NewUpdateBARWithinSessionModificationRequest(ie.NewBARID(1), ie.NewDownlinkDataNotificationDelay(delay))
		if err := g.UpdateBAR(9, req); err != nil {
			t.Fatal(err)
		}
		rs = k.requests()
		last = rs[len(rs)-1]
		bar, err = gtp5gnl.DecodeBAR(last.Attrs)
		if err != nil {
			t.Fatal(err)
		}
		if bar.Delay == nil || *bar.Delay != octet {
			t.Errorf("UpdateBAR: delay octet %d reached the kernel as %d", octet, *bar.Delay)
		}
	}
}

type popHandler struct{ q map[uint16][][]byte }

func (h *popHandler) NotifySessReport(report.SessReport) {}
func (h *popHandler) PopBufPkt(seid uint64, pdrid uint16) ([]byte, bool) {
	l := h.q[pdrid]
	if len(l) == 0 {
		return nil, false
	}
	h.q[pdrid] = l[1:]
	return l[0], true
}

// F8: buffered packets must be released whatever the order of FAR ID and Apply Action.
func TestDemoF8_ApplyActionOrder(t *testing.T) {
	for _, order := range []string{"id-first", "action-first"} {
		k := newFakeKernel(t)
		g := k.gtp5g(t)
		g.bsnl = &buffnetlink.Server{}
		h := &popHandler{q: map[uint16][][]byte{3: {{1}, {2}}}}
		g.bsnl.Handle(h)
		k.reply = func(r fkReq) ([][]byte, int) {
			if r.Cmd != gtp5gnl.CMD_GET_FAR {
				return nil, 0
			}
			far, _ := gtp5gnl.DecodeFAR(r.Attrs)
			if far.ID != 5 {
				return nil, int(syscall.ENOENT)
			}
			return [][]byte{encBody(gtp5gnl.CMD_GET_FAR, nl.AttrList{
				{Type: gtp5gnl.FAR_ID, Value: nl.AttrU32(5)},
				{Type: gtp5gnl.FAR_APPLY_ACTION, Value: nl.AttrU16(report.APPLY_ACT_BUFF)},
				{Type: gtp5gnl.FAR_RELATED_TO_PDR, Value: nl.AttrBytes([]byte{3, 0})},
			})}, 0
		}
		var req *ie.IE
		if order == "id-first" {
			req = ie.NewUpdateFAR(ie.NewFARID(5), ie.NewApplyAction(report.APPLY_ACT_DROP))
		} else {
			req = ie.NewUpdateFAR(ie.NewApplyAction(report.APPLY_ACT_DROP), ie.NewFARID(5))
		}
		if err := g.UpdateFAR(9, req); err != nil {
			t.Fatal(err)
		}
		if n := len(h.q[3]); n != 0 {
			t.Errorf("%s: BUFF->DROP left %d buffered packets queued", order, n)
		}
	}
}
