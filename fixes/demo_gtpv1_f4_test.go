package gtpv1

import "testing"

// F4: the PDU Session Container must carry the full 6-bit QFI.
func TestDemoF4_QFI(t *testing.T) {
	for qfi := uint8(0); qfi < 64; qfi++ {
		m := Message{Flags: 0x34, Type: MsgTypeTPDU, TEID: 1,
			Exts: []Encoder{PDUSessionContainer{PDUType: 0, QoSFlowID: qfi}}, Payload: []byte{1}}
		b := make([]byte, m.Len())
		if _, err := m.Encode(b); err != nil {
			t.Fatal(err)
		}
		if got := b[14] & 0x3f; got != qfi {
			t.Errorf("QFI %d encoded as %d", qfi, got)
		}
	}
}
