package pfcp

import (
	"net"
	"sync"
	"testing"
	"time"

	"github.com/sirupsen/logrus"
	"github.com/wmnsk/go-pfcp/ie"
	"github.com/wmnsk/go-pfcp/message"

	"github.com/free5gc/go-upf/internal/forwarder"
	"github.com/free5gc/go-upf/internal/logger"
	"github.com/free5gc/go-upf/internal/report"
	"github.com/free5gc/go-upf/pkg/factory"
)

func demoNode() *RemoteNode {
	return NewRemoteNode("smf1", &net.UDPAddr{IP: net.IPv4(127, 0, 0, 1), Port: 8805}, &LocalNode{}, forwarder.Empty{},
		logger.PfcpLog.WithField("n", "smf1"))
}

// F1: any SEID value must be answered "not found", never fault.
func TestDemoF1_HugeSEID(t *testing.T) {
	n := demoNode()
	n.NewSess(10)
	for _, seid := range []uint64{1 << 63, 1<<63 + 1, 1<<64 - 1} {
		func() {
			defer func() {
				if p := recover(); p != nil {
					t.Errorf("Sess(%#x) panicked: %v", seid, p)
				}
			}()
			if _, err := n.local.Sess(seid); err == nil {
				t.Errorf("Sess(%#x) found a session", seid)
			}
		}()
		func() {
			defer func() {
				if p := recover(); p != nil {
					t.Errorf("DeleteSess(%#x) panicked: %v", seid, p)
				}
			}()
			if _, err := n.local.DeleteSess(seid); err == nil {
				t.Errorf("DeleteSess(%#x) succeeded", seid)
			}
		}()
	}
}

// F2: lookup by CP-SEID after a session was released.
func TestDemoF2_RemoteSessAfterDelete(t *testing.T) {
	n := demoNode()
	s1 := n.NewSess(10)
	n.NewSess(20)
	n.DeleteSess(s1.LocalID)
	defer func() {
		if p := recover(); p != nil {
			t.Errorf("RemoteSess panicked: %v", p)
		}
	}()
	s, err := n.local.RemoteSess(20, n.addr)
	if err != nil || s.RemoteID != 20 {
		t.Errorf("RemoteSess(20) = %v, %v", s, err)
	}
}

func demoServer(t *testing.T) (*PfcpServer, *sync.WaitGroup, *net.UDPConn) {
	cfg := &factory.Config{Pfcp: &factory.Pfcp{Addr: "127.0.0.1", NodeID: "127.0.0.1", RetransTimeout: 50 * time.Millisecond, MaxRetrans: 1}}
	s := NewPfcpServer(cfg, forwarder.Empty{})
	s.listen = "127.0.0.1:18805"
	s.log = logrus.NewEntry(logrus.New())
	wg := &sync.WaitGroup{}
	s.Start(wg)
	time.Sleep(100 * time.Millisecond)
	c, err := net.DialUDP("udp4", nil, &net.UDPAddr{IP: net.IPv4(127, 0, 0, 1), Port: 18805})
	if err != nil {
		t.Fatal(err)
	}
	return s, wg, c
}

func heartbeatOK(c *net.UDPConn, seq uint32) bool {
	b, _ := message.NewHeartbeatRequest(seq, ie.NewRecoveryTimeStamp(time.Now()), nil).Marshal()
	c.Write(b)                                                   //nolint
	c.SetReadDeadline(time.Now().Add(500 * time.Millisecond)) //nolint
	buf := make([]byte, 1500)
	n, err := c.Read(buf)
	if err != nil {
		return false
	}
	m, err := message.Parse(buf[:n])
	return err == nil && m.MessageType() == message.MsgTypeHeartbeatResponse && m.Sequence() == seq
}

// F3: an empty datagram must not stop the server.
func TestDemoF3_EmptyDatagram(t *testing.T) {
	s, wg, c := demoServer(t)
	defer func() { s.Stop(); wg.Wait() }()
	if !heartbeatOK(c, 1) {
		t.Fatal("no heartbeat response before")
	}
	c.Write([]byte{}) //nolint
	time.Sleep(100 * time.Millisecond)
	// (a second datagram now would panic the receiver: send on closed channel -> Fatalf)
	done := make(chan struct{})
	go func() { wg.Wait(); close(done) }()
	select {
	case <-done:
		t.Errorf("event loop and receiver stopped after an empty datagram")
		return
	case <-time.After(200 * time.Millisecond):
	}
	exited := false
	logrus.RegisterExitHandler(func() { exited = true })
	s.log.Logger.ExitFunc = func(int) { exited = true }
	if !heartbeatOK(c, 2) || exited {
		t.Errorf("no heartbeat response after an empty datagram (exited=%v)", exited)
	}
}

// F5: sequence numbers of UPF-initiated requests stay in the 24-bit space and responses keep matching.
func TestDemoF5_SeqWrap(t *testing.T) {
	cfg := &factory.Config{Pfcp: &factory.Pfcp{Addr: "127.0.0.1", NodeID: "127.0.0.1", RetransTimeout: time.Hour, MaxRetrans: 1}}
	s := NewPfcpServer(cfg, forwarder.Empty{})
	s.log = logrus.NewEntry(logrus.New())
	var err error
	s.conn, err = net.ListenUDP("udp4", &net.UDPAddr{IP: net.IPv4(127, 0, 0, 1)})
	if err != nil {
		t.Fatal(err)
	}
	defer s.conn.Close()
	peer := &net.UDPAddr{IP: net.IPv4(127, 0, 0, 1), Port: 9}
	s.txSeq = 1<<24 - 1
	for k := 0; k < 3; k++ {
		req := message.NewSessionReportRequest(0, 0, 1, 0, 0, ie.NewReportType(0, 0, 1, 0))
		if err := s.sendReqTo(req, peer); err != nil {
			t.Fatal(err)
		}
		// what the peer sees on the wire
		var wire *TxTransaction
		for _, tx := range s.txTrans {
			wire = tx
		}
		m, err := message.Parse(wire.msgBuf)
		if err != nil {
			t.Fatal(err)
		}
		// the peer answers with the sequence number it received; the event loop builds this key
		trID := peer.String() + "-" + itoa(m.Sequence())
		tx, ok := s.txTrans[trID]
		if !ok {
			t.Errorf("request #%d: wire seq %d, response key %q matches no outstanding request (have %v)", k, m.Sequence(), trID, keys(s.txTrans))
			for id := range s.txTrans {
				s.txTrans[id].timer.Stop()
				delete(s.txTrans, id)
			}
			continue
		}
		tx.recv(nil)
	}
}

func itoa(v uint32) string {
	b := []byte{}
	if v == 0 {
		return "0"
	}
	for v > 0 {
		b = append([]byte{byte('0' + v%10)}, b...)
		v /= 10
	}
	return string(b)
}

func keys(m map[string]*TxTransaction) []string {
	var r []string
	for k := range m {
		r = append(r, k)
	}
	return r
}

type countDriver struct {
	forwarder.Empty
	queries []uint32
}

func (d *countDriver) QueryURR(seid uint64, id uint32) ([]report.USAReport, error) {
	d.queries = append(d.queries, id)
	return []report.USAReport{{URRID: id}}, nil
}

// F7: a URR attached by Update PDR is referenced; removing the PDR returns its final usage.
func TestDemoF7_UpdatePDRRef(t *testing.T) {
	d := &countDriver{}
	n := NewRemoteNode("smf1", nil, &LocalNode{}, d, logger.PfcpLog.WithField("n", "smf1"))
	s := n.NewSess(10)
	if err := s.CreateURR(ie.NewCreateURR(ie.NewURRID(7), ie.NewMeasurementMethod(0, 1, 0))); err != nil {
		t.Fatal(err)
	}
	if err := s.CreatePDR(ie.NewCreatePDR(ie.NewPDRID(1))); err != nil {
		t.Fatal(err)
	}
	if _, err := s.UpdatePDR(ie.NewUpdatePDR(ie.NewPDRID(1), ie.NewURRID(7))); err != nil {
		t.Fatal(err)
	}
	rs, err := s.RemovePDR(ie.NewRemovePDR(ie.NewPDRID(1)))
	if err != nil {
		t.Fatal(err)
	}
	if len(rs) != 1 || rs[0].URRID != 7 || !rs[0].USARTrigger.TERMR() {
		t.Errorf("removing the last PDR of URR 7 returned %d final reports (%+v)", len(rs), rs)
	}
}
