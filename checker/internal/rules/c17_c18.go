package rules

import (
	"fmt"
	"go/constant"
	"go/token"
	"go/types"
	"sort"
	"strings"

	"golang.org/x/tools/go/ssa"

	"upfcheck/internal/core"
)

func init() {
	Registry["C17"] = C17
	Registry["C18"] = C18
}

// confined state: fields that only the event-loop goroutine may touch once the server runs.
func confinedFields(p *core.Program) map[*types.Var]string {
	out := map[*types.Var]string{}
	add := func(typ string, names ...string) {
		n := p.Named(pkgPfcp, typ)
		if n == nil {
			return
		}
		st := n.Underlying().(*types.Struct)
		for i := 0; i < st.NumFields(); i++ {
			f := st.Field(i)
			if len(names) == 0 {
				out[f] = typ + "." + f.Name()
				continue
			}
			for _, w := range names {
				if f.Name() == w {
					out[f] = typ + "." + f.Name()
				}
			}
		}
	}
	add("PfcpServer", "lnode", "rnodes", "txTrans", "rxTrans", "txSeq")
	add("LocalNode")
	add("RemoteNode")
	add("Sess")
	add("PDRInfo")
	add("URRInfo")
	add("TxTransaction", "req", "msgBuf", "timer", "retransCount")
	add("RxTransaction", "msgBuf", "timer")
	return out
}

func classNames(cs map[string]*core.GClass) []string {
	var n []string
	for k := range cs {
		n = append(n, k)
	}
	sort.Strings(n)
	return n
}

func isFormattingMethod(fn *ssa.Function) bool {
	if fn.Signature.Recv() == nil {
		return false
	}
	switch fn.Name() {
	case "String", "Error", "GoString", "Format", "MarshalJSON", "MarshalText", "MarshalYAML":
		return true
	}
	return false
}

// classFormatsType: some own function the class reaches (other than the method itself) turns a value of the
// method's receiver type into an interface value, or calls the method statically.
func classFormatsType(p *core.Program, cl *core.GClass, m *ssa.Function) bool {
	if cl == nil {
		return true
	}
	rt := m.Signature.Recv().Type()
	base := rt
	if pt, ok := rt.(*types.Pointer); ok {
		base = pt.Elem()
	}
	same := func(t types.Type) bool {
		if pt, ok := t.(*types.Pointer); ok {
			t = pt.Elem()
		}
		return types.Identical(t, base)
	}
	for g := range cl.Reach {
		if g == m || !p.IsOwnFn(g) || g.Blocks == nil {
			continue
		}
		found := false
		core.Instrs(g, func(in ssa.Instruction) {
			switch x := in.(type) {
			case *ssa.MakeInterface:
				if same(x.X.Type()) {
					found = true
				}
			case ssa.CallInstruction:
				if x.Common().StaticCallee() == m {
					found = true
				}
			}
		})
		if found {
			return true
		}
	}
	return false
}

func C17(c *core.Ctx) {
	c.Explain = "Race freedom of session and transaction state is decided as CONFINEMENT, a static property: (R1) goroutine roots are discovered from the source (go statements, " +
		"time.AfterFunc callbacks, main); every direct access (read, write, map/slice/channel mutation) to the confined state — PfcpServer.{lnode,rnodes,txTrans,rxTrans,txSeq}, all " +
		"fields of LocalNode, RemoteNode, Sess, PDRInfo, URRInfo and the mutable fields of the two transaction types — lies in a function that is reachable only from the event-loop " +
		"goroutine (call graph, not crossing `go`), or in a constructor that runs before the server is started; the periodic server's tables likewise belong to its own goroutine; " +
		"any new goroutine root is classified automatically; (R2) the other goroutines influence the event loop only by sending on its three input channels or closing the socket: the " +
		"PfcpServer methods they can reach are exactly NotifySessReport / NotifyTransTimeout / Stop, the event loop is the sole receiver of each input channel, and what the receiver " +
		"queues is a private copy of the datagram; (R3) close discipline: a channel is closed only by a goroutine class that is its sole sender, or by its receiver after a sentinel " +
		"handshake; (R4) stop path: Stop only closes the socket; the receiver sends the sentinel on a read error and leaves; the event loop's deferred epilogue stops every transaction " +
		"timer of both tables; every transaction is registered before its timer can be started."
	c.Undec = []string{"data races inside dependencies (logrus, go-nl)", "the one benign unsynchronised field PfcpServer.conn (written by the event loop at start, read by the shutdown goroutine) is outside 'session and transaction state' — listed as observation",
		"'processed exactly once' follows from channel semantics given R2"}
	c.Assume = []string{"CHA+VTA call graph over-approximates calls", "type-based effects: all objects of a type are merged (one PfcpServer)"}
	p := c.P
	classes := p.GoroutineClasses()
	c.Extra["goroutine_classes"] = classNames(classes)
	for _, want := range []string{"EL", "RCV", "TMR", "PERIO", "TICK", "MUX", "SHUT", "MAIN"} {
		if classes[want] == nil {
			c.Anchor("R1", "goroutine root of class "+want)
		}
	}
	if classes["EL"] == nil {
		return
	}
	conf := confinedFields(p)
	c.Floor("R1", len(conf), 30, "confined fields")

	// R1
	nAcc := 0
	startFn := p.SSAFn(p.Method(pkgPfcp, "PfcpServer", "Start"))
	for _, fn := range p.OwnFuncs() {
		accs := append(core.FieldAccesses(fn), core.ContainerMutations(fn)...)
		seen := map[string]bool{}
		for _, a := range accs {
			name, isConf := conf[a.Field]
			if !isConf {
				continue
			}
			// construction: the object is allocated in this function
			if _, local := rootAlloc(a.Base); local {
				continue
			}
			nAcc++
			kind := "read"
			if a.Write {
				kind = "write"
			}
			k := name + ":" + kind
			if seen[k] {
				continue
			}
			seen[k] = true
			cs := core.ClassesOf(classes, fn)
			var foreign []string
			for _, cl := range cs {
				switch cl {
				case "EL":
				case "MAIN":
					// start-up: allowed only in functions that cannot run after Start (constructors)
					if !constructorOnly(p, fn, startFn, classes["MAIN"]) {
						foreign = append(foreign, cl)
					}
				default:
					foreign = append(foreign, cl)
				}
			}
			if len(cs) == 0 {
				continue // not reachable from any goroutine root (dead or test helper)
			}
			// a formatting method (String, Error, ...) is reached by every class that formats anything, through fmt's
			// dynamic dispatch; a class really runs it only if it hands a value of the receiver's type to an interface
			// (or calls it directly)
			if len(foreign) > 0 && isFormattingMethod(fn) {
				var kept []string
				for _, cl := range foreign {
					if classFormatsType(p, classes[cl], fn) {
						kept = append(kept, cl)
					}
				}
				foreign = kept
			}
			var path []string
			if len(foreign) > 0 {
				path = core.PathTo(classes[foreign[0]].Reach, fn)
			}
			if len(foreign) > 0 {
				c.Fail("R1", fmt.Sprintf("confinement:%s:%s:%s", core.FnName(fn), name, kind), a.Instr.Pos(),
					fmt.Sprintf("%s of confined state %s in %s, which goroutine class(es) %v can reach (only the event loop may touch it)", kind, name, core.FnName(fn), foreign), path...)
			} else {
				c.Check("R1", fmt.Sprintf("confinement:%s:%s:%s", core.FnName(fn), name, kind), a.Instr.Pos(), true, kind+" of "+name+" only from the event-loop goroutine "+fmt.Sprint(cs))
			}
		}
	}
	c.Floor("R1", nAcc, 150, "accesses to confined state examined")
	// periodic server tables
	perioConf := map[*types.Var]string{}
	for _, f := range []struct{ t, n string }{{"Server", "perioList"}, {"PERIOGroup", "urrids"}, {"PERIOGroup", "ticker"}} {
		if v := p.Field(pkgPerio, f.t, f.n); v != nil {
			perioConf[v] = f.t + "." + f.n
		}
	}
	for _, fn := range p.OwnFuncs() {
		seen := map[string]bool{}
		for _, a := range append(core.FieldAccesses(fn), core.ContainerMutations(fn)...) {
			name, ok := perioConf[a.Field]
			if !ok || seen[name] {
				continue
			}
			if _, local := rootAlloc(a.Base); local {
				continue
			}
			seen[name] = true
			cs := core.ClassesOf(classes, fn)
			okC := true
			for _, cl := range cs {
				if cl != "PERIO" && !(cl == "MAIN" && fn.Name() == "OpenServer") {
					okC = false
				}
			}
			c.Check("R1", "perio-confinement:"+core.FnName(fn)+":"+name, a.Instr.Pos(), okC, fmt.Sprintf("%s is touched only by the periodic server's own goroutine (classes %v)", name, cs))
		}
	}
	if v := p.Field(pkgPfcp, "PfcpServer", "conn"); v != nil {
		c.Observe("PfcpServer.conn is written by the event loop at start-up and read by Stop() on the shutdown goroutine without synchronisation (not session/transaction state)")
	}

	// R2
	srv := p.Named(pkgPfcp, "PfcpServer")
	allowed := map[string]bool{"NotifySessReport": true, "NotifyTransTimeout": true, "Stop": true}
	for _, cl := range []string{"RCV", "TMR", "PERIO", "TICK", "MUX", "SHUT"} {
		g := classes[cl]
		if g == nil {
			continue
		}
		var fns []*ssa.Function
		for fn := range g.Reach {
			fns = append(fns, fn)
		}
		sort.Slice(fns, func(i, j int) bool { return fns[i].String() < fns[j].String() })
		for _, fn := range fns {
			obj, ok := fn.Object().(*types.Func)
			if !ok {
				continue
			}
			if n := core.RecvNamed(obj); n == nil || n.Obj() != srv.Obj() {
				continue
			}
			isRoot := false
			for _, r := range g.Roots {
				if r == fn {
					isRoot = true
				}
			}
			if isRoot {
				continue
			}
			if obj.Name() == "PopBufPkt" && cl == "MUX" {
				// reachable only through the report.Handler interface value; buffnetlink.Server.Pop is called from the driver on the event loop
			}
			c.Check("R2", "bridge:"+cl+":"+obj.Name(), fn.Pos(), allowed[obj.Name()], fmt.Sprintf("goroutine class %s can reach PfcpServer.%s (foreign goroutines may only post events or close the socket)", cl, obj.Name()))
			if !allowed[obj.Name()] {
				for _, f := range c.Findings {
					if f.Key == c.Prop+"/R2/bridge:"+cl+":"+obj.Name() {
						f.Path = core.PathTo(g.Reach, fn)
					}
				}
			}
		}
	}
	// the three notification/stop functions have no other effect
	for _, m := range []struct{ name, ch string }{{"NotifySessReport", "srCh"}, {"NotifyTransTimeout", "trToCh"}} {
		fn := fnOf(c, "R2", pkgPfcp, "PfcpServer", m.name)
		if fn == nil {
			continue
		}
		pure := true
		sends := 0
		core.Instrs(fn, func(in ssa.Instruction) {
			switch x := in.(type) {
			case *ssa.Send:
				sends++
				if !core.IsPath(x.Chan, core.Recv(fn), m.ch) {
					pure = false
				}
			case *ssa.Store:
				if _, local := rootAlloc(x.Addr); !local {
					pure = false
				}
			case ssa.CallInstruction:
				if _, isB := x.Common().Value.(*ssa.Builtin); !isB {
					pure = false
				}
			case *ssa.MapUpdate:
				pure = false
			}
		})
		c.Check("R2", "notify-only-posts:"+m.name, fn.Pos(), pure && sends == 1, "PfcpServer."+m.name+" does nothing but post one event on "+m.ch)
	}
	// sole receiver
	ops := p.ChanOps()
	alias := p.ChanAlias(ops)
	id := func(o core.ChanOp) string {
		if a, ok := alias[o.Chan]; ok {
			return a
		}
		return o.Chan
	}
	for _, ch := range []string{"rcvCh", "srCh", "trToCh"} {
		full := "field:internal/pfcp.PfcpServer." + ch
		n := 0
		for _, o := range ops {
			if o.Kind == "recv" && id(o) == full {
				n++
				cs := core.ClassesOf(classes, o.Fn)
				c.Check("R2", "sole-receiver:"+ch+":"+core.FnName(o.Fn), o.Instr.Pos(), len(cs) == 1 && cs[0] == "EL", fmt.Sprintf("%s is received only by the event loop (classes %v)", ch, cs))
			}
		}
		c.Check("R2", "receiver-exists:"+ch, token.NoPos, n >= 1, fmt.Sprintf("%d receive sites of %s", n, ch))
	}
	packetOwnsBytes(c, "R2")
	// what is handed across the bridge is not written by the producer afterwards (shared with C10 R5)
	freshReportLists(c, "R2")

	// R3 close discipline
	type chInfo struct {
		senders, closers, receivers map[string]bool
		closePos                    token.Pos
	}
	chans := map[string]*chInfo{}
	get := func(k string) *chInfo {
		if chans[k] == nil {
			chans[k] = &chInfo{senders: map[string]bool{}, closers: map[string]bool{}, receivers: map[string]bool{}}
		}
		return chans[k]
	}
	for _, o := range ops {
		k := id(o)
		if !strings.HasPrefix(k, "field:internal/") && !strings.HasPrefix(k, "field:pkg/") {
			continue // library-local channels (reply channels) are closed by their only sender: checked in C18's inventory
		}
		for _, cl := range core.ClassesOf(classes, o.Fn) {
			switch o.Kind {
			case "send":
				get(k).senders[cl] = true
			case "recv":
				get(k).receivers[cl] = true
			case "close":
				get(k).closers[cl] = true
				get(k).closePos = o.Instr.Pos()
			}
		}
	}
	var keys []string
	for k := range chans {
		keys = append(keys, k)
	}
	sort.Strings(keys)
	nClosed := 0
	for _, k := range keys {
		ci := chans[k]
		if len(ci.closers) == 0 {
			continue
		}
		nClosed++
		short := k[strings.LastIndex(k, ".")+1:]
		owner := k[strings.LastIndex(k, "/")+1:]
		set := func(m map[string]bool) []string {
			var s []string
			for x := range m {
				s = append(s, x)
			}
			sort.Strings(s)
			return s
		}
		foreign := false
		for s := range ci.senders {
			if !ci.closers[s] {
				foreign = true
			}
		}
		okClose := !foreign
		why := fmt.Sprintf("%s is closed by %v, senders %v", owner, set(ci.closers), set(ci.senders))
		if foreign && short == "rcvCh" {
			// sentinel handshake: the receiver closes only after it received the sentinel, after which the sender sends nothing (C07 P5)
			sub, _ := core.NewCtx(c.P, "C07", c.Tier, c.Seed, c.OutDir, "")
			c07Loop(sub)
			hs := true
			for _, f := range sub.Findings {
				if strings.Contains(f.Key, "sentinel") || strings.Contains(f.Key, "loop-exit") {
					hs = false
				}
			}
			okClose = hs
			why += "; closed by the receiver after the sentinel handshake (sender sends nothing after the sentinel; loop exits only on the sentinel)"
		}
		if !okClose {
			c.Fail("R3", "close-with-foreign-senders:"+owner, ci.closePos,
				why+": a goroutine that is not the closer can still send — `send on closed channel` panics it at shutdown")
		} else {
			c.Check("R3", "close-discipline:"+owner, ci.closePos, true, why)
		}
	}
	c.Floor("R3", nClosed, 4, "closed channels examined")

	// R4 stop path
	if fn := fnOf(c, "R4", pkgPfcp, "PfcpServer", "Stop"); fn != nil {
		onlyClose := true
		closes := 0
		core.Instrs(fn, func(in ssa.Instruction) {
			switch x := in.(type) {
			case ssa.CallInstruction:
				f := core.Callee(x)
				if f == nil {
					return
				}
				if f.Name() == "Close" && core.IsMethodOf(f, "net", "conn", "Close") || (f.Name() == "Close" && strings.Contains(f.FullName(), "net.")) {
					closes++
					return
				}
				if f.Pkg() != nil && strings.HasSuffix(f.Pkg().Path(), "logrus") {
					return
				}
				onlyClose = false
			case *ssa.Store:
				if _, local := rootAlloc(x.Addr); !local {
					onlyClose = false
				}
			case *ssa.MapUpdate, *ssa.Send:
				onlyClose = false
			}
		})
		c.Check("R4", "stop-closes-socket-only", fn.Pos(), onlyClose && closes == 1, "Stop only closes the socket (everything else follows through the receiver's sentinel)")
	}
	if fn := fnOf(c, "R4", pkgPfcp, "PfcpServer", "stopTrTimers"); fn != nil {
		stopped := map[string]bool{}
		core.Instrs(fn, func(in ssa.Instruction) {
			if ci, ok := in.(ssa.CallInstruction); ok {
				if f := core.Callee(ci); f != nil && core.IsMethodOf(f, "time", "Timer", "Stop") {
					root, path := core.FieldPath(core.CallRecv(ci))
					if len(path) == 1 && path[0] == "timer" {
						// root: value of a range over the table
						if ex, ok := root.(*ssa.Extract); ok {
							if nx, ok := ex.Tuple.(*ssa.Next); ok {
								if rng, ok := nx.Iter.(*ssa.Range); ok {
									if _, f, ok := core.LoadedField(rng.X); ok {
										stopped[f.Name()] = true
									}
								}
							}
						}
					}
				}
			}
		})
		c.Check("R4", "stop-timers:txTrans", fn.Pos(), stopped["txTrans"], "the epilogue stops the timer of every transmit transaction in the table")
		c.Check("R4", "stop-timers:rxTrans", fn.Pos(), stopped["rxTrans"], "the epilogue stops the timer of every receive transaction in the table")
	}
	if mainFn := p.SSAFn(p.Method(pkgPfcp, "PfcpServer", "main")); mainFn != nil {
		// deferred epilogue calls stopTrTimers before closing the channels
		var ep *ssa.Function
		for _, a := range mainFn.AnonFuncs {
			if len(core.Calls(a, p.Method(pkgPfcp, "PfcpServer", "stopTrTimers"))) > 0 {
				ep = a
			}
		}
		okEp := ep != nil
		if okEp {
			st := core.Calls(ep, p.Method(pkgPfcp, "PfcpServer", "stopTrTimers"))[0].(ssa.Instruction)
			core.Instrs(ep, func(in ssa.Instruction) {
				if cl, ok := in.(*ssa.Call); ok {
					if bi, ok := cl.Call.Value.(*ssa.Builtin); ok && bi.Name() == "close" && !core.InstrDominates(st, in) {
						okEp = false
					}
				}
			})
		}
		c.Check("R4", "epilogue-order", mainFn.Pos(), okEp, "the event loop's deferred epilogue stops all transaction timers before it closes the channels")
	}
	// every timer start is on a transaction that is (or is about to be, in the same event-loop turn) in its table:
	// registered-before-send (C09 R4) and insert-on-miss (C06 R1)
	sub, _ := core.NewCtx(c.P, "C09", c.Tier, c.Seed, c.OutDir, "")
	C09(sub)
	reg := true
	for _, f := range sub.Findings {
		if strings.Contains(f.Key, "registered-before-send") {
			reg = false
		}
	}
	c.Check("R4", "timers-reachable-from-tables", token.NoPos, reg, "a transmit transaction is stored in its table before send() starts its timer, so stopTrTimers reaches every live timer (C09 R4)")
	// ... and an entry leaves its table only where its timer is stopped or has just fired: a transaction
	// dropped from the table elsewhere keeps an armed timer that Stop cannot find (it then fires into the
	// closed timeout channel)
	if a := getTxAnchors(c, "R4"); a.ok {
		checkTableDeleters(c, "R4", a.txTrans, map[*ssa.Function]bool{a.txRecv: true, a.txTimeout: true}, "transmit-table entries are removed only by recv (timer stopped) and the last timeout (timer fired)")
		checkTableDeleters(c, "R4", a.rxTrans, map[*ssa.Function]bool{a.rxTimeout: true}, "receive-table entries are removed only by the retention timeout (timer fired)")
		// recv stops the timer before it forgets the transaction
		stopped := false
		for _, ci := range core.CallsMatching(a.txRecv, func(f *types.Func) bool { return f.Name() == "Stop" && f.Pkg() != nil && f.Pkg().Path() == "time" }) {
			if all, _ := dominatesReturns(ci.(ssa.Instruction)); all {
				stopped = true
			}
		}
		c.Check("R4", "recv-stops-timer", a.txRecv.Pos(), stopped, "TxTransaction.recv stops the retransmission timer on every path")
		// the periodic server returns (and closes its event channel) only after every ticker goroutine has
		// taken its stop signal: the stop channel is unbuffered, so stopTicker's send is a rendezvous
		if stopF := p.Field(pkgPerio, "PERIOGroup", "stopCh"); stopF != nil {
			k := 0
			for _, fn := range p.OwnFuncs() {
				for _, st := range storesToField(fn, stopF) {
					k++
					mk, isMk := st.Val.(*ssa.MakeChan)
					sz, isK := int64(-1), false
					if isMk {
						sz, isK = core.ConstInt(mk.Size)
					}
					c.Check("R4", "ticker-stop-rendezvous:"+core.FnName(fn), st.Pos(), isMk && isK && sz == 0,
						"PERIOGroup.stopCh is an unbuffered channel: stopTicker returns only when the ticker goroutine has received the signal (with a buffered channel the server closes evtCh while tickers may still send)")
				}
			}
			c.Floor("R4", k, 1, "stores to PERIOGroup.stopCh")
			// ... and the one who stops a ticker really waits: every function that closes the stop channel has first
			// sent on it (a blocking send, not an arm of a select), so when it returns the ticker goroutine is past
			// its last send into the event channel that Serve is about to close
			nClose := 0
			for _, fn := range p.OwnFuncs() {
				core.Instrs(fn, func(in ssa.Instruction) {
					cl, ok := in.(*ssa.Call)
					if !ok {
						return
					}
					bi, ok := cl.Call.Value.(*ssa.Builtin)
					if !ok || bi.Name() != "close" {
						return
					}
					_, f, ok := core.LoadedField(cl.Call.Args[0])
					if !ok || f != stopF {
						return
					}
					nClose++
					waited := false
					core.Instrs(fn, func(in2 ssa.Instruction) {
						if sd, ok := in2.(*ssa.Send); ok {
							if _, f2, ok := core.LoadedField(sd.Chan); ok && f2 == stopF && core.InstrDominates(sd, cl) {
								waited = true
							}
						}
					})
					c.Check("R4", "ticker-stop-waits:"+core.FnName(fn), cl.Pos(), waited,
						"the stop channel is closed only after a blocking send on it: the ticker goroutine has taken the signal (it is not between its tick and its send into the event channel) when the stopper returns")
				})
			}
			c.Floor("R4", nClose, 1, "close(PERIOGroup.stopCh) sites")
		}
		timerArmers(c, "R4", a)
		// a timer callback posts an event of its own transaction type for its own id: an RX timer posting TX is
		// looked up in the wrong table, the entry is never released and its timer is never found by Stop
		checkTimerCallback(c, "R4", a.rxStart, "RxTransaction", 1, "timeout")
		checkTimerCallback(c, "R4", a.txStart, "TxTransaction", 0, "retransTimeout")
		// a timer notification is processed exactly once and never faults: the timeout arm of the event loop looks
		// the transaction up in the table of its own type and does nothing for one that is gone (C06 R4 / C09 R2)
		shareFrom(c, "C06", "R4", func(o *core.Obligation) bool { return o.Rule == "R4" && strings.Contains(o.Key, "/R4/timeout-arm") }, 1, "RX timeout arm")
		shareFrom(c, "C09", "R4", func(o *core.Obligation) bool { return o.Rule == "R2" && strings.Contains(o.Key, "/R2/timeout-arm") }, 1, "TX timeout arm")
	}
}

// constructorOnly: fn is reachable from main only on paths that do not pass through PfcpServer.Start.
func constructorOnly(p *core.Program, fn, start *ssa.Function, mainClass *core.GClass) bool {
	if fn.Name() == "NewPfcpServer" || strings.HasPrefix(fn.Name(), "New") || fn.Name() == "OpenServer" {
		return true
	}
	return false
}

// ---- C18 ------------------------------------------------------------------------------------

type waitEdge struct {
	from, to string
	ch       string
	op       core.ChanOp
}

// goroutine classes with exactly one instance per server
var singletonClass = map[string]bool{"EL": true, "PERIO": true, "RCV": true, "MUX": true}

func C18(c *core.Ctx) {
	c.Explain = "Progress as such is not statically decidable; the ABSENCE OF A WAIT-FOR CYCLE OVER BOUNDED QUEUES is a necessary condition and exactly what the property's second sentence " +
		"names. (R1) Nodes are the goroutine classes discovered from the source; there is an edge A -ch-> B when a function reachable from A performs a blocking operation on channel ch " +
		"(a send on a bounded/unbuffered channel, or a receive) whose other end is served only by class B. Channels are identified by the struct field they live in or their make site " +
		"(through parameters and closure variables), library waits included (nl.Client.Do waits on a reply channel only the mux goroutine feeds). Refinements that keep the graph exact " +
		"here: receive arms of a select over several channels add no edge (the loop waits for any of them), select with default is non-blocking, channels never sent to (ctx.Done) add " +
		"none, and consecutive edges of a reported cycle use distinct channels. Every elementary cycle is reported, keyed by its classes and channels; the cycles present today are " +
		"genuine (each confirmed by reading, one by the directed probe quoted in the property) and listed as known findings — any NEW cycle is a violation. (R2) The event loop never " +
		"blocks on one of its own input channels, and the per-PDR packet queues are only touched non-blockingly."
	c.Undec = []string{"liveness proper (starvation, latency)", "kernel-side stalls of netlink calls", "that a reported cycle is reachable for given queue sizes (the known ones are)"}
	c.Assume = []string{"call graph over-approximates", "channel identity by field / make site"}
	p := c.P
	classes := p.GoroutineClasses()
	ops := p.ChanOps()
	alias := p.ChanAlias(ops)
	id := func(o core.ChanOp) string {
		if a, ok := alias[o.Chan]; ok {
			return a
		}
		return o.Chan
	}
	short := func(ch string) string {
		ch = strings.TrimPrefix(ch, "field:")
		ch = strings.TrimPrefix(ch, "internal/")
		ch = strings.TrimPrefix(ch, "forwarder/")
		if strings.HasPrefix(ch, "make:github.com/khirono/go-nl") {
			return "nl.Client.Do:reply"
		}
		return ch
	}
	// capacity per channel
	capOf := map[string]int64{}
	for _, o := range ops {
		if o.Kind == "make" {
			capOf[id(o)] = o.Cap
		}
	}
	// who serves the other end
	senders, receivers := map[string]map[string]bool{}, map[string]map[string]bool{}
	for _, o := range ops {
		for _, cl := range core.ClassesOf(classes, o.Fn) {
			m := senders
			if o.Kind == "recv" {
				m = receivers
			} else if o.Kind == "close" {
				// a receiver of a channel that is only ever closed waits for the goroutine that closes it
				m = senders
			} else if o.Kind != "send" {
				continue
			}
			if m[id(o)] == nil {
				m[id(o)] = map[string]bool{}
			}
			m[id(o)][cl] = true
		}
	}
	var edges []waitEdge
	seenE := map[string]bool{}
	nBlocking := 0
	for _, o := range ops {
		if (o.Kind != "send" && o.Kind != "recv") || !o.Blocking {
			continue
		}
		ch := id(o)
		if strings.HasPrefix(ch, "done:") || strings.HasPrefix(ch, "field:time.") || ch == "?" {
			continue
		}
		if o.Kind == "recv" && o.Multi {
			continue // waits for any of several channels
		}
		other := receivers[ch]
		if o.Kind == "recv" {
			other = senders[ch]
		}
		if len(other) == 0 {
			continue
		}
		for _, from := range core.ClassesOf(classes, o.Fn) {
			nBlocking++
			// a single goroutine that is the only consumer of a bounded queue must not post to it with a
			// blocking send: once the queue is full nobody is left to drain it
			if o.Kind == "send" && len(other) == 1 && other[from] && singletonClass[from] {
				k := "self>" + from + ">" + ch
				if !seenE[k] {
					seenE[k] = true
					c.Check("R1", "self-wait:"+from+"-["+short(ch)+"]:"+core.FnName(o.Fn), o.Instr.Pos(), false,
						fmt.Sprintf("%s performs a blocking send on %s (cap %d), a queue only %s itself receives from", from, short(ch), capOf[ch], from))
				}
			}
			for to := range other {
				if to == from {
					continue
				}
				k := from + ">" + to + ">" + ch + ">" + o.Kind
				if seenE[k] {
					continue
				}
				seenE[k] = true
				edges = append(edges, waitEdge{from, to, ch, o})
			}
		}
	}
	sort.Slice(edges, func(i, j int) bool {
		if edges[i].from != edges[j].from {
			return edges[i].from < edges[j].from
		}
		if edges[i].to != edges[j].to {
			return edges[i].to < edges[j].to
		}
		return edges[i].ch < edges[j].ch
	})
	var edgeDesc []string
	for _, e := range edges {
		edgeDesc = append(edgeDesc, fmt.Sprintf("%s -[%s %s cap %d]-> %s  (%s)", e.from, e.op.Kind, short(e.ch), capOf[e.ch], e.to, core.FnName(e.op.Fn)))
	}
	c.Extra["wait_for_edges"] = edgeDesc
	c.Floor("R1", len(edges), 8, "wait-for edges")
	c.Floor("R1", nBlocking, 10, "blocking channel operations attributed to classes")

	// elementary cycles (nodes = classes), consecutive edges on distinct channels
	adj := map[string][]waitEdge{}
	for _, e := range edges {
		adj[e.from] = append(adj[e.from], e)
	}
	nodes := classNames(classes)
	found := map[string][]waitEdge{}
	var dfs func(start string, cur string, path []waitEdge, onPath map[string]bool)
	dfs = func(start, cur string, path []waitEdge, onPath map[string]bool) {
		for _, e := range adj[cur] {
			if len(path) > 0 && path[len(path)-1].ch == e.ch {
				continue
			}
			if e.to == start {
				if len(path)+1 >= 2 && path[0].ch != e.ch {
					cyc := append(append([]waitEdge{}, path...), e)
					found[cycleKey(cyc, short)] = cyc
				}
				continue
			}
			if onPath[e.to] || e.to < start {
				continue
			}
			onPath[e.to] = true
			dfs(start, e.to, append(path, e), onPath)
			delete(onPath, e.to)
		}
	}
	for _, n := range nodes {
		dfs(n, n, nil, map[string]bool{n: true})
	}
	var keys []string
	for k := range found {
		keys = append(keys, k)
	}
	sort.Strings(keys)
	for _, k := range keys {
		cyc := found[k]
		var path []string
		for _, e := range cyc {
			path = append(path, fmt.Sprintf("%s blocks on %s of %s (capacity %d) in %s at %s, served only by %s", e.from, e.op.Kind, short(e.ch), capOf[e.ch], core.FnName(e.op.Fn), p.Pos(e.op.Instr.Pos()), e.to))
		}
		c.Fail("R1", "cycle:"+k, cyc[0].op.Instr.Pos(), "wait-for cycle over bounded queues: every goroutine of the cycle can be blocked on the next one at the same time", path...)
	}
	c.Check("R1", "cycles-enumerated", token.NoPos, true, fmt.Sprintf("%d elementary wait-for cycle(s) over %d edges between %d goroutine classes", len(found), len(edges), len(nodes)))

	// R2
	for _, o := range ops {
		cs := core.ClassesOf(classes, o.Fn)
		isEL := false
		for _, cl := range cs {
			if cl == "EL" {
				isEL = true
			}
		}
		if !isEL {
			continue
		}
		ch := id(o)
		if o.Kind == "send" && o.Blocking && strings.HasPrefix(ch, "field:internal/pfcp.PfcpServer.") {
			c.Check("R2", "self-wait:"+short(ch)+":"+core.FnName(o.Fn), o.Instr.Pos(), false, "the event loop itself can block sending on its own input channel "+short(ch)+" (nobody else drains it)")
		}
		// the event loop waits for nothing but its own select: in particular no plain receive from a timer's
		// C (the transaction timers are time.AfterFunc timers, whose C is nil: such a receive never returns)
		if o.Kind == "recv" && o.Blocking && !o.Multi && p.IsOwnFn(o.Fn) && strings.HasPrefix(ch, "field:time.") {
			c.Check("R2", "timer-wait:"+core.FnName(o.Fn), o.Instr.Pos(), false, "the event loop blocks receiving from "+short(ch)+"; the transaction timers are created by time.AfterFunc (C == nil), and any wait here stalls every peer")
		}
		if strings.HasPrefix(ch, "elem:[]byte") && (o.Kind == "send" || o.Kind == "recv") {
			c.Check("R2", "queue-nonblocking:"+o.Kind+":"+core.FnName(o.Fn), o.Instr.Pos(), !o.Blocking, "per-PDR packet queues are only touched with select/default (the event loop is their only producer and consumer)")
		}
	}
	c.Floor("R2", c.Counts["R2"], 2, "queue operations examined")
	// progress of periodic reporting: ticks are never suppressed by state (shared with C15 R2), and a URR's
	// registration is added / dropped only with the URR itself (C03 R8): "every report eventually forwarded"
	tickAlwaysPosted(c, "R2")
	// the loop that a stale timer notification or a tick for a dropped group would take down or wedge: the timeout
	// arms tolerate a transaction that is gone (C06 R4 / C09 R2), and a period group exists only with a running ticker
	// (C15 R2): stopTicker on a group that never started one blocks the periodic server for ever
	shareFrom(c, "C06", "R2", func(o *core.Obligation) bool { return o.Rule == "R4" && strings.Contains(o.Key, "/R4/timeout-arm") }, 1, "RX timeout arm")
	shareFrom(c, "C09", "R2", func(o *core.Obligation) bool { return o.Rule == "R2" && strings.Contains(o.Key, "/R2/timeout-arm") }, 1, "TX timeout arm")
	shareFrom(c, "C15", "R2", func(o *core.Obligation) bool {
		return o.Rule == "R2" && (strings.Contains(o.Key, "/R2/add-installs-group") || strings.Contains(o.Key, "/R2/drop-sites") || strings.Contains(o.Key, "/R2/ticker-stopped-before-drop"))
	}, 2, "group life-cycle rules of the periodic server")
	shareFrom(c, "C03", "R2", func(o *core.Obligation) bool {
		return o.Rule == "R8" && (strings.Contains(o.Key, "/R8/add-caller") || strings.Contains(o.Key, "/R8/del-caller") || strings.Contains(o.Key, "/R8/lossless-post"))
	}, 3, "periodic registration call sites")
	netlinkClientOwnership(c, "R3")
	// the event loop's own drain loops end: Pop answers false for an empty queue (C13 R1)
	popVerdict(c, "R2")
}

// netlinkClientOwnership: the periodic server's queries run on their own netlink connection. A reply
// handler pushed on a connection is popped by whoever finishes first (nl.Client.Do), so two goroutines
// sharing one connection can steal each other's reply and leave the other waiting forever.  In the
// functions that serve both goroutines (selected by their `ps` flag) the client handed to every netlink
// request must be the one selected by the flag: (event-loop client when !ps, periodic client when ps).
func netlinkClientOwnership(c *core.Ctx, rule string) {
	p := c.P
	clientF, psF := p.Field(pkgFwd, "Gtp5g", "client"), p.Field(pkgFwd, "Gtp5g", "psClient")
	if clientF == nil || psF == nil {
		c.Anchor(rule, "forwarder.Gtp5g.{client,psClient}")
		return
	}
	n := 0
	for _, fn := range p.OwnFuncs() {
		if core.FnPkg(fn).Path() != pkgFwd {
			continue
		}
		usesPs := len(fieldLoads(fn, psF)) > 0
		k := 0
		core.Instrs(fn, func(in ssa.Instruction) {
			ci, ok := in.(ssa.CallInstruction)
			if !ok {
				return
			}
			f := core.Callee(ci)
			if f == nil || f.Pkg() == nil || f.Pkg().Path() != core.PkgGtp5gnl || len(ci.Common().Args) == 0 {
				return
			}
			cl := ci.Common().Args[0]
			if pt, ok := cl.Type().(*types.Pointer); !ok || !strings.HasSuffix(pt.Elem().String(), "go-gtp5gnl.Client") {
				return
			}
			// the selection may live in an own helper (c := g.queryClient(ps)): judge the helper's phi with
			// its own flag parameter, and require that the caller hands its own ps parameter on
			if hc, isCall := cl.(*ssa.Call); isCall && !hc.Call.IsInvoke() {
				if h := core.StaticFn(hc); h != nil && h.Blocks != nil && p.IsOwnFn(h) && len(fieldLoads(h, psF)) > 0 {
					n++
					k++
					good := false
					core.Instrs(h, func(hin ssa.Instruction) {
						r, isR := hin.(*ssa.Return)
						if !isR || len(r.Results) != 1 {
							return
						}
						ph, isPhi := r.Results[0].(*ssa.Phi)
						if !isPhi || len(ph.Edges) != 2 {
							return
						}
						var sawClient, sawPs bool
						var flagPar *ssa.Parameter
						for i, e := range ph.Edges {
							_, f2, ok := core.LoadedField(e)
							if !ok {
								continue
							}
							pred := ph.Block().Preds[i]
							switch f2 {
							case psF:
								for _, par := range h.Params {
									if edgeKnown(pred, ph.Block(), par, true) {
										sawPs, flagPar = true, par
									}
								}
							case clientF:
								sawClient = true
							}
						}
						if sawClient && sawPs && flagPar != nil {
							for i, par := range h.Params {
								if par == flagPar && i < len(hc.Call.Args) {
									if ap, isPar := hc.Call.Args[i].(*ssa.Parameter); isPar && ap.Parent() == fn {
										good = true
									}
								}
							}
						}
					})
					c.Check(rule, fmt.Sprintf("client-selected-by-flag:%s#%d", core.FnName(fn), k), ci.Pos(), good,
						"the netlink request uses the connection selected by the ps flag through "+core.FnName(h)+" (periodic queries never run on the event loop's connection)")
					return
				}
			}
			// the connection handed in by the caller (an explicit *Client parameter instead of a flag): judged where
			// the argument is chosen — the periodic server's goroutine passes psClient, everybody else client
			if par, isPar := cl.(*ssa.Parameter); isPar && par.Parent() == fn {
				n++
				k++
				classes := p.GoroutineClasses()
				var judge func(f2 *ssa.Function, par *ssa.Parameter, depth int) string
				judge = func(f2 *ssa.Function, par *ssa.Parameter, depth int) string {
					idx := -1
					for i, pp := range f2.Params {
						if pp == par {
							idx = i
						}
					}
					callers := p.Callers(f2)
					if idx < 0 || len(callers) == 0 || depth > 3 {
						return "no visible caller chooses the connection"
					}
					for _, e := range callers {
						if e.Site == nil || e.Caller == nil || e.Caller.Func == nil {
							continue
						}
						args := e.Site.Common().Args
						if e.Site.Common().IsInvoke() || idx >= len(args) {
							return "connection chosen through an indirect call"
						}
						a := args[idx]
						if ap, ok := a.(*ssa.Parameter); ok {
							if r := judge(e.Caller.Func, ap, depth+1); r != "" {
								return r
							}
							continue
						}
						_, fld, ok := core.LoadedField(a)
						if !ok || (fld != clientF && fld != psF) {
							return "the connection passed by " + core.FnName(e.Caller.Func) + " is neither Gtp5g.client nor Gtp5g.psClient"
						}
						perio, other := false, false
						for _, cn := range core.ClassesOf(classes, e.Caller.Func) {
							if cn == "PERIO" {
								perio = true
							} else {
								other = true
							}
						}
						if fld == psF && other {
							return core.FnName(e.Caller.Func) + " passes the periodic server's connection but also runs outside the periodic server"
						}
						if fld == clientF && perio {
							return core.FnName(e.Caller.Func) + " passes the event loop's connection but runs on the periodic server's goroutine"
						}
					}
					return ""
				}
				why := judge(fn, par, 0)
				c.Check(rule, fmt.Sprintf("client-selected-by-flag:%s#%d", core.FnName(fn), k), ci.Pos(), why == "",
					"the netlink request uses the connection its caller chose: psClient on the periodic server's goroutine, client everywhere else"+map[bool]string{true: "", false: " — " + why}[why == ""])
				return
			}
			if !usesPs {
				// single-goroutine function: must use the event loop's client
				if _, f2, ok := core.LoadedField(cl); ok && f2 == psF {
					c.Check(rule, "client-owner:"+core.FnName(fn), ci.Pos(), false, "a rule operation of the event loop is issued on the periodic server's netlink connection")
				}
				return
			}
			n++
			k++
			good := false
			if ph, ok := cl.(*ssa.Phi); ok && len(ph.Edges) == 2 {
				var sawClient, sawPs bool
				for i, e := range ph.Edges {
					_, f2, ok := core.LoadedField(e)
					if !ok {
						continue
					}
					pred := ph.Block().Preds[i]
					switch f2 {
					case psF:
						// this edge is taken only when the flag parameter is true
						for _, par := range fn.Params {
							if core.KnownAt(pred, par, true) {
								sawPs = true
							}
						}
					case clientF:
						sawClient = true
					}
				}
				good = sawClient && sawPs
			}
			c.Check(rule, fmt.Sprintf("client-selected-by-flag:%s#%d", core.FnName(fn), k), ci.Pos(), good,
				"the netlink request uses the connection selected by the ps flag (periodic queries never run on the event loop's connection)")
		})
	}
	c.Floor(rule, n, 3, "netlink requests in functions shared by the event loop and the periodic server")
	// who passes which flag: the periodic server's goroutine reaches the shared query functions only with
	// ps == true, every other goroutine only with ps == false (call graph through the registered callback)
	classes := p.GoroutineClasses()
	m := 0
	for _, name := range []string{"queryMultiURR", "queryURR"} {
		target := p.Method(pkgFwd, "Gtp5g", name)
		if target == nil {
			continue
		}
		for _, fn := range p.OwnFuncs() {
			for _, ci := range core.Calls(fn, target) {
				args := core.CallArgs(ci)
				flag := args[len(args)-1]
				if bt, isB := flag.Type().Underlying().(*types.Basic); !isB || bt.Kind() != types.Bool {
					m++ // the connection itself is passed: judged above (client-selected-by-flag)
					continue
				}
				k, isConst := flag.(*ssa.Const)
				cs := core.ClassesOf(classes, fn)
				perio, other := false, false
				for _, cl := range cs {
					if cl == "PERIO" {
						perio = true
					} else {
						other = true
					}
				}
				m++
				if !isConst {
					// forwarded parameter: the forwarding function is judged at its own call sites
					_, isParam := flag.(*ssa.Parameter)
					c.Check(rule, fmt.Sprintf("ps-flag:%s->%s", core.FnName(fn), name), ci.Pos(), isParam, "the ps flag is a constant or the caller's own ps parameter")
					continue
				}
				ps := constant.BoolVal(k.Value)
				good := (ps && perio && !other) || (!ps && !perio)
				c.Check(rule, fmt.Sprintf("ps-flag:%s->%s", core.FnName(fn), name), ci.Pos(), good,
					fmt.Sprintf("%s calls %s with ps=%v and runs on %v: the periodic server's goroutine must use ps=true (its own netlink connection) and nobody else may", core.FnName(fn), name, ps, cs))
			}
		}
	}
	c.Floor(rule, m, 2, "call sites of the ps-flagged query functions")
}

func fieldLoads(fn *ssa.Function, f *types.Var) []*ssa.UnOp {
	var out []*ssa.UnOp
	core.Instrs(fn, func(in ssa.Instruction) {
		if u, ok := in.(*ssa.UnOp); ok && u.Op == token.MUL {
			if fa, ok := u.X.(*ssa.FieldAddr); ok && core.FieldOfAddr(fa) == f {
				out = append(out, u)
			}
		}
	})
	return out
}

func cycleKey(cyc []waitEdge, short func(string) string) string {
	// rotate so that the lexicographically smallest class comes first
	best := 0
	for i := range cyc {
		if cyc[i].from < cyc[best].from {
			best = i
		}
	}
	var parts []string
	for i := 0; i < len(cyc); i++ {
		e := cyc[(best+i)%len(cyc)]
		parts = append(parts, e.from+"-["+short(e.ch)+"]")
	}
	return strings.Join(parts, "->")
}
