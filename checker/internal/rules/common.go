package rules

import (
	"go/token"
	"go/types"

	"golang.org/x/tools/go/ssa"

	"upfcheck/internal/core"
)

// loadOfField: v is `*(&base.f)`; returns base and the load instruction.
func loadOfField(v ssa.Value, f *types.Var) (base ssa.Value, load *ssa.UnOp, ok bool) {
	u, isU := v.(*ssa.UnOp)
	if !isU || u.Op != token.MUL {
		return nil, nil, false
	}
	fa, isFA := u.X.(*ssa.FieldAddr)
	if !isFA || core.FieldOfAddr(fa) != f {
		return nil, nil, false
	}
	return fa.X, u, true
}

// storesToField lists the stores `base.f = v` in fn.
func storesToField(fn *ssa.Function, f *types.Var) []*ssa.Store {
	var out []*ssa.Store
	core.Instrs(fn, func(in ssa.Instruction) {
		if st, ok := in.(*ssa.Store); ok {
			if fa, ok := st.Addr.(*ssa.FieldAddr); ok && core.FieldOfAddr(fa) == f {
				out = append(out, st)
			}
		}
	})
	return out
}

// isAppendTo: v = append(load base.f, ...) — a growing update of the slice field.
func isAppendTo(v ssa.Value, f *types.Var) bool {
	c, ok := v.(*ssa.Call)
	if !ok {
		return false
	}
	b, ok := c.Call.Value.(*ssa.Builtin)
	if !ok || b.Name() != "append" || len(c.Call.Args) < 1 {
		return false
	}
	_, _, ok = loadOfField(c.Call.Args[0], f)
	return ok
}

// isEmptySlice: v is a zero-length slice value (nil, empty literal, make(T,0)).
func isEmptySlice(v ssa.Value) bool {
	switch x := v.(type) {
	case *ssa.Const:
		return x.IsNil()
	case *ssa.Slice:
		iv := core.LenInterval(x, nil)
		return iv.Lo == 0 && iv.Hi == 0
	case *ssa.MakeSlice:
		n, ok := core.ConstInt(x.Len)
		return ok && n == 0
	}
	return false
}

// between collects the instructions that may execute strictly between `from` and `to`
// (on some path from `from` to `to`).
func between(from, to ssa.Instruction) []ssa.Instruction {
	fwd := map[*ssa.BasicBlock]bool{}
	var stack []*ssa.BasicBlock
	stack = append(stack, from.Block().Succs...)
	for len(stack) > 0 {
		b := stack[len(stack)-1]
		stack = stack[:len(stack)-1]
		if fwd[b] {
			continue
		}
		fwd[b] = true
		stack = append(stack, b.Succs...)
	}
	bwd := map[*ssa.BasicBlock]bool{}
	stack = append(stack[:0], to.Block().Preds...)
	for len(stack) > 0 {
		b := stack[len(stack)-1]
		stack = stack[:len(stack)-1]
		if bwd[b] {
			continue
		}
		bwd[b] = true
		stack = append(stack, b.Preds...)
	}
	var out []ssa.Instruction
	idx := func(in ssa.Instruction) int {
		for i, x := range in.Block().Instrs {
			if x == in {
				return i
			}
		}
		return -1
	}
	if from.Block() == to.Block() && idx(from) < idx(to) {
		out = append(out, from.Block().Instrs[idx(from)+1:idx(to)]...)
		if !(fwd[from.Block()]) { // no cycle through this block
			return out
		}
	}
	// tail of from's block, head of to's block, all blocks on paths
	if from.Block() != to.Block() || fwd[from.Block()] {
		out = append(out, from.Block().Instrs[idx(from)+1:]...)
		out = append(out, to.Block().Instrs[:idx(to)]...)
	}
	for b := range fwd {
		if bwd[b] && b != from.Block() && b != to.Block() {
			out = append(out, b.Instrs...)
		}
	}
	return out
}

// shrinkers: own functions containing a store to slice field f that is not `f = append(f, ...)`.
func shrinkers(p *core.Program, f *types.Var) map[*ssa.Function]bool {
	out := map[*ssa.Function]bool{}
	for _, fn := range p.OwnFuncs() {
		for _, st := range storesToField(fn, f) {
			if !isAppendTo(st.Val, f) {
				out[fn] = true
			}
		}
	}
	return out
}

// noShrinkBetween: on every path from `from` to `to`, the slice held in field f cannot get
// shorter: no non-append store to f, no store through a pointer that could alias f, and no call
// that can reach a function that shrinks f.
func noShrinkBetween(p *core.Program, from, to ssa.Instruction, f *types.Var, shr map[*ssa.Function]bool) (bool, string) {
	for _, in := range between(from, to) {
		switch x := in.(type) {
		case *ssa.Store:
			switch a := x.Addr.(type) {
			case *ssa.FieldAddr:
				if core.FieldOfAddr(a) == f && !isAppendTo(x.Val, f) {
					return false, "field is overwritten in between at " + p.Pos(x.Pos())
				}
			case *ssa.IndexAddr, *ssa.Alloc:
			default:
				if pt, ok := x.Addr.Type().Underlying().(*types.Pointer); ok && types.Identical(pt.Elem(), f.Type()) {
					return false, "store through a pointer that may alias the field at " + p.Pos(x.Pos())
				}
			}
		case ssa.CallInstruction:
			if _, ok := x.Common().Value.(*ssa.Builtin); ok {
				continue
			}
			if fn := reachesAny(p, x, shr); fn != nil {
				return false, "call at " + p.Pos(x.Pos()) + " can reach " + core.FnName(fn) + ", which may shorten the slice"
			}
		}
	}
	return true, ""
}

// calleesOf returns the call-graph targets of one call instruction.
func calleesOf(p *core.Program, c ssa.CallInstruction) []*ssa.Function {
	var out []*ssa.Function
	n := p.CallGraph().Nodes[c.Parent()]
	if n == nil {
		return nil
	}
	for _, e := range n.Out {
		if e.Site == c {
			out = append(out, e.Callee.Func)
		}
	}
	return out
}

// reachesAny: some function of `set` is reachable from call c (through the call graph).
func reachesAny(p *core.Program, c ssa.CallInstruction, set map[*ssa.Function]bool) *ssa.Function {
	if len(set) == 0 {
		return nil
	}
	reach := p.ReachFrom(calleesOf(p, c), false)
	for fn := range set {
		if _, ok := reach[fn]; ok {
			return fn
		}
	}
	return nil
}

// sameFieldLoad: a and b are loads of the same field of the same base value.
func sameFieldLoad(a, b ssa.Value) bool {
	ba, fa, oka := core.LoadedField(a)
	bb, fb, okb := core.LoadedField(b)
	return oka && okb && fa == fb && core.Unwrap(ba) == core.Unwrap(bb)
}

// nilKnownLoc: like core.NilKnownAt, but a nil test on another load of the same field of the
// same base counts when that field is never stored to in the function (message IEs are read-only
// in handlers).
func nilKnownLoc(fn *ssa.Function, b *ssa.BasicBlock, x ssa.Value, isNil bool) bool {
	if core.NilKnownAt(b, x, isNil) {
		return true
	}
	_, f, ok := core.LoadedField(x)
	if !ok || len(storesToField(fn, f)) > 0 {
		return false
	}
	for _, ft := range core.FactsAt(b) {
		if y, eq, ok := core.NilCmp(ft.V); ok && sameFieldLoad(y, x) {
			if (eq == ft.True) == isNil {
				return true
			}
		}
	}
	return false
}

// fnOf returns the SSA function of pkg.(typ).name (typ "" = package function); nil if missing.
func fnOf(c *core.Ctx, rule, pkg, typ, name string) *ssa.Function {
	var f *types.Func
	if typ == "" {
		f = c.P.Func(pkg, name)
	} else {
		f = c.P.Method(pkg, typ, name)
	}
	fn := c.P.SSAFn(f)
	if fn == nil {
		what := pkg + "." + name
		if typ != "" {
			what = pkg + "." + typ + "." + name
		}
		c.Anchor(rule, what)
	}
	return fn
}

// returnAvoiding searches a path from block `from` to a Return that never enters a block for which
// stop(b) holds; it returns the offending Return (nil if every path is stopped). Blocks ending in a
// panic are not exits.
func returnAvoiding(from *ssa.BasicBlock, stop func(*ssa.BasicBlock) bool) *ssa.Return {
	seen := map[*ssa.BasicBlock]bool{}
	stack := []*ssa.BasicBlock{from}
	for len(stack) > 0 {
		b := stack[len(stack)-1]
		stack = stack[:len(stack)-1]
		if seen[b] || stop(b) {
			continue
		}
		seen[b] = true
		if r, ok := b.Instrs[len(b.Instrs)-1].(*ssa.Return); ok {
			return r
		}
		stack = append(stack, b.Succs...)
	}
	return nil
}

// blockHas reports whether b contains instruction in.
func blockHas(b *ssa.BasicBlock, in ssa.Instruction) bool {
	return in != nil && in.Block() == b
}

// dominatesReturns: `in` dominates every Return of its function.
func dominatesReturns(in ssa.Instruction) (bool, token.Pos) {
	fn := in.Parent()
	for _, b := range fn.Blocks {
		if r, ok := b.Instrs[len(b.Instrs)-1].(*ssa.Return); ok {
			if !core.InstrDominates(in, r) {
				return false, r.Pos()
			}
		}
	}
	return true, token.NoPos
}

// aggregateSingleStore: a struct-typed local written by exactly one whole-value store and otherwise
// only read (directly or through field addresses); returns the stored value.
func aggregateSingleStore(a *ssa.Alloc) (ssa.Value, bool) {
	var val ssa.Value
	n := 0
	for _, r := range *a.Referrers() {
		switch y := r.(type) {
		case *ssa.Store:
			if y.Addr != ssa.Value(a) {
				return nil, false
			}
			n++
			val = y.Val
		case *ssa.UnOp, *ssa.DebugRef:
		case *ssa.FieldAddr:
			for _, u := range *y.Referrers() {
				switch u.(type) {
				case *ssa.UnOp, *ssa.DebugRef:
				default:
					return nil, false
				}
			}
		default:
			return nil, false
		}
	}
	return val, n == 1
}
