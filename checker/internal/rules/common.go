package rules

import (
	"fmt"
	"go/token"
	"go/types"
	"sort"
	"strings"

	"golang.org/x/tools/go/ssa"

	"upfcheck/internal/core"
)

// loadOfField: v is `*(&base.f)`; returns base and the load instruction.
func loadOfField(v ssa.Value, f *types.Var) (base ssa.Value, load *ssa.UnOp, ok bool) {
	u, isU := v.(*ssa.UnOp)
	if !isU || u.Op != token.MUL {
		return nil, nil, false
	}
	fa, isFA := u.X.(*ssa.FieldAddr)
	if !isFA || core.FieldOfAddr(fa) != f {
		return nil, nil, false
	}
	return fa.X, u, true
}

// storesToField lists the stores `base.f = v` in fn.
func storesToField(fn *ssa.Function, f *types.Var) []*ssa.Store {
	var out []*ssa.Store
	core.Instrs(fn, func(in ssa.Instruction) {
		if st, ok := in.(*ssa.Store); ok {
			if fa, ok := st.Addr.(*ssa.FieldAddr); ok && core.FieldOfAddr(fa) == f {
				out = append(out, st)
			}
		}
	})
	return out
}

// isAppendTo: v = append(load base.f, ...) — a growing update of the slice field.
func isAppendTo(v ssa.Value, f *types.Var) bool {
	c, ok := v.(*ssa.Call)
	if !ok {
		return false
	}
	b, ok := c.Call.Value.(*ssa.Builtin)
	if !ok || b.Name() != "append" || len(c.Call.Args) < 1 {
		return false
	}
	_, _, ok = loadOfField(c.Call.Args[0], f)
	return ok
}

// isEmptySlice: v is a zero-length slice value (nil, empty literal, make(T,0)).
func isEmptySlice(v ssa.Value) bool {
	switch x := v.(type) {
	case *ssa.Const:
		return x.IsNil()
	case *ssa.Slice:
		iv := core.LenInterval(x, nil)
		return iv.Lo == 0 && iv.Hi == 0
	case *ssa.MakeSlice:
		n, ok := core.ConstInt(x.Len)
		return ok && n == 0
	}
	return false
}

// between collects the instructions that may execute strictly between `from` and `to`
// (on some path from `from` to `to`).
func between(from, to ssa.Instruction) []ssa.Instruction {
	fwd := map[*ssa.BasicBlock]bool{}
	var stack []*ssa.BasicBlock
	stack = append(stack, from.Block().Succs...)
	for len(stack) > 0 {
		b := stack[len(stack)-1]
		stack = stack[:len(stack)-1]
		if fwd[b] {
			continue
		}
		fwd[b] = true
		stack = append(stack, b.Succs...)
	}
	bwd := map[*ssa.BasicBlock]bool{}
	stack = append(stack[:0], to.Block().Preds...)
	for len(stack) > 0 {
		b := stack[len(stack)-1]
		stack = stack[:len(stack)-1]
		if bwd[b] {
			continue
		}
		bwd[b] = true
		stack = append(stack, b.Preds...)
	}
	var out []ssa.Instruction
	idx := func(in ssa.Instruction) int {
		for i, x := range in.Block().Instrs {
			if x == in {
				return i
			}
		}
		return -1
	}
	if from.Block() == to.Block() && idx(from) < idx(to) {
		out = append(out, from.Block().Instrs[idx(from)+1:idx(to)]...)
		if !(fwd[from.Block()]) { // no cycle through this block
			return out
		}
	}
	// tail of from's block, head of to's block, all blocks on paths
	if from.Block() != to.Block() || fwd[from.Block()] {
		out = append(out, from.Block().Instrs[idx(from)+1:]...)
		out = append(out, to.Block().Instrs[:idx(to)]...)
	}
	for b := range fwd {
		if bwd[b] && b != from.Block() && b != to.Block() {
			out = append(out, b.Instrs...)
		}
	}
	return out
}

// shrinkers: own functions containing a store to slice field f that is not `f = append(f, ...)`.
func shrinkers(p *core.Program, f *types.Var) map[*ssa.Function]bool {
	out := map[*ssa.Function]bool{}
	for _, fn := range p.OwnFuncs() {
		for _, st := range storesToField(fn, f) {
			if !isAppendTo(st.Val, f) {
				out[fn] = true
			}
		}
	}
	return out
}

// noShrinkBetween: on every path from `from` to `to`, the slice held in field f cannot get
// shorter: no non-append store to f, no store through a pointer that could alias f, and no call
// that can reach a function that shrinks f.
func noShrinkBetween(p *core.Program, from, to ssa.Instruction, f *types.Var, shr map[*ssa.Function]bool) (bool, string) {
	for _, in := range between(from, to) {
		switch x := in.(type) {
		case *ssa.Store:
			switch a := x.Addr.(type) {
			case *ssa.FieldAddr:
				if core.FieldOfAddr(a) == f && !isAppendTo(x.Val, f) {
					return false, "field is overwritten in between at " + p.Pos(x.Pos())
				}
			case *ssa.IndexAddr, *ssa.Alloc:
			default:
				if pt, ok := x.Addr.Type().Underlying().(*types.Pointer); ok && types.Identical(pt.Elem(), f.Type()) {
					return false, "store through a pointer that may alias the field at " + p.Pos(x.Pos())
				}
			}
		case ssa.CallInstruction:
			if _, ok := x.Common().Value.(*ssa.Builtin); ok {
				continue
			}
			if fn := reachesAny(p, x, shr); fn != nil {
				return false, "call at " + p.Pos(x.Pos()) + " can reach " + core.FnName(fn) + ", which may shorten the slice"
			}
		}
	}
	return true, ""
}

// calleesOf returns the call-graph targets of one call instruction.
func calleesOf(p *core.Program, c ssa.CallInstruction) []*ssa.Function {
	var out []*ssa.Function
	n := p.CallGraph().Nodes[c.Parent()]
	if n == nil {
		return nil
	}
	for _, e := range n.Out {
		if e.Site == c {
			out = append(out, e.Callee.Func)
		}
	}
	return out
}

// reachesAny: some function of `set` is reachable from call c (through the call graph).
func reachesAny(p *core.Program, c ssa.CallInstruction, set map[*ssa.Function]bool) *ssa.Function {
	if len(set) == 0 {
		return nil
	}
	reach := p.ReachFrom(calleesOf(p, c), false)
	for fn := range set {
		if _, ok := reach[fn]; ok {
			return fn
		}
	}
	return nil
}

// sameFieldLoad: a and b are loads of the same field of the same base value.
func sameFieldLoad(a, b ssa.Value) bool {
	ba, fa, oka := core.LoadedField(a)
	bb, fb, okb := core.LoadedField(b)
	return oka && okb && fa == fb && core.Unwrap(ba) == core.Unwrap(bb)
}

// nilKnownLoc: like core.NilKnownAt, but a nil test on another load of the same field of the
// same base counts when that field is never stored to in the function (message IEs are read-only
// in handlers).
func nilKnownLoc(fn *ssa.Function, b *ssa.BasicBlock, x ssa.Value, isNil bool) bool {
	if core.NilKnownAt(b, x, isNil) {
		return true
	}
	_, f, ok := core.LoadedField(x)
	if !ok || len(storesToField(fn, f)) > 0 {
		return false
	}
	for _, ft := range core.FactsAt(b) {
		if y, eq, ok := core.NilCmp(ft.V); ok && sameFieldLoad(y, x) {
			if (eq == ft.True) == isNil {
				return true
			}
		}
	}
	return false
}

// fnOf returns the SSA function of pkg.(typ).name (typ "" = package function); nil if missing.
func fnOf(c *core.Ctx, rule, pkg, typ, name string) *ssa.Function {
	var f *types.Func
	if typ == "" {
		f = c.P.Func(pkg, name)
	} else {
		f = c.P.Method(pkg, typ, name)
	}
	fn := c.P.SSAFn(f)
	if fn == nil {
		what := pkg + "." + name
		if typ != "" {
			what = pkg + "." + typ + "." + name
		}
		c.Anchor(rule, what)
	}
	return fn
}

// returnAvoiding searches a path from block `from` to a Return that never enters a block for which
// stop(b) holds; it returns the offending Return (nil if every path is stopped). Blocks ending in a
// panic are not exits.
func returnAvoiding(from *ssa.BasicBlock, stop func(*ssa.BasicBlock) bool) *ssa.Return {
	seen := map[*ssa.BasicBlock]bool{}
	stack := []*ssa.BasicBlock{from}
	for len(stack) > 0 {
		b := stack[len(stack)-1]
		stack = stack[:len(stack)-1]
		if seen[b] || stop(b) {
			continue
		}
		seen[b] = true
		if r, ok := b.Instrs[len(b.Instrs)-1].(*ssa.Return); ok {
			return r
		}
		stack = append(stack, b.Succs...)
	}
	return nil
}

// blockHas reports whether b contains instruction in.
func blockHas(b *ssa.BasicBlock, in ssa.Instruction) bool {
	return in != nil && in.Block() == b
}

// dominatesReturns: `in` dominates every Return of its function.
func dominatesReturns(in ssa.Instruction) (bool, token.Pos) {
	fn := in.Parent()
	for _, b := range fn.Blocks {
		if r, ok := b.Instrs[len(b.Instrs)-1].(*ssa.Return); ok {
			if !core.InstrDominates(in, r) {
				return false, r.Pos()
			}
		}
	}
	return true, token.NoPos
}

// aggregateSingleStore: a struct-typed local written by exactly one whole-value store and otherwise
// only read (directly or through field addresses); returns the stored value.
func aggregateSingleStore(a *ssa.Alloc) (ssa.Value, bool) {
	var val ssa.Value
	n := 0
	for _, r := range *a.Referrers() {
		switch y := r.(type) {
		case *ssa.Store:
			if y.Addr != ssa.Value(a) {
				return nil, false
			}
			n++
			val = y.Val
		case *ssa.UnOp, *ssa.DebugRef:
		case *ssa.FieldAddr:
			for _, u := range *y.Referrers() {
				switch u.(type) {
				case *ssa.UnOp, *ssa.DebugRef:
				default:
					return nil, false
				}
			}
		default:
			return nil, false
		}
	}
	return val, n == 1
}

// edgeKnown: boolean v is known to be `want` on the control-flow edge pred -> blk (either already in
// pred, or because pred branches on v and blk is the corresponding successor).
func edgeKnown(pred, blk *ssa.BasicBlock, v ssa.Value, want bool) bool {
	if core.KnownAt(pred, v, want) {
		return true
	}
	iff, ok := pred.Instrs[len(pred.Instrs)-1].(*ssa.If)
	if !ok || iff.Cond != v || pred.Succs[0] == pred.Succs[1] {
		return false
	}
	if want {
		return pred.Succs[0] == blk
	}
	return pred.Succs[1] == blk
}

// losslessPost: function fn hands its event over on every path: no path from entry to a return avoids
// a send on a channel loaded from field chF of its receiver (a select arm counts only where that arm
// was taken; a default / timeout arm that merely logs loses the event).
func losslessPost(c *core.Ctx, rule string, fn *ssa.Function, chF *types.Var, what string) {
	if fn == nil || chF == nil {
		c.Anchor(rule, "poster of "+what)
		return
	}
	isCh := func(v ssa.Value) bool {
		_, f, ok := core.LoadedField(v)
		return ok && f == chF
	}
	var sends []ssa.Instruction
	type arm struct {
		sel *ssa.Select
		idx int64
	}
	var arms []arm
	core.Instrs(fn, func(in ssa.Instruction) {
		switch x := in.(type) {
		case *ssa.Send:
			if isCh(x.Chan) {
				sends = append(sends, x)
			}
		case *ssa.Select:
			for i, st := range x.States {
				if st.Dir == types.SendOnly && isCh(st.Chan) {
					arms = append(arms, arm{x, int64(i)})
				}
			}
		}
	})
	taken := func(b *ssa.BasicBlock) bool {
		for _, f := range core.FactsAt(b) {
			cmp, ok := f.V.(*ssa.BinOp)
			if !ok || cmp.Op != token.EQL || !f.True {
				continue
			}
			ex, ok := cmp.X.(*ssa.Extract)
			if !ok || ex.Index != 0 {
				continue
			}
			k, ok := core.ConstInt(cmp.Y)
			if !ok {
				continue
			}
			for _, a := range arms {
				if ex.Tuple == ssa.Value(a.sel) && k == a.idx {
					return true
				}
			}
		}
		return false
	}
	r := returnAvoiding(fn.Blocks[0], func(b *ssa.BasicBlock) bool {
		for _, s := range sends {
			if blockHas(b, s) {
				return true
			}
		}
		// a blocking select whose only arm is the send
		for _, a := range arms {
			if blockHas(b, a.sel) && a.sel.Blocking && len(a.sel.States) == 1 {
				return true
			}
		}
		return taken(b)
	})
	pos := fn.Pos()
	if r != nil {
		pos = r.Pos()
	}
	c.Check(rule, "lossless-post:"+core.FnName(fn), pos, r == nil && len(sends)+len(arms) > 0,
		what+": every call posts its event (a path that returns without the send - default or timeout arm - drops it silently)")
}

// iterationSkips: some path through the body of the loop headed by hdr gets back to hdr (continue) or
// leaves the loop (break / return) without passing through block must.
func iterationSkips(hdr, must *ssa.BasicBlock) (bool, *ssa.BasicBlock) {
	seen := map[*ssa.BasicBlock]bool{}
	var stack []*ssa.BasicBlock
	for _, s := range hdr.Succs {
		if s != hdr && inNaturalLoop(s, hdr) {
			stack = append(stack, s)
		}
	}
	for len(stack) > 0 {
		b := stack[len(stack)-1]
		stack = stack[:len(stack)-1]
		if seen[b] || b == must {
			continue
		}
		seen[b] = true
		if _, isPanic := b.Instrs[len(b.Instrs)-1].(*ssa.Panic); isPanic {
			continue
		}
		if len(b.Succs) == 0 {
			return true, b // return inside the loop
		}
		for _, s := range b.Succs {
			if s == hdr || !inNaturalLoop(s, hdr) {
				return true, b
			}
			stack = append(stack, s)
		}
	}
	return false, nil
}

// eqFacts lists the comparisons `x == y` known to HOLD at block b, whatever way they were written
// (x == y on the true edge, x != y on the false edge).
func eqFacts(b *ssa.BasicBlock) [][2]ssa.Value {
	var out [][2]ssa.Value
	for _, f := range core.FactsAt(b) {
		cmp, ok := f.V.(*ssa.BinOp)
		if !ok {
			continue
		}
		if (cmp.Op == token.EQL && f.True) || (cmp.Op == token.NEQ && !f.True) {
			out = append(out, [2]ssa.Value{cmp.X, cmp.Y})
		}
	}
	return out
}

// ---- logical inputs: parameters, and fields of by-value struct parameters ------------------------------

func isUint64T(t types.Type) bool {
	b, ok := t.Underlying().(*types.Basic)
	return ok && b.Kind() == types.Uint64
}

func isNetAddrT(t types.Type) bool { return t.String() == "net.Addr" }

// isInputOfType: v is one of fn's inputs of a type satisfying pred: a parameter, or a field of a struct
// parameter passed by value (related parameters grouped into a small struct).
func isInputOfType(fn *ssa.Function, v ssa.Value, pred func(types.Type) bool) bool {
	v = core.Unwrap(v)
	if p, ok := v.(*ssa.Parameter); ok && p.Parent() == fn && pred(p.Type()) {
		return true
	}
	if f, ok := v.(*ssa.Field); ok {
		if p, ok := f.X.(*ssa.Parameter); ok && p.Parent() == fn && pred(f.Type()) {
			return true
		}
	}
	if ld, ok := v.(*ssa.UnOp); ok && ld.Op == token.MUL {
		if fa, ok := ld.X.(*ssa.FieldAddr); ok && pred(core.FieldOfAddr(fa).Type()) {
			if al, ok := fa.X.(*ssa.Alloc); ok {
				if sv, ok := aggregateSingleStore(al); ok {
					if p, ok := sv.(*ssa.Parameter); ok && p.Parent() == fn {
						return true
					}
				}
			}
		}
	}
	return false
}

// callInputOfType: the caller-side value of such an input at call ci: the argument of that type, or what
// was stored into the field of that type of a struct argument built for the call. nil if none or ambiguous.
func callInputOfType(ci ssa.CallInstruction, pred func(types.Type) bool) ssa.Value {
	var out []ssa.Value
	for _, a := range core.CallArgs(ci) {
		if pred(a.Type()) {
			out = append(out, a)
			continue
		}
		if _, isStruct := a.Type().Underlying().(*types.Struct); !isStruct {
			continue
		}
		ld, ok := a.(*ssa.UnOp)
		if !ok {
			continue
		}
		al, ok := ld.X.(*ssa.Alloc)
		if !ok {
			continue
		}
		for _, r := range *al.Referrers() {
			fa, ok := r.(*ssa.FieldAddr)
			if !ok || !pred(core.FieldOfAddr(fa).Type()) {
				continue
			}
			for _, u := range *fa.Referrers() {
				if st, ok := u.(*ssa.Store); ok && st.Addr == ssa.Value(fa) {
					out = append(out, st.Val)
				}
			}
		}
	}
	if len(out) == 1 {
		return out[0]
	}
	return nil
}

// shareFrom evaluates another property's rule set on the same program and files those of its obligations
// that match under `rule` of the current property (the clause is a necessary condition of both). Keys keep
// the construct part of the original key, prefixed by the origin (e.g. "C19.R3:encode-octets:...").
func shareFrom(c *core.Ctx, prop, rule string, match func(o *core.Obligation) bool, floor int, what string) {
	fn, ok := Registry[prop]
	if !ok {
		c.Anchor(rule, "rule set "+prop)
		return
	}
	// Properties share clauses in both directions and in chains (C10 <-> C11, C01 <- C10 <- C15 ...).  The import graph
	// is cyclic, so the evaluation is layered by depth instead of by "who is pulling": a rule set evaluated as a source
	// (depth 1) still pulls from its own sources, which are then evaluated natively (depth 2, no imports).  One
	// evaluation per (program, property, depth): at most two extra evaluations of any rule set per run, whatever the
	// shape of the import graph.  (An earlier scheme keyed the cache by the set of properties currently pulling; with
	// the imports of rounds 7 and 8 that grew combinatorially.)
	if shareDepth >= 2 {
		return
	}
	ck := shareKey{c.P, fmt.Sprintf("%s|%d", prop, shareDepth+1)}
	obls, hit := shareCache[ck]
	if !hit {
		if shareBusy[ck] {
			return // the same evaluation is already in progress further up (a cycle at equal depth)
		}
		shareBusy[ck] = true
		sub, _ := core.NewCtx(c.P, prop, c.Tier, c.Seed, c.OutDir, "")
		shareDepth++
		fn(sub)
		shareDepth--
		delete(shareBusy, ck)
		obls = sub.Obls
		shareCache[ck] = obls
	}
	n := 0
	for _, o := range obls {
		if !match(o) {
			continue
		}
		n++
		key := o.Key
		if i := len(prop) + 1; len(key) > i && key[:i] == prop+"/" {
			key = prop + "." + key[i:]
		}
		// "R3/construct" -> "R3:construct"
		for j := 0; j < len(key); j++ {
			if key[j] == '/' {
				key = key[:j] + ":" + key[j+1:]
				break
			}
		}
		c.Check(rule, key, token.NoPos, o.OK, o.Desc+" ("+prop+" "+o.Rule+" at "+o.Pos+")")
	}
	c.Floor(rule, n, floor, what)
}

var sharingActive = map[string]bool{}
var shareDepth int
var shareBusy = map[shareKey]bool{}

type shareKey struct {
	p   *core.Program
	key string
}

var shareCache = map[shareKey][]*core.Obligation{}

// ---- small polynomials over named configuration values -------------------------------------------------------

// poly maps a monomial (sorted atom names joined by "*", "" for the constant term) to its coefficient.
type poly map[string]int64

func polyMul(a, b poly) poly {
	out := poly{}
	for ma, ca := range a {
		for mb, cb := range b {
			var atoms []string
			if ma != "" {
				atoms = append(atoms, strings.Split(ma, "*")...)
			}
			if mb != "" {
				atoms = append(atoms, strings.Split(mb, "*")...)
			}
			sort.Strings(atoms)
			out[strings.Join(atoms, "*")] += ca * cb
		}
	}
	return out
}

// polyWhy: reason of the last polyOf failure caused by narrow arithmetic (reporting only).
var polyWhy string

// polyOf evaluates an integer expression to a polynomial over the atoms named by atom(v) (through + - *,
// conversions, constants and single-assignment cells); ok is false when anything else occurs.
func polyOf(v ssa.Value, atom func(ssa.Value) string, depth int) (poly, bool) {
	if depth > 12 {
		return nil, false
	}
	if name := atom(v); name != "" {
		return poly{name: 1}, true
	}
	switch x := v.(type) {
	case *ssa.Const:
		if c, ok := core.ConstInt(x); ok {
			return poly{"": c}, true
		}
		return nil, false
	case *ssa.Convert:
		return polyOf(x.X, atom, depth+1)
	case *ssa.ChangeType:
		return polyOf(x.X, atom, depth+1)
	case *ssa.BinOp:
		a, ok1 := polyOf(x.X, atom, depth+1)
		b, ok2 := polyOf(x.Y, atom, depth+1)
		if !ok1 || !ok2 {
			return nil, false
		}
		// arithmetic in a type narrower than 64 bits is arithmetic modulo 2^k: with a configured value as operand
		// the result is not the polynomial (uint8(255) + 1 == 0)
		if bt, isB := x.Type().Underlying().(*types.Basic); isB {
			switch bt.Kind() {
			case types.Int8, types.Int16, types.Int32, types.Uint8, types.Uint16, types.Uint32:
				nonConst := false
				for m := range a {
					nonConst = nonConst || m != ""
				}
				for m := range b {
					nonConst = nonConst || m != ""
				}
				if nonConst {
					polyWhy = "the sub-expression " + x.String() + " is computed in " + bt.Name() + " and wraps around for large configured values"
					return nil, false
				}
			}
		}
		switch x.Op {
		case token.ADD, token.SUB:
			out := poly{}
			for m, c := range a {
				out[m] += c
			}
			for m, c := range b {
				if x.Op == token.ADD {
					out[m] += c
				} else {
					out[m] -= c
				}
			}
			return out, true
		case token.MUL:
			return polyMul(a, b), true
		}
		return nil, false
	case *ssa.UnOp:
		if u := core.Unwrap(x); u != ssa.Value(x) {
			return polyOf(u, atom, depth+1)
		}
	}
	return nil, false
}

func (p poly) String() string {
	var ms []string
	for m := range p {
		ms = append(ms, m)
	}
	sort.Strings(ms)
	var parts []string
	for _, m := range ms {
		if p[m] == 0 {
			continue
		}
		if m == "" {
			parts = append(parts, fmt.Sprint(p[m]))
		} else if p[m] == 1 {
			parts = append(parts, m)
		} else {
			parts = append(parts, fmt.Sprintf("%d*%s", p[m], m))
		}
	}
	return strings.Join(parts, " + ")
}

// exitsBefore lists the conditional branches that can reach instruction `at` and from one of whose successors a
// Return is reachable without passing through at's block: the conditions under which the function gives up
// before doing `at`.
func exitsBefore(at ssa.Instruction) []*ssa.If {
	cb := at.Block()
	fn := at.Parent()
	reach := map[*ssa.BasicBlock]bool{}
	var walk func(b *ssa.BasicBlock)
	walk = func(b *ssa.BasicBlock) {
		if reach[b] {
			return
		}
		reach[b] = true
		for _, pr := range b.Preds {
			walk(pr)
		}
	}
	for _, pr := range cb.Preds {
		walk(pr)
	}
	var out []*ssa.If
	for _, b := range fn.Blocks {
		if !reach[b] {
			continue
		}
		ifi, ok := b.Instrs[len(b.Instrs)-1].(*ssa.If)
		if !ok {
			continue
		}
		for _, s := range b.Succs {
			if returnAvoiding(s, func(x *ssa.BasicBlock) bool { return x == cb }) != nil {
				out = append(out, ifi)
				break
			}
		}
	}
	return out
}

// stripNot removes logical negations.
func stripNot(v ssa.Value) ssa.Value {
	for {
		if u, ok := v.(*ssa.UnOp); ok && u.Op == token.NOT {
			v = u.X
			continue
		}
		return v
	}
}

// giveUpsBefore lists the conditional branches under which control does not get to instruction `at`: inside the
// innermost loop around `at`, the branches from which the loop header (continue), the loop's exit or a return is
// reachable without passing at's block; for an instruction outside any loop, the branches that return early and,
// transitively, the same question for every static call site of the enclosing function.
func giveUpsBefore(p *core.Program, at ssa.Instruction, depth int) []*ssa.If {
	cb := at.Block()
	hdr := loopHeaderOf(at)
	if hdr == cb && !inAnyLoop(at) {
		out := exitsBefore(at)
		if depth < 3 {
			for _, e := range p.Callers(at.Parent()) {
				if e.Site != nil && e.Caller != nil && e.Caller.Func != nil && p.IsOwnFn(e.Caller.Func) {
					if _, isGo := e.Site.(*ssa.Go); isGo {
						continue
					}
					out = append(out, giveUpsBefore(p, e.Site, depth+1)...)
				}
			}
		}
		return out
	}
	reach := map[*ssa.BasicBlock]bool{}
	var walk func(b *ssa.BasicBlock)
	walk = func(b *ssa.BasicBlock) {
		if reach[b] {
			return
		}
		reach[b] = true
		if b == hdr {
			return
		}
		for _, pr := range b.Preds {
			walk(pr)
		}
	}
	for _, pr := range cb.Preds {
		walk(pr)
	}
	escapes := func(from *ssa.BasicBlock) bool {
		seen := map[*ssa.BasicBlock]bool{}
		stack := []*ssa.BasicBlock{from}
		for len(stack) > 0 {
			b := stack[len(stack)-1]
			stack = stack[:len(stack)-1]
			if b == cb || seen[b] {
				continue
			}
			seen[b] = true
			if b == hdr || !inNaturalLoop(b, hdr) {
				return true
			}
			if _, isPanic := b.Instrs[len(b.Instrs)-1].(*ssa.Panic); isPanic {
				continue
			}
			if len(b.Succs) == 0 {
				return true
			}
			stack = append(stack, b.Succs...)
		}
		return false
	}
	var out []*ssa.If
	for _, b := range at.Parent().Blocks {
		if !reach[b] || !inNaturalLoop(b, hdr) {
			continue
		}
		ifi, ok := b.Instrs[len(b.Instrs)-1].(*ssa.If)
		if !ok {
			continue
		}
		for _, s := range b.Succs {
			if escapes(s) {
				out = append(out, ifi)
				break
			}
		}
	}
	return out
}

// receivedMessageOnly: v is computed from the received PFCP message alone (the result of message.Parse, or a
// message-typed parameter it was passed on as) — possibly through method calls on it and constants — and from
// nothing the server holds.
func receivedMessageOnly(v ssa.Value, depth int) bool {
	if depth > 6 {
		return false
	}
	v = core.Unwrap(v)
	switch x := v.(type) {
	case *ssa.Const:
		return true
	case *ssa.Parameter:
		return true
	case *ssa.Extract:
		if cl, ok := x.Tuple.(*ssa.Call); ok {
			if f := core.Callee(cl); f != nil && f.Name() == "Parse" && f.Pkg() != nil && f.Pkg().Path() == core.PkgMessage {
				return true
			}
		}
		return false
	case *ssa.TypeAssert:
		return receivedMessageOnly(x.X, depth+1)
	case *ssa.ChangeInterface:
		return receivedMessageOnly(x.X, depth+1)
	case *ssa.BinOp:
		return receivedMessageOnly(x.X, depth+1) && receivedMessageOnly(x.Y, depth+1)
	case *ssa.Call:
		if x.Call.IsInvoke() {
			if !receivedMessageOnly(x.Call.Value, depth+1) {
				return false
			}
		}
		for _, a := range x.Call.Args {
			if !receivedMessageOnly(a, depth+1) {
				return false
			}
		}
		return true
	}
	return false
}

// mentionsAnyField: the expression tree of v — through arithmetic, conversions, phis, calls' arguments (also the
// variadic ones) and single-assignment cells — contains a load of one of the given fields.
func mentionsAnyField(v ssa.Value, fields map[*types.Var]bool, depth int, seen map[ssa.Value]bool) bool {
	if depth > 10 || v == nil || seen[v] {
		return false
	}
	seen[v] = true
	if _, f, ok := core.LoadedField(v); ok && fields[f] {
		return true
	}
	if u := core.Unwrap(v); u != v {
		return mentionsAnyField(u, fields, depth+1, seen)
	}
	switch x := v.(type) {
	case *ssa.BinOp:
		return mentionsAnyField(x.X, fields, depth+1, seen) || mentionsAnyField(x.Y, fields, depth+1, seen)
	case *ssa.Convert:
		return mentionsAnyField(x.X, fields, depth+1, seen)
	case *ssa.ChangeType:
		return mentionsAnyField(x.X, fields, depth+1, seen)
	case *ssa.MakeInterface:
		return mentionsAnyField(x.X, fields, depth+1, seen)
	case *ssa.Field:
		if f := core.FieldOfField(x); f != nil && fields[f] {
			return true
		}
		return mentionsAnyField(x.X, fields, depth+1, seen)
	case *ssa.Extract:
		return mentionsAnyField(x.Tuple, fields, depth+1, seen)
	case *ssa.Phi:
		for _, e := range x.Edges {
			if mentionsAnyField(e, fields, depth+1, seen) {
				return true
			}
		}
	case *ssa.Call:
		for _, a := range x.Call.Args {
			if mentionsAnyField(a, fields, depth+1, seen) {
				return true
			}
			for _, vv := range variadicValues(a) {
				if mentionsAnyField(vv, fields, depth+1, seen) {
					return true
				}
			}
		}
	}
	return false
}

// nodeIDResolved: a PFCP node id is an IPv4/IPv6 address OR a host name (TS 29.244 8.2.38; the configuration
// validator accepts `host`), so wherever go-upf turns a node id into an address it has to use a resolver.  A
// literal-only parser (net.ParseIP, net.ParseCIDR, netip.Parse*) makes every FQDN node id unusable: no F-SEID
// address in the Establishment Response, no destination for the reports of that SMF's sessions.
func nodeIDResolved(c *core.Ctx, rule string) {
	p := c.P
	fields := map[*types.Var]bool{}
	for _, f := range []*types.Var{p.Field(pkgPfcp, "RemoteNode", "ID"), p.Field(pkgPfcp, "PfcpServer", "nodeID"), p.Field(pkgFact, "Pfcp", "NodeID")} {
		if f != nil {
			fields[f] = true
		}
	}
	if len(fields) < 3 {
		c.Anchor(rule, "RemoteNode.ID / PfcpServer.nodeID / factory.Pfcp.NodeID")
		return
	}
	nUse := 0
	for _, fn := range p.OwnFuncs() {
		idx := 0
		core.Instrs(fn, func(in ssa.Instruction) {
			cl, ok := in.(*ssa.Call)
			if !ok {
				return
			}
			f := core.Callee(cl)
			if f == nil || f.Pkg() == nil || (f.Pkg().Path() != "net" && f.Pkg().Path() != "net/netip") {
				return
			}
			uses := false
			for _, a := range cl.Call.Args {
				if bt, ok := a.Type().Underlying().(*types.Basic); ok && bt.Info()&types.IsString != 0 && mentionsAnyField(a, fields, 0, map[ssa.Value]bool{}) {
					uses = true
				}
			}
			if !uses {
				return
			}
			nUse++
			idx++
			literalOnly := strings.HasPrefix(f.Name(), "Parse") || strings.HasPrefix(f.Name(), "MustParse")
			if literalOnly {
				// the Node ID IE builder parses the id only to classify it (IPv4 / IPv6 / FQDN): a name is
				// still announced as a name
				classifies := false
				core.Instrs(fn, func(in2 ssa.Instruction) {
					if c2, ok := in2.(*ssa.Call); ok && core.IsPkgFunc(core.Callee(c2), core.PkgIE, "NewNodeID") {
						classifies = true
					}
				})
				if classifies {
					return
				}
			}
			c.Check(rule, fmt.Sprintf("node-id-resolved:%s#%d", core.FnName(fn), idx), cl.Pos(), !literalOnly,
				"a node id is turned into an address by a resolver (it may be a host name), not by the literal-only "+f.Pkg().Name()+"."+f.Name())
		})
	}
	c.Floor(rule, nUse, 2, "places where a node id becomes an address")
}
