package rules

import (
	"go/types"
	"strings"

	"golang.org/x/tools/go/ssa"

	"upfcheck/internal/core"
)

// carriedUse describes a value that survives from one iteration of a loop into the next on some path
// through the body (the variable is assigned only conditionally) and is read inside the loop.
type carriedUse struct {
	Phi  *ssa.Phi        // header phi
	Use  ssa.Instruction // a read inside the loop of a value that may still be the previous iteration's
	Name string
}

// carriedAcrossIterations lists, for every loop of fn, the header phis that (1) may keep their value
// over a whole iteration (some in-loop edge is the phi itself, directly or through merge phis), (2) are
// not accumulators/counters (every assignment in the loop is append(self, ...) or self+const), and
// (3) are read inside the loop by something other than the merge phis themselves.
func carriedAcrossIterations(fn *ssa.Function) []carriedUse {
	var out []carriedUse
	out = append(out, lateClosureCaptures(fn)...)
	for _, h := range fn.Blocks {
		var back []int
		for i, p := range h.Preds {
			if h.Dominates(p) {
				back = append(back, i)
			}
		}
		if len(back) == 0 {
			continue
		}
		for _, in := range h.Instrs {
			phi, ok := in.(*ssa.Phi)
			if !ok {
				break
			}
			// family: merge phis inside the loop through which the header phi flows unchanged
			fam := map[ssa.Value]bool{phi: true}
			carried := false
			accumulator := true
			step := map[ssa.Value]bool{}
			var walk func(v ssa.Value, d int)
			seen := map[ssa.Value]bool{}
			walk = func(v ssa.Value, d int) {
				if seen[v] || d > 40 {
					return
				}
				seen[v] = true
				if v == ssa.Value(phi) {
					return
				}
				switch x := v.(type) {
				case *ssa.Phi:
					if !inNaturalLoop(x.Block(), h) {
						accumulator = false
						return
					}
					// does it (transitively) merge the header phi?
					merges := false
					var probe func(y ssa.Value, d int) bool
					ps := map[ssa.Value]bool{}
					probe = func(y ssa.Value, d int) bool {
						if y == ssa.Value(phi) {
							return true
						}
						if ps[y] || d > 40 {
							return false
						}
						ps[y] = true
						if q, ok := y.(*ssa.Phi); ok && inNaturalLoop(q.Block(), h) && q != phi {
							for _, e := range q.Edges {
								if probe(e, d+1) {
									return true
								}
							}
						}
						return false
					}
					merges = probe(x, 0)
					if merges {
						fam[x] = true
					}
					for _, e := range x.Edges {
						walk(e, d+1)
					}
				case *ssa.Call:
					if bi, ok := x.Call.Value.(*ssa.Builtin); ok && bi.Name() == "append" && len(x.Call.Args) > 0 {
						step[x] = true
						walk(x.Call.Args[0], d+1) // accumulator step
						return
					}
					accumulator = false
				case *ssa.BinOp:
					if _, isC := x.Y.(*ssa.Const); isC {
						step[x] = true
						walk(x.X, d+1) // counter step
						return
					}
					accumulator = false
				case *ssa.Slice:
					step[x] = true
					walk(x.X, d+1) // re-slice of the accumulator (reset)
				case *ssa.Const:
					// reset to a constant
				default:
					accumulator = false
				}
			}
			for _, i := range back {
				walk(phi.Edges[i], 0)
				if phi.Edges[i] == ssa.Value(phi) || isFamPhi(phi.Edges[i], phi, h) {
					carried = true
				}
			}
			if !carried || accumulator {
				continue
			}
			// reads inside the loop
			for v := range fam {
				for _, r := range *v.Referrers() {
					if _, isDbg := r.(*ssa.DebugRef); isDbg {
						continue
					}
					if q, isPhi := r.(*ssa.Phi); isPhi && (fam[q] || q == phi) {
						continue
					}
					if r.Block() == nil || !inNaturalLoop(r.Block(), h) {
						continue
					}
					out = append(out, carriedUse{Phi: phi, Use: r, Name: phi.Comment})
				}
			}
		}
	}
	return out
}

func isFamPhi(v ssa.Value, root *ssa.Phi, h *ssa.BasicBlock) bool {
	seen := map[ssa.Value]bool{}
	var rec func(v ssa.Value, d int) bool
	rec = func(v ssa.Value, d int) bool {
		if v == ssa.Value(root) {
			return true
		}
		if seen[v] || d > 40 {
			return false
		}
		seen[v] = true
		q, ok := v.(*ssa.Phi)
		if !ok || !inNaturalLoop(q.Block(), h) {
			return false
		}
		for _, e := range q.Edges {
			if rec(e, d+1) {
				return true
			}
		}
		return false
	}
	_, isPhi := v.(*ssa.Phi)
	return isPhi && rec(v, 0)
}

var _ = core.FnName

// DumpCarried is a developer aid: all carried-value reads of the own functions.
func DumpCarried(p *core.Program, emit func(string)) {
	for _, fn := range p.OwnFuncs() {
		for _, cu := range carriedAcrossIterations(fn) {
			ph := ""
			if cu.Phi != nil {
				ph = " phi@" + p.Pos(cu.Phi.Pos())
			}
			emit(core.FnName(fn) + " var=" + cu.Name + " use@" + p.Pos(cu.Use.Pos()) + ph)
		}
	}
}

// independentIterations: in each given function no loop reads a value that may have been left behind by
// an earlier iteration (a variable declared outside the loop and assigned only on some paths of the
// body). The elements these loops walk — IEs of a request, PDRs of a FAR, sessions of a tick, reports
// of a batch — are independent of each other, so such a read attaches one element's data to another.
// Accumulators (x = append(x, ..)), counters and values only read after the loop are not affected.
func independentIterations(c *core.Ctx, rule string, fns []*ssa.Function) {
	n := 0
	for _, fn := range fns {
		if fn == nil {
			continue
		}
		for _, f := range core.WithAnon(fn) {
			n++
			cus := carriedAcrossIterations(f)
			if len(cus) == 0 {
				c.Check(rule, "iterations-independent:"+core.FnName(f), f.Pos(), true, "no loop of "+core.FnName(f)+" reads a value carried over from an earlier iteration")
				continue
			}
			seen := map[string]bool{}
			for _, cu := range cus {
				if seen[cu.Name] {
					continue
				}
				seen[cu.Name] = true
				c.Check(rule, "iterations-independent:"+core.FnName(f)+":"+cu.Name, cu.Use.Pos(), false,
					"variable "+cu.Name+" is assigned only on some paths of the loop body and read inside the loop: an element without its own value is processed with the value of an earlier element")
			}
		}
	}
	c.Floor(rule, n, 1, "functions checked for iteration independence")
}

// handlerFns: the PFCP request/response handlers and report servers of PfcpServer.
func handlerFns(p *core.Program) []*ssa.Function {
	var out []*ssa.Function
	for _, fn := range p.OwnFuncs() {
		if fn.Parent() != nil || fn.Signature.Recv() == nil {
			continue
		}
		if n := core.RecvNamed(fn.Object().(*types.Func)); n == nil || n.Obj().Name() != "PfcpServer" {
			continue
		}
		nm := fn.Name()
		if strings.HasPrefix(nm, "handle") || strings.HasPrefix(nm, "serve") || nm == "ServeReport" {
			out = append(out, fn)
		}
	}
	return out
}

// lateClosureCaptures: a function literal that runs later (defer, go) is created inside a loop and captures
// a variable cell that lives across iterations and is re-assigned by the loop (with the module's language
// version below 1.22 the range / for variables are such cells): when the closure finally runs it sees the
// value of the LAST iteration.
func lateClosureCaptures(fn *ssa.Function) []carriedUse {
	var out []carriedUse
	for _, b := range fn.Blocks {
		for _, in := range b.Instrs {
			mc, ok := in.(*ssa.MakeClosure)
			if !ok {
				continue
			}
			late := false
			for _, r := range *mc.Referrers() {
				switch y := r.(type) {
				case *ssa.Defer:
					late = late || y.Call.Value == ssa.Value(mc)
				case *ssa.Go:
					late = late || y.Call.Value == ssa.Value(mc)
				}
			}
			if !late {
				continue
			}
			h := loopHeaderOf(mc)
			isLoop := false
			for _, p := range h.Preds {
				if h.Dominates(p) {
					isLoop = true
				}
			}
			if !isLoop {
				continue
			}
			for _, bd := range mc.Bindings {
				al, ok := bd.(*ssa.Alloc)
				if !ok || (al.Block() != nil && inNaturalLoop(al.Block(), h) && al.Block() != h) {
					continue // a per-iteration cell
				}
				if al.Block() == h {
					// allocated in the header itself: executed every iteration -> fresh cell
					continue
				}
				for _, r := range *al.Referrers() {
					if st, ok := r.(*ssa.Store); ok && st.Addr == ssa.Value(al) && inNaturalLoop(st.Block(), h) {
						out = append(out, carriedUse{Use: mc, Name: al.Comment + "@late-closure"})
						break
					}
				}
			}
		}
	}
	return out
}
