package rules

import "os"

func envOS() []string { return os.Environ() }
