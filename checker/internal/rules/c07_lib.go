package rules

import (
	"bufio"
	"bytes"
	"fmt"
	"go/ast"
	"go/constant"
	"go/token"
	"go/types"
	"os/exec"
	"regexp"
	"sort"
	"strings"

	"golang.org/x/tools/go/callgraph"
	"golang.org/x/tools/go/ssa"

	"upfcheck/internal/core"
)

// C07 L2 — the PFCP decoding library as reached from go-upf.
//
// Scope: functions of github.com/wmnsk/go-pfcp that the event loop or the receiver goroutine can reach
// WITHOUT passing through an encoder (Marshal*, New* constructors): the code that interprets octets
// of a received datagram.  Every index / slice expression in them that the Go compiler's prove pass
// cannot eliminate must be discharged
//   (a) by the linear-relational engine (core/lin.go): the offsets are compared with the length
//       symbolically on every path, or
//   (b) by a row of the frozen table libSafeByReading (confirmed by reading, one reason per row;
//       rows that hold only for an IE of one type are re-checked at every call site), or
//   (c) it is a crash a datagram can trigger: a finding, listed in known_findings.json once
//       demonstrated against the real code.
// A new call of a decoding accessor from go-upf extends the scope on the next run.

const pfcpMod = "github.com/wmnsk/go-pfcp"

var libBceLine = regexp.MustCompile(`^(.+\.go):(\d+):(\d+): Found (IsInBounds|IsSliceInBounds)`)

// libUnproven runs the compiler's bounds oracle over the given dependency modules.
func libUnproven(p *core.Program, mods []string) (map[string]string, error) {
	args := []string{"build"}
	for _, m := range mods {
		args = append(args, "-gcflags="+m+"/...=-d=ssa/check_bce/debug=1")
	}
	args = append(args, "./...")
	cmd := exec.Command("go", args...)
	cmd.Dir = p.Repo
	cmd.Env = core.Env()
	var out bytes.Buffer
	cmd.Stdout = &out
	cmd.Stderr = &out
	if err := cmd.Run(); err != nil {
		return nil, fmt.Errorf("go build (library bounds oracle): %v", err)
	}
	res := map[string]string{}
	sc := bufio.NewScanner(&out)
	sc.Buffer(make([]byte, 1<<20), 1<<20)
	for sc.Scan() {
		if m := libBceLine.FindStringSubmatch(sc.Text()); m != nil {
			res[fmt.Sprintf("%s:%s:%s", m[1], m[2], m[3])] = m[4]
		}
	}
	if len(res) == 0 {
		return nil, fmt.Errorf("library bounds oracle printed no report at all")
	}
	return res, nil
}

func isEncoderName(fn *ssa.Function) bool {
	n := fn.Name()
	return n == "Marshal" || n == "MarshalTo" || n == "MarshalLen" || strings.HasPrefix(n, "New") || strings.HasPrefix(n, "new")
}

func inMod(fn *ssa.Function, mod string) bool {
	pk := core.FnPkg(fn)
	return pk != nil && (pk.Path() == mod || strings.HasPrefix(pk.Path(), mod+"/"))
}

// decodeReach: functions reachable from the datagram-facing goroutines without crossing a `go`
// statement and without entering an encoder of the PFCP library.
func decodeReach(p *core.Program) map[*ssa.Function]*ssa.Function {
	classes := p.GoroutineClasses()
	var roots []*ssa.Function
	for _, cn := range []string{"EL", "RCV"} {
		if c := classes[cn]; c != nil {
			roots = append(roots, c.Roots...)
		}
	}
	cg := p.CallGraph()
	pred := map[*ssa.Function]*ssa.Function{}
	var q []*ssa.Function
	for _, r := range roots {
		if _, ok := pred[r]; !ok {
			pred[r] = nil
			q = append(q, r)
		}
	}
	for len(q) > 0 {
		f := q[0]
		q = q[1:]
		n := cg.Nodes[f]
		if n == nil {
			continue
		}
		outs := append([]*callgraph.Edge(nil), n.Out...)
		sort.Slice(outs, func(i, j int) bool { return outs[i].Callee.Func.String() < outs[j].Callee.Func.String() })
		for _, e := range outs {
			if _, isGo := e.Site.(*ssa.Go); isGo {
				continue
			}
			g := e.Callee.Func
			if inMod(g, pfcpMod) && isEncoderName(g) {
				continue
			}
			if _, ok := pred[g]; !ok {
				pred[g] = f
				q = append(q, g)
			}
		}
	}
	return pred
}

// fieldStability: loads of a struct field may be identified inside fn when fn neither stores to the
// field nor calls anything that (transitively) does.
type fieldStability struct {
	p       *core.Program
	writers map[*types.Var]map[*ssa.Function]bool // transitive
	direct  map[*types.Var][]*ssa.Function
}

func (s *fieldStability) transWriters(f *types.Var) map[*ssa.Function]bool {
	if w, ok := s.writers[f]; ok {
		return w
	}
	if s.direct == nil {
		// one pass over the program: field -> functions that store to it
		s.direct = map[*types.Var][]*ssa.Function{}
		for fn := range s.p.AllFuncs() {
			seen := map[*types.Var]bool{}
			core.Instrs(fn, func(in ssa.Instruction) {
				if st, ok := in.(*ssa.Store); ok {
					if fa, ok := st.Addr.(*ssa.FieldAddr); ok {
						if fv := core.FieldOfAddr(fa); fv != nil && !seen[fv] {
							seen[fv] = true
							s.direct[fv] = append(s.direct[fv], fn)
						}
					}
				}
			})
		}
	}
	w := map[*ssa.Function]bool{}
	var q []*ssa.Function
	for _, fn := range s.direct[f] {
		w[fn] = true
		q = append(q, fn)
	}
	cg := s.p.CallGraph()
	for len(q) > 0 {
		fn := q[0]
		q = q[1:]
		if n := cg.Nodes[fn]; n != nil {
			for _, e := range n.In {
				if c := e.Caller.Func; !w[c] {
					w[c] = true
					q = append(q, c)
				}
			}
		}
	}
	// w: every function that stores to the field or can reach one that does
	s.writers[f] = w
	return w
}

func (s *fieldStability) stable(fn *ssa.Function, f *types.Var) bool { return !s.transWriters(f)[fn] }

// forward: a load of base.f that is dominated by the only store to field f in its function (same base value),
// with no call in the function that can reach another store to f, yields the stored value.
func (s *fieldStability) forward(load *ssa.UnOp) (ssa.Value, bool) {
	fa, ok := load.X.(*ssa.FieldAddr)
	if !ok {
		return nil, false
	}
	f := core.FieldOfAddr(fa)
	fn := load.Parent()
	if f == nil || fn == nil {
		return nil, false
	}
	var stores []*ssa.Store
	callsWriter := false
	w := s.transWriters(f)
	var node *callgraph.Node
	if cg := s.p.CallGraph(); cg != nil {
		node = cg.Nodes[fn]
	}
	core.Instrs(fn, func(in ssa.Instruction) {
		if st, ok := in.(*ssa.Store); ok {
			if sfa, ok := st.Addr.(*ssa.FieldAddr); ok && core.FieldOfAddr(sfa) == f {
				stores = append(stores, st)
			}
		}
	})
	if node != nil {
		for _, e := range node.Out {
			if w[e.Callee.Func] {
				callsWriter = true
			}
		}
	}
	if len(stores) != 1 || callsWriter {
		return nil, false
	}
	st := stores[0]
	if st.Addr.(*ssa.FieldAddr).X != fa.X || !core.InstrDominates(st, load) {
		return nil, false
	}
	return st.Val, true
}

type libRow struct {
	callerType string // when set: safe only for a receiver IE whose Type is known to equal ie.<callerType> at every call
	reason     string
}

// libSafeByReading: unproven sites of the decode scope that the engine cannot discharge and that
// were confirmed safe by reading go-pfcp v0.0.23-0.20231009074152.  Keyed by function and source
// text of the indexed expression, never by line.
var libSafeByReading = map[string]libRow{
	"(*ie.IE).MBRUL|v[0:5]":                       {"MBR", "v is the result of i.MBR(), which returns an error for len(i.Payload) < 10 and, for an IE of type MBR, the payload itself"},
	"(*ie.IE).MBRDL|v[5:10]":                      {"MBR", "as MBRUL"},
	"(*ie.IE).GBRUL|v[0:5]":                       {"GBR", "v is the result of i.GBR(), which returns an error for len(i.Payload) < 10 and, for an IE of type GBR, the payload itself"},
	"(*ie.IE).GBRDL|v[5:10]":                      {"GBR", "as GBRUL"},
	"(*ie.IE).OuterHeaderRemovalDescription|v[0]": {"OuterHeaderRemoval", "v is the result of i.OuterHeaderRemoval(), which returns an error for an empty payload and, for an IE of that type, the payload itself"},
	"(*ie.IE).QFI|i.Payload[2]":                   {"QFI", "the expression sits in the DownlinkDataServiceInformation arm of the accessor's type switch; an IE of type QFI takes the ValueAsUint8 arm (length-checked)"},
	"ie.ParseMultiIEs|b[i.MarshalLen():]":         {"", "i was just parsed from b: a plain IE has MarshalLen = header + len(Payload) with Payload = b[hdr:hdr+Length] behind the check l >= hdr+Length (or no payload when l == hdr); a grouped IE's children were parsed by this same loop, which consumes exactly the payload; so MarshalLen() <= len(b)"},
}

type libSite struct {
	fn   *ssa.Function
	pos  token.Pos
	text string
	kind string
}

func libDecodeSites(p *core.Program, reach map[*ssa.Function]*ssa.Function) ([]libSite, int, int, error) {
	un, err := libUnproven(p, []string{pfcpMod})
	if err != nil {
		return nil, 0, 0, err
	}
	var sites []libSite
	var fns []*ssa.Function
	for fn := range reach {
		if inMod(fn, pfcpMod) && fn.Syntax() != nil {
			fns = append(fns, fn)
		}
	}
	sort.Slice(fns, func(i, j int) bool { return fns[i].String() < fns[j].String() })
	for _, fn := range fns {
		fn := fn
		body := fn.Syntax()
		ast.Inspect(body, func(n ast.Node) bool {
			var lb token.Pos
			var e ast.Expr
			switch x := n.(type) {
			case *ast.FuncLit:
				return n == body
			case *ast.IndexExpr:
				lb, e = x.Lbrack, x
			case *ast.SliceExpr:
				lb, e = x.Lbrack, x
			default:
				return true
			}
			ps := p.Fset.Position(lb)
			if k, ok := un[fmt.Sprintf("%s:%d:%d", ps.Filename, ps.Line, ps.Column)]; ok {
				sites = append(sites, libSite{fn, lb, types.ExprString(e), k})
			}
			return true
		})
	}
	return sites, len(fns), len(un), nil
}

func newLinEnv(p *core.Program) *core.LinEnv {
	st := &fieldStability{p: p, writers: map[*types.Var]map[*ssa.Function]bool{}}
	return &core.LinEnv{StableField: st.stable, ForwardLoad: st.forward}
}

func shortFile(f string) string {
	if i := strings.LastIndex(f, "/"); i >= 0 {
		return f[i+1:]
	}
	return f
}

// DumpLibSites: developer probe (dbg <repo> libsites).
func DumpLibSites(p *core.Program, out func(string)) {
	reach := decodeReach(p)
	sites, nfn, nun, err := libDecodeSites(p, reach)
	if err != nil {
		out(err.Error())
		return
	}
	env := newLinEnv(p)
	out(fmt.Sprintf("go-pfcp: %d unproven sites; decode scope: %d functions, %d unproven sites", nun, nfn, len(sites)))
	for _, s := range sites {
		in := core.InstrAt(s.fn, s.pos)
		verdict := "no-instr"
		if in != nil {
			ok, why := env.ProveIndexSite(in)
			verdict = "PROVEN"
			if !ok {
				verdict = "open: " + why
			}
		}
		ps := p.Fset.Position(s.pos)
		out(fmt.Sprintf("%-55s %-45s %s:%d  %s", core.FnName(s.fn), s.text, shortFile(ps.Filename), ps.Line, verdict))
	}
}

// recvTypeKnown: at every call of accessor fn inside the decode scope the receiver IE's Type field is known to equal
// the go-pfcp constant ie.<typ> (switch arm or comparison); a receiver that is a parameter is followed to the callers.
func recvTypeKnown(c *core.Ctx, reach map[*ssa.Function]*ssa.Function, fn *ssa.Function, typ string) (bool, string) {
	p := c.P
	k := p.Const(pfcpMod+"/ie", typ)
	if k == nil {
		return false, "constant ie." + typ + " not found"
	}
	want, _ := constant.Int64Val(constant.ToInt(k.Val()))
	var check func(call ssa.CallInstruction, recv ssa.Value, depth int) (bool, string)
	check = func(call ssa.CallInstruction, recv ssa.Value, depth int) (bool, string) {
		for _, eq := range eqFacts(call.Block()) {
			for _, pr := range [][2]ssa.Value{{eq[0], eq[1]}, {eq[1], eq[0]}} {
				base, f, ok := core.LoadedField(pr[0])
				if !ok || f.Name() != "Type" || base != recv {
					continue
				}
				if n, ok := core.ConstInt(pr[1]); ok && n == want {
					return true, ""
				}
			}
		}
		if prm, ok := recv.(*ssa.Parameter); ok && depth < 3 {
			caller := prm.Parent()
			idx := -1
			for i, q := range caller.Params {
				if q == prm {
					idx = i
				}
			}
			edges := p.Callers(caller)
			if len(edges) == 0 || idx < 0 {
				return false, "receiver is a parameter of " + core.FnName(caller) + " which has no resolvable caller"
			}
			for _, e := range edges {
				if _, in := reach[e.Caller.Func]; !in || e.Site == nil {
					continue
				}
				cc := e.Site.Common()
				if cc.IsInvoke() || idx >= len(cc.Args) {
					return false, "dynamic call of " + core.FnName(caller)
				}
				if ok, why := check(e.Site, cc.Args[idx], depth+1); !ok {
					return false, why
				}
			}
			return true, ""
		}
		return false, fmt.Sprintf("call at %s: the receiver's Type is not known to be ie.%s", p.Pos(call.Pos()), typ)
	}
	n := 0
	for _, e := range p.Callers(fn) {
		if _, in := reach[e.Caller.Func]; !in || e.Site == nil {
			continue
		}
		cc := e.Site.Common()
		if cc.IsInvoke() || len(cc.Args) == 0 {
			return false, "dynamic call"
		}
		n++
		if ok, why := check(e.Site, cc.Args[0], 0); !ok {
			return false, why
		}
	}
	if n == 0 {
		return false, "no call site found"
	}
	return true, ""
}

type libVerdict struct {
	site   libSite
	name   string
	proven bool
	row    *libRow
	rowOK  bool
	rowWhy string
	path   []string
}

type libResult struct {
	err      error
	nfn, nun int
	verdicts []libVerdict
}

// libAnalyse runs the L2 analysis once per loaded program (other rule sets import C07's obligations).
func libAnalyse(c *core.Ctx) *libResult {
	p := c.P
	if p.Memo == nil {
		p.Memo = map[string]any{}
	}
	if r, ok := p.Memo["c07.L2"].(*libResult); ok {
		return r
	}
	res := &libResult{}
	p.Memo["c07.L2"] = res
	reach := decodeReach(p)
	sites, nfn, nun, err := libDecodeSites(p, reach)
	res.err, res.nfn, res.nun = err, nfn, nun
	if err != nil {
		return res
	}
	env := newLinEnv(p)
	for _, s := range sites {
		v := libVerdict{site: s, name: core.FnName(s.fn), path: core.PathTo(reach, s.fn)}
		if in := core.InstrAt(s.fn, s.pos); in != nil {
			v.proven, _ = env.ProveIndexSite(in)
		}
		if !v.proven {
			if row, ok := libSafeByReading[v.name+"|"+s.text]; ok {
				r := row
				v.row, v.rowOK = &r, true
				if row.callerType != "" {
					v.rowOK, v.rowWhy = recvTypeKnown(c, reach, s.fn, row.callerType)
				}
			}
		}
		res.verdicts = append(res.verdicts, v)
	}
	return res
}

// c07Library is rule L2.
func c07Library(c *core.Ctx) {
	res := libAnalyse(c)
	if res.err != nil {
		c.Anchor("L2", res.err.Error())
		return
	}
	c.Extra["L2_library_unproven_sites_total"] = res.nun
	c.Extra["L2_decode_scope_functions"] = res.nfn
	c.Extra["L2_decode_scope_unproven_sites"] = len(res.verdicts)
	c.Floor("L2", res.nfn, 120, "go-pfcp decoding functions reachable from the event loop")
	proven, byTable := 0, 0
	seen := map[string]bool{}
	for _, v := range res.verdicts {
		s, name := v.site, v.name
		construct := "lib-index:" + name + ":" + s.text
		switch {
		case v.proven:
			proven++
			c.Check("L2", fmt.Sprintf("%s#%d", construct, proven), s.pos, true, "library index "+s.text+" in "+name+": offsets compared with the length on every path (linear-relational engine)")
		case v.row != nil && v.rowOK:
			byTable++
			c.Check("L2", construct, s.pos, true, "library index "+s.text+" in "+name+": confirmed by reading ("+v.row.reason+")")
		case v.row != nil:
			if !seen[construct] {
				seen[construct] = true
				c.Fail("L2", construct, s.pos, "library index "+s.text+" in "+name+" is safe only for an IE of type ie."+v.row.callerType+": "+v.rowWhy, v.path...)
			}
		default:
			if !seen[construct] {
				seen[construct] = true
				c.Fail("L2", construct, s.pos, "go-pfcp interprets octets of the received datagram here with an index the compiler cannot prove, no comparison with the length dominates it, and it is not in the table of sites confirmed by reading: a datagram can make "+s.text+" fault, and the panic takes the event loop down", v.path...)
			}
		}
	}
	c.Extra["L2_discharged_by_engine"] = proven
	c.Extra["L2_discharged_by_reading_table"] = byTable
	c.Floor("L2", proven, 15, "library sites discharged by the linear-relational engine")
}
