package rules

import (
	"fmt"
	"go/ast"
	"go/constant"
	"go/token"
	"go/types"
	"sort"
	"strings"

	"golang.org/x/tools/go/ssa"

	"upfcheck/internal/core"
)

func init() { Registry["C19"] = C19 }

// Reference tables transcribed from TS 29.244 (bit index in the little-endian flag word:
// octet 5 bit 1 = bit 0, octet 6 bit 1 = bit 8, octet 7 bit 1 = bit 16).
var flagTables = map[string]struct {
	typ    string   // flag-set type in internal/report ("" = plain constants)
	names  []string // index = bit
	minLen int      // shortest permitted IE payload (octets)
	width  int      // width of the flag word decoded (bits)
}{
	"APPLY_ACT_": {"ApplyAction", []string{"DROP", "FORW", "BUFF", "NOCP", "DUPL", "IPMA", "IPMD", "DFRT", "EDRT", "BDPN", "DDPN", "FSSM", "MBSU"}, 1, 16},
	"RPT_TRIG_": {"ReportingTrigger", []string{"PERIO", "VOLTH", "TIMTH", "QUHTI", "START", "STOPT", "DROTH", "LIUSA",
		"VOLQU", "TIMQU", "ENVCL", "MACAR", "EVETH", "EVEQU", "IPMJL", "QUVTI", "REEMR", "UPINT"}, 2, 32},
	"USAR_TRIG_": {"UsageReportTrigger", []string{"PERIO", "VOLTH", "TIMTH", "QUHTI", "START", "STOPT", "DROTH", "IMMER",
		"VOLQU", "TIMQU", "LIUSA", "TERMR", "MONIT", "ENVCL", "MACAR", "EVETH", "EVEQU", "TEBUR", "IPMJL", "QUVTI", "EMRRE", "UPINT"}, 0, 32},
	"": {"", []string{"TOVOL", "ULVOL", "DLVOL", "TONOP", "ULNOP", "DLNOP"}, 0, 8},
}

func bitOf(prefix, name string) (int, bool) {
	for i, n := range flagTables[prefix].names {
		if n == name {
			return i, true
		}
	}
	return 0, false
}

func C19(c *core.Ctx) {
	c.Explain = "Static decision of the bit-exactness clauses: (R1) every named flag constant of internal/report has the bit position " +
		"of TS 29.244 (table transcribed in the checker); (R2) every accessor tests exactly the constant of its name; (R3) the decoders " +
		"widen the IE octets little-endian into a zero-padded fresh buffer that is provably long enough, reject exactly the inputs shorter " +
		"than the shortest permitted IE, and the encoders emit the three low octets little-endian; (R4) the cause mapping switch maps each " +
		"RPT_TRIG_X to USAR_TRIG_X by name, one constant per arm, with an arm for every shared name; (R5) SetFlags sets the three volume bits " +
		"always and the three packet bits exactly under mnop. All of this holds for every bit pattern at once because it is a statement " +
		"about constants, callee identity and value provenance, not about samples."
	c.Undec = []string{"go-pfcp's IE constructors/accessors (NewReportingTriggers, ApplyAction(), ...) are trusted to carry the payload octets unchanged"}
	c.Assume = []string{"encoding/binary LittleEndian semantics", "go-pfcp ie package payload handling", "TS 29.244 tables as transcribed in c19.go / DESIGN Appendix A.2"}
	p := c.P
	pk := p.Pkg(pkgReport)
	if pk == nil {
		c.Anchor("R1", "package internal/report")
		return
	}
	scope := pk.Types.Scope()

	// R1 constants
	for prefix, tab := range flagTables {
		for bit, n := range tab.names {
			cn, _ := scope.Lookup(prefix + n).(*types.Const)
			if cn == nil {
				c.Anchor("R1", "constant report."+prefix+n)
				continue
			}
			v, ok := constant.Uint64Val(constant.ToInt(cn.Val()))
			c.Check("R1", "const:"+prefix+n, cn.Pos(), ok && v == 1<<uint(bit),
				fmt.Sprintf("%s%s = %v, TS 29.244 bit %d (value %#x)", prefix, n, cn.Val(), bit, uint64(1)<<uint(bit)))
		}
	}
	// constants of the groups that the table does not know: observation only
	for _, name := range scope.Names() {
		for prefix := range flagTables {
			if prefix != "" && strings.HasPrefix(name, prefix) {
				if _, ok := bitOf(prefix, strings.TrimPrefix(name, prefix)); !ok {
					c.Observe("constant %s is not in the transcribed TS 29.244 table (not decided)", name)
				}
			}
		}
	}

	// R2 accessors
	for prefix, tab := range flagTables {
		if tab.typ == "" {
			continue
		}
		named := p.Named(pkgReport, tab.typ)
		if named == nil {
			c.Anchor("R2", "type report."+tab.typ)
			continue
		}
		flagsF := p.Field(pkgReport, tab.typ, "Flags")
		n := 0
		for _, m := range core.Methods(named) {
			bit, isFlag := bitOf(prefix, m.Name())
			sig := m.Type().(*types.Signature)
			if !isFlag || sig.Params().Len() != 0 || sig.Results().Len() != 1 {
				continue
			}
			n++
			fn := p.SSAFn(m)
			ok, why := accessorTests(fn, flagsF, uint64(1)<<uint(bit))
			c.Check("R2", "accessor:"+tab.typ+"."+m.Name(), m.Pos(), ok,
				fmt.Sprintf("%s.%s() must be Flags&%s%s != 0 (bit %d): %s", tab.typ, m.Name(), prefix, m.Name(), bit, why))
		}
		c.Floor("R2", n, 1, "accessors of "+tab.typ)
	}

	// R3 decoders
	for _, d := range []struct {
		prefix string
	}{{"APPLY_ACT_"}, {"RPT_TRIG_"}} {
		tab := flagTables[d.prefix]
		m := p.Method(pkgReport, tab.typ, "Unmarshal")
		if m == nil {
			c.Anchor("R3", "method report."+tab.typ+".Unmarshal")
			continue
		}
		checkUnmarshal(c, p.SSAFn(m), tab.typ, p.Field(pkgReport, tab.typ, "Flags"), tab.minLen, tab.width)
	}
	// R3: the decoders are the only place where the raw octets of these IEs are interpreted: wherever own code
	// takes the payload of an Apply Action / Reporting Triggers IE, it goes to the decoder of that IE and
	// nowhere else (a second, ad-hoc decode - e.g. Uint16 of a 3-octet field - makes two paths disagree)
	for _, u := range []struct{ accessor, typ string }{{"ApplyAction", "ApplyAction"}, {"ReportingTriggers", "ReportingTrigger"}} {
		acc := p.Method(core.PkgIE, "IE", u.accessor)
		dec := p.Method(pkgReport, u.typ, "Unmarshal")
		if acc == nil || dec == nil {
			c.Anchor("R3", "ie.IE."+u.accessor+" / report."+u.typ+".Unmarshal")
			continue
		}
		n := 0
		for _, fn := range p.OwnFuncs() {
			k := 0
			for _, ci := range core.Calls(fn, acc) {
				n++
				k++
				v := ci.Value()
				good, why := true, ""
				var raw []ssa.Value
				if v != nil {
					for _, r := range *v.Referrers() {
						if ex, ok := r.(*ssa.Extract); ok && ex.Index == 0 {
							raw = append(raw, ex)
						}
					}
				}
				seen := map[ssa.Value]bool{}
				for len(raw) > 0 {
					x := raw[len(raw)-1]
					raw = raw[:len(raw)-1]
					if seen[x] {
						continue
					}
					seen[x] = true
					for _, r := range *x.Referrers() {
						switch y := r.(type) {
						case *ssa.DebugRef:
						case *ssa.Phi:
							raw = append(raw, y)
						case *ssa.Store: // spilled to a local variable: follow its loads
							if al, ok := y.Addr.(*ssa.Alloc); ok {
								for _, r2 := range *al.Referrers() {
									if ld, ok := r2.(*ssa.UnOp); ok {
										raw = append(raw, ld)
									}
								}
							} else {
								good, why = false, "the payload is stored away"
							}
						case ssa.CallInstruction:
							if core.Callee(y) == dec {
								continue
							}
							if bi, ok := y.Common().Value.(*ssa.Builtin); ok && bi.Name() == "len" {
								continue
							}
							good, why = false, "the payload is also handed to "+fmt.Sprint(y.Common().Value)
						default:
							good, why = false, fmt.Sprintf("the payload is also used by %T", r)
						}
					}
				}
				c.Check("R3", fmt.Sprintf("sole-decoder:%s:%s#%d", u.accessor, core.FnName(fn), k), ci.Pos(), good,
					"the octets of the "+u.accessor+" IE are interpreted by report."+u.typ+".Unmarshal only "+why)
			}
		}
		c.Floor("R3", n, 1, "uses of the raw "+u.accessor+" payload")
	}
	// R3 encoders
	for _, e := range []struct{ typ, ctor string }{{"ReportingTrigger", "NewReportingTriggers"}, {"UsageReportTrigger", "NewUsageReportTrigger"}} {
		m := p.Method(pkgReport, e.typ, "IE")
		if m == nil {
			c.Anchor("R3", "method report."+e.typ+".IE")
			continue
		}
		checkFlagIE(c, p.SSAFn(m), e.typ, p.Field(pkgReport, e.typ, "Flags"), e.ctor)
	}

	// R4 cause mapping
	checkCauseMapping(c)
	triggerFresh(c, "R4")

	// R5 SetFlags
	checkSetFlags(c)
	// R6: "a flag seen by ... the control plane is the flag the other side set": the packet-count bits of a Volume
	// Measurement follow the MNOP flag the SMF set in the URR's Measurement Information — the stored profile takes each
	// flag from the accessor of its name and keeps it over an Update URR that does not carry the IE, and nothing but
	// SetFlags writes the flag octet (C10 R3 / R2)
	shareFrom(c, "C10", "R6", func(o *core.Obligation) bool {
		return (o.Rule == "R3" && (strings.Contains(o.Key, "/R3/profile:") || strings.Contains(o.Key, "/R3/profile-update-if-present:"))) ||
			(o.Rule == "R2" && strings.Contains(o.Key, "/R2/volume-flags-writer:"))
	}, 10, "profile flags and flag-octet writers")
}

// accessorTests: fn returns (load recv.Flags) & mask != 0 on its single path.
func accessorTests(fn *ssa.Function, flags *types.Var, mask uint64) (bool, string) {
	if fn == nil || len(fn.Blocks) != 1 {
		return false, "not a single-block function"
	}
	var ret *ssa.Return
	for _, in := range fn.Blocks[0].Instrs {
		if r, ok := in.(*ssa.Return); ok {
			ret = r
		}
	}
	if ret == nil || len(ret.Results) != 1 {
		return false, "no single result"
	}
	ne, ok := ret.Results[0].(*ssa.BinOp)
	if !ok {
		return false, "result is not a comparison"
	}
	var and ssa.Value
	switch {
	case ne.Op == token.NEQ && isConstVal(ne.Y, 0):
		and = ne.X
	case ne.Op == token.NEQ && isConstVal(ne.X, 0):
		and = ne.Y
	case ne.Op == token.EQL:
		// Flags&mask == mask
		if x, ok := ne.X.(*ssa.BinOp); ok && isConstVal(ne.Y, mask) {
			and = x
		}
	case ne.Op == token.GTR && isConstVal(ne.Y, 0):
		and = ne.X
	}
	a, ok := and.(*ssa.BinOp)
	if !ok || a.Op != token.AND {
		return false, "result is not `Flags & const != 0`"
	}
	var load, k ssa.Value = a.X, a.Y
	if _, isC := load.(*ssa.Const); isC {
		load, k = k, load
	}
	if !core.IsFieldOf(load, core.Recv(fn), flags) {
		return false, "tested value is not the receiver's Flags field"
	}
	kv, ok := core.ConstInt(k)
	if !ok {
		return false, "mask is not a constant"
	}
	if uint64(kv) != mask {
		return false, fmt.Sprintf("tests mask %#x, expected %#x", uint64(kv), mask)
	}
	return true, "ok"
}

func isConstVal(v ssa.Value, want uint64) bool {
	n, ok := core.ConstInt(v)
	return ok && uint64(n) == want
}

// checkUnmarshal verifies the decode shape (see C19 R3 in DESIGN.md).
func checkUnmarshal(c *core.Ctx, fn *ssa.Function, typ string, flags *types.Var, minLen, width int) {
	key := typ + ".Unmarshal"
	if fn == nil {
		c.Anchor("R3", key)
		return
	}
	b := core.Param(fn, 0)
	// all stores to Flags
	var stores []*ssa.Store
	core.Instrs(fn, func(in ssa.Instruction) {
		if st, ok := in.(*ssa.Store); ok {
			if fa, ok := st.Addr.(*ssa.FieldAddr); ok && core.FieldOfAddr(fa) == flags && fa.X == core.Recv(fn) {
				stores = append(stores, st)
			}
		}
	})
	if len(stores) != 1 {
		c.Undecided("R3", "decode:"+key, fn.Pos(), fmt.Sprintf("expected exactly one store to Flags, found %d", len(stores)))
		return
	}
	st := stores[0]
	val := st.Val
	if cv, ok := val.(*ssa.Convert); ok {
		val = cv.X
	}
	call, ok := val.(*ssa.Call)
	if !ok {
		c.Undecided("R3", "decode:"+key, st.Pos(), "Flags is not assigned from a fixed-width byte-order call")
		return
	}
	order, op, w, ok := core.EndianCall(core.Callee(call))
	if !ok || op != "Uint" {
		c.Undecided("R3", "decode:"+key, st.Pos(), "Flags is not assigned from encoding/binary {Little,Big}Endian.UintNN")
		return
	}
	c.Check("R3", "decode-order:"+key, call.Pos(), order == "little",
		fmt.Sprintf("flag word is read %s-endian (octet i must become bits 8i..8i+7 = little-endian)", order))
	c.Check("R3", "decode-width:"+key, call.Pos(), w == width,
		fmt.Sprintf("flag word read as %d bits, the field and table are %d bits", w, width))
	buf := core.CallArgs(call)[0]
	// the scratch buffer: a fresh make([]byte, n), or a zero-valued local array used through arr[:]
	var uses []ssa.Instruction // instructions that use (a whole-slice view of) the buffer
	var views []ssa.Value
	var iv core.Interval
	var bufPos token.Pos
	switch bx := buf.(type) {
	case *ssa.MakeSlice:
		iv = core.EvalInt(bx.Len, call.Block())
		views = []ssa.Value{bx}
		bufPos = bx.Pos()
	case *ssa.Slice:
		al, isAl := bx.X.(*ssa.Alloc)
		var arr *types.Array
		if isAl {
			arr, _ = al.Type().(*types.Pointer).Elem().Underlying().(*types.Array)
		}
		if arr == nil || bx.Low != nil || bx.High != nil {
			c.Undecided("R3", "decode-buffer:"+key, call.Pos(), "decoded buffer is neither a fresh make([]byte, n) nor a whole local array (zero padding cannot be established)")
			return
		}
		iv = core.Interval{Lo: arr.Len(), Hi: arr.Len()}
		bufPos = al.Pos()
		for _, r := range *al.Referrers() {
			sl, isSl := r.(*ssa.Slice)
			if !isSl || sl.Low != nil || sl.High != nil {
				if _, isDbg := r.(*ssa.DebugRef); !isDbg {
					c.Undecided("R3", "decode-buffer:"+key, call.Pos(), "the scratch array is used other than through arr[:]")
					return
				}
				continue
			}
			views = append(views, sl)
		}
	default:
		c.Undecided("R3", "decode-buffer:"+key, call.Pos(), "decoded buffer is not a fresh make([]byte, n) or local array (zero padding cannot be established)")
		return
	}
	isView := func(v ssa.Value) bool {
		for _, x := range views {
			if x == v {
				return true
			}
		}
		return false
	}
	for _, v := range views {
		if refs := v.Referrers(); refs != nil {
			uses = append(uses, *refs...)
		}
	}
	// length obligation: len(buf) >= w/8 at the call
	c.Check("R3", "decode-buflen:"+key, call.Pos(), iv.Lo >= int64(w/8),
		fmt.Sprintf("buffer length in [%d,%d] at the read of %d octets", iv.Lo, iv.Hi, w/8))
	// the only writes into buf: one copy(buf, b) that dominates the read
	var copies int
	okWrites := true
	{
		for _, r := range uses {
			switch y := r.(type) {
			case *ssa.Call:
				if y == call {
					continue
				}
				if bi, ok := y.Call.Value.(*ssa.Builtin); ok && bi.Name() == "copy" && isView(y.Call.Args[0]) && y.Call.Args[1] == b {
					copies++
					if !core.InstrDominates(y, call) {
						okWrites = false
					}
					continue
				}
				if bi, ok := y.Call.Value.(*ssa.Builtin); ok && bi.Name() == "len" {
					continue
				}
				okWrites = false
			case *ssa.DebugRef:
			default:
				okWrites = false
			}
		}
	}
	c.Check("R3", "decode-copy:"+key, bufPos, copies == 1 && okWrites,
		"the fresh buffer receives exactly the IE payload by one copy() before the read, and nothing else (zero padding above the present octets)")
	// too-short guard: the read is reachable only with len(b) >= minLen, and with nothing more demanded
	lb := core.EvalInt(lenCall(fn, b), call.Block())
	c.Check("R3", "decode-minlen:"+key, call.Pos(), lb.Lo == int64(minLen),
		fmt.Sprintf("decoding proceeds for payload lengths >= %d; shortest permitted IE has %d octet(s)", lb.Lo, minLen))
	// every return that is not dominated by the store returns a non-nil error
	core.Instrs(fn, func(in ssa.Instruction) {
		r, ok := in.(*ssa.Return)
		if !ok || len(r.Results) != 1 {
			return
		}
		if core.InstrDominates(st, r) {
			c.Check("R3", "decode-ok-return:"+key, r.Pos(), core.IsNilConst(r.Results[0]), "successful decode returns nil")
		} else {
			c.Check("R3", "decode-short-return:"+key, r.Pos(), !core.IsNilConst(r.Results[0]) && !core.Reaches(r, call) && !core.Reaches(call, r) && noReadBefore(r, b),
				"an error is returned only for a too-short payload, before any octet is read: every bit pattern of a long-enough IE is decoded, none is refused")
		}
	})
}

// lenCall finds (any) len(b) value in fn to evaluate; intervals are keyed by quantity, not value.
func lenCall(fn *ssa.Function, b ssa.Value) ssa.Value {
	var out ssa.Value
	core.Instrs(fn, func(in ssa.Instruction) {
		if cl, ok := in.(*ssa.Call); ok && out == nil {
			if bi, ok := cl.Call.Value.(*ssa.Builtin); ok && bi.Name() == "len" && cl.Call.Args[0] == b {
				out = cl
			}
		}
	})
	if out == nil {
		return b // evaluates to Top
	}
	return out
}

// noReadBefore: no index/slice of b dominates return r.
func noReadBefore(r *ssa.Return, b ssa.Value) bool {
	ok := true
	if refs := b.Referrers(); refs != nil {
		for _, x := range *refs {
			switch x.(type) {
			case *ssa.IndexAddr, *ssa.Index, *ssa.Slice:
				if core.InstrDominates(x, r) {
					ok = false
				}
			}
		}
	}
	return ok
}

// checkFlagIE: b := make([]byte,4); LittleEndian.PutUint32(b, recv.Flags); ctor(b[:3]...)
func checkFlagIE(c *core.Ctx, fn *ssa.Function, typ string, flags *types.Var, ctor string) {
	key := typ + ".IE"
	if fn == nil {
		c.Anchor("R3", key)
		return
	}
	var put, mk *ssa.Call
	core.Instrs(fn, func(in ssa.Instruction) {
		if cl, ok := in.(*ssa.Call); ok {
			f := core.Callee(cl)
			if _, op, _, ok := core.EndianCall(f); ok && op == "PutUint" {
				put = cl
			}
			if core.IsPkgFunc(f, core.PkgIE, ctor) {
				mk = cl
			}
		}
	})
	// the octets may be produced by an own helper shared by the encoders (triggerOctets(flags) []byte): the
	// write and the [:3] view are then judged inside the helper, whose parameter stands for the Flags handed in
	body := fn             // where PutUint and the buffer live
	var flagsArg ssa.Value // what stands for "the receiver's Flags" in body
	var octets ssa.Value   // the value handed to the constructor, as seen in body
	if put == nil && mk != nil && len(mk.Call.Args) == 1 {
		if hc, isCall := mk.Call.Args[0].(*ssa.Call); isCall && !hc.Call.IsInvoke() {
			if h := core.StaticFn(hc); h != nil && h.Blocks != nil && c.P.IsOwnFn(h) && len(hc.Call.Args) == 1 && core.IsFieldOf(hc.Call.Args[0], core.Recv(fn), flags) {
				core.Instrs(h, func(in ssa.Instruction) {
					if cl, ok := in.(*ssa.Call); ok {
						if _, op, _, ok := core.EndianCall(core.Callee(cl)); ok && op == "PutUint" {
							put = cl
						}
					}
					if r, ok := in.(*ssa.Return); ok && len(r.Results) == 1 {
						octets = r.Results[0]
					}
				})
				if put != nil && len(h.Params) == 1 {
					body, flagsArg = h, h.Params[0]
				}
			}
		}
	}
	if put == nil || mk == nil {
		c.Undecided("R3", "encode:"+key, fn.Pos(), "encoder is not of the form PutUintNN into a buffer handed to ie."+ctor)
		return
	}
	order, _, w, _ := core.EndianCall(core.Callee(put))
	c.Check("R3", "encode-order:"+key, put.Pos(), order == "little" && w == 32,
		fmt.Sprintf("flag word written %s-endian/%d bits (must be little-endian, 32)", order, w))
	args := core.CallArgs(put)
	if body == fn {
		c.Check("R3", "encode-source:"+key, put.Pos(), core.IsFieldOf(args[1], core.Recv(fn), flags), "encoded value is the receiver's Flags")
	} else {
		c.Check("R3", "encode-source:"+key, put.Pos(), args[1] == flagsArg, "encoded value is the receiver's Flags (handed to "+core.FnName(body)+")")
	}
	// buffer: slice of a fresh [4]byte / make([]byte,4)
	bufLen := core.LenInterval(args[0], put.Block())
	fresh := isFreshBytes(args[0])
	c.Check("R3", "encode-buffer:"+key, put.Pos(), fresh && bufLen.Lo >= 4, fmt.Sprintf("buffer is fresh and >= 4 octets (len in [%d,%d])", bufLen.Lo, bufLen.Hi))
	// constructor gets buf[:3]
	var okArg bool
	ctorArg := ssa.Value(nil)
	if len(mk.Call.Args) == 1 {
		ctorArg = mk.Call.Args[0]
	}
	if body != fn {
		ctorArg = octets
	}
	if ctorArg != nil {
		// same backing store, both from offset 0: buf / buf[:] / arr[:]
		root := func(v ssa.Value) ssa.Value {
			v = core.Unwrap(v)
			for {
				sl, ok := v.(*ssa.Slice)
				if !ok {
					return v
				}
				if sl.Low != nil {
					if z, isZ := core.ConstInt(sl.Low); !isZ || z != 0 {
						return v
					}
				}
				v = core.Unwrap(sl.X)
			}
		}
		if sl, ok := ctorArg.(*ssa.Slice); ok && root(sl.X) == root(args[0]) && sl.Low == nil {
			if n, ok := core.ConstInt(sl.High); ok && n == 3 {
				okArg = true
			}
		}
	}
	after := false
	if body == fn {
		after = core.InstrDominates(put, mk)
	} else if sl, ok := octets.(*ssa.Slice); ok {
		after = core.InstrDominates(put, sl)
	}
	c.Check("R3", "encode-octets:"+key, mk.Pos(), okArg && after,
		"ie."+ctor+" receives octets 0..2 of the buffer after the write (three flag octets, low octet first)")
	// the IE returned is the constructor's result
	core.Instrs(fn, func(in ssa.Instruction) {
		if r, ok := in.(*ssa.Return); ok {
			c.Check("R3", "encode-return:"+key, r.Pos(), len(r.Results) == 1 && r.Results[0] == ssa.Value(mk), "the constructed IE is returned")
		}
	})
}

func isFreshBytes(v ssa.Value) bool {
	switch x := v.(type) {
	case *ssa.MakeSlice:
		return true
	case *ssa.Slice:
		if _, ok := x.X.(*ssa.Alloc); ok {
			return true
		}
	}
	return false
}

func checkCauseMapping(c *core.Ctx) {
	p := c.P
	m := p.Method(pkgReport, "UsageReportTrigger", "SetReportingTrigger")
	if m == nil {
		c.Anchor("R4", "method report.UsageReportTrigger.SetReportingTrigger")
		return
	}
	decl := p.Decl(m)
	info := p.InfoOf(m.Pkg())
	if decl == nil || decl.Body == nil || info == nil {
		c.Anchor("R4", "syntax of SetReportingTrigger")
		return
	}
	var sw *ast.SwitchStmt
	nStmts := 0
	for _, s := range decl.Body.List {
		nStmts++
		if x, ok := s.(*ast.SwitchStmt); ok {
			sw = x
		}
	}
	if sw == nil || nStmts != 1 || sw.Init != nil || sw.Tag == nil {
		c.Undecided("R4", "mapping:SetReportingTrigger", decl.Pos(), "body is not a single `switch <param> { case RPT_TRIG_X: t.Flags |= USAR_TRIG_X }`")
		return
	}
	if len(decl.Type.Params.List) != 1 || len(decl.Type.Params.List[0].Names) != 1 ||
		core.ObjOf(info, sw.Tag) != info.Defs[decl.Type.Params.List[0].Names[0]] {
		c.Undecided("R4", "mapping:SetReportingTrigger", sw.Pos(), "switch tag is not the trigger parameter")
		return
	}
	seen := map[string]bool{}
	for _, cl := range sw.Body.List {
		cc := cl.(*ast.CaseClause)
		if cc.List == nil {
			// default arm must not set anything
			c.Check("R4", "mapping-default", cc.Pos(), len(cc.Body) == 0, "default arm maps nothing")
			continue
		}
		var from []string
		for _, e := range cc.List {
			o, _ := core.ObjOf(info, e).(*types.Const)
			if o == nil || !strings.HasPrefix(o.Name(), "RPT_TRIG_") || o.Pkg() != m.Pkg() {
				c.Undecided("R4", "mapping-case", e.Pos(), "case expression is not a RPT_TRIG_ constant")
				continue
			}
			from = append(from, strings.TrimPrefix(o.Name(), "RPT_TRIG_"))
		}
		to, ok := orAssignedConsts(info, cc.Body, "USAR_TRIG_")
		for _, f := range from {
			seen[f] = true
			c.Check("R4", "mapping:"+f, cc.Pos(), ok && len(to) == 1 && to[0] == f && len(from) == 1,
				fmt.Sprintf("cause RPT_TRIG_%s sets %v (must set exactly USAR_TRIG_%s)", f, to, f))
		}
	}
	// an arm for every shared name
	var shared []string
	for _, n := range flagTables["RPT_TRIG_"].names {
		if _, ok := bitOf("USAR_TRIG_", n); ok {
			shared = append(shared, n)
		}
	}
	sort.Strings(shared)
	for _, n := range shared {
		c.Check("R4", "mapping-present:"+n, sw.Pos(), seen[n], "an arm exists for shared cause "+n)
	}
}

// orAssignedConsts recognises bodies consisting only of `x.Flags |= C` / `x.Flags = x.Flags | C` and
// returns the suffixes of the constants C (which must carry the prefix).
func orAssignedConsts(info *types.Info, body []ast.Stmt, prefix string) ([]string, bool) {
	var out []string
	for _, s := range body {
		as, ok := s.(*ast.AssignStmt)
		if !ok || len(as.Lhs) != 1 || len(as.Rhs) != 1 {
			return out, false
		}
		lhs, ok := as.Lhs[0].(*ast.SelectorExpr)
		if !ok || lhs.Sel.Name != "Flags" {
			return out, false
		}
		rhs := ast.Unparen(as.Rhs[0])
		switch as.Tok {
		case token.OR_ASSIGN:
		case token.ASSIGN:
			be, ok := rhs.(*ast.BinaryExpr)
			if !ok || be.Op != token.OR || types.ExprString(be.X) != types.ExprString(lhs) {
				return out, false
			}
			rhs = ast.Unparen(be.Y)
		default:
			return out, false
		}
		var collect func(e ast.Expr) bool
		collect = func(e ast.Expr) bool {
			e = ast.Unparen(e)
			if be, ok := e.(*ast.BinaryExpr); ok && be.Op == token.OR {
				return collect(be.X) && collect(be.Y)
			}
			o, _ := core.ObjOf(info, e).(*types.Const)
			if o == nil || !strings.HasPrefix(o.Name(), prefix) {
				return false
			}
			out = append(out, strings.TrimPrefix(o.Name(), prefix))
			return true
		}
		if !collect(rhs) {
			return out, false
		}
	}
	return out, true
}

func checkSetFlags(c *core.Ctx) {
	p := c.P
	m := p.Method(pkgReport, "VolumeMeasure", "SetFlags")
	if m == nil {
		c.Anchor("R5", "method report.VolumeMeasure.SetFlags")
		return
	}
	fn := p.SSAFn(m)
	flags := p.Field(pkgReport, "VolumeMeasure", "Flags")
	mnop := core.Param(fn, 0)
	var always, under uint64
	okForm := true
	core.Instrs(fn, func(in ssa.Instruction) {
		st, ok := in.(*ssa.Store)
		if !ok {
			return
		}
		fa, ok := st.Addr.(*ssa.FieldAddr)
		if !ok || core.FieldOfAddr(fa) != flags {
			return
		}
		or, ok := st.Val.(*ssa.BinOp)
		if !ok || or.Op != token.OR || !core.IsFieldOf(or.X, core.Recv(fn), flags) {
			okForm = false
			return
		}
		k, ok := core.ConstInt(or.Y)
		if !ok {
			okForm = false
			return
		}
		switch {
		case st.Block() == fn.Blocks[0]:
			always |= uint64(k)
		case core.KnownAt(st.Block(), mnop, true):
			under |= uint64(k)
		default:
			okForm = false
		}
	})
	if !okForm {
		c.Undecided("R5", "SetFlags", fn.Pos(), "stores to Flags are not all `Flags |= const` in the entry block or under mnop")
		return
	}
	c.Check("R5", "SetFlags-volume", fn.Pos(), always == 0x07, fmt.Sprintf("unconditional bits %#x (must be TOVOL|ULVOL|DLVOL = 0x07)", always))
	c.Check("R5", "SetFlags-packets", fn.Pos(), under == 0x38, fmt.Sprintf("bits set iff mnop %#x (must be TONOP|ULNOP|DLNOP = 0x38)", under))
}

// triggerFresh: SetReportingTrigger only ORs bits into its receiver, so "each cause maps to the trigger of the same
// name and to no other" needs a receiver that starts at zero for every report: a receiver declared outside the loop
// over the reports of one message accumulates the causes of all earlier reports.
func triggerFresh(c *core.Ctx, rule string) {
	p := c.P
	m := p.Method(pkgReport, "UsageReportTrigger", "SetReportingTrigger")
	if m == nil {
		c.Anchor(rule, "report.UsageReportTrigger.SetReportingTrigger")
		return
	}
	n := 0
	for _, fn := range p.OwnFuncs() {
		k := 0
		for _, ci := range core.Calls(fn, m) {
			in := ci.(ssa.Instruction)
			n++
			k++
			recv := core.CallRecv(ci)
			root, _ := core.FieldPath(recv)
			if fa, ok := recv.(*ssa.FieldAddr); ok {
				root = fa.X
				for {
					if f2, ok := root.(*ssa.FieldAddr); ok {
						root = f2.X
						continue
					}
					break
				}
			}
			fresh := true
			why := ""
			if inAnyLoop(in) {
				hdr := loopHeaderOf(in)
				al, isAl := core.Unwrap(root).(*ssa.Alloc)
				switch {
				case !isAl:
					fresh, why = false, "the receiver is not a local of this function"
				case !inNaturalLoop(al.Block(), hdr):
					// declared outside: acceptable only if it is reset (a whole-value store) inside the loop before the call
					reset := false
					for _, r := range *al.Referrers() {
						if st, ok := r.(*ssa.Store); ok && st.Addr == ssa.Value(al) && inNaturalLoop(st.Block(), hdr) && core.InstrDominates(st, in) {
							reset = true
						}
					}
					if !reset {
						fresh, why = false, "the receiver is declared outside the loop over the reports and not reset inside it"
					}
				}
			}
			c.Check(rule, fmt.Sprintf("trigger-fresh:%s#%d", core.FnName(fn), k), in.Pos(), fresh,
				"the usage-report trigger that a cause is mapped into starts empty for every report (SetReportingTrigger only adds bits)"+map[bool]string{true: "", false: " — " + why}[fresh])
		}
	}
	c.Floor(rule, n, 1, "calls of SetReportingTrigger")
}
