package rules

// E-TAB: extraction of the netlink attribute tables the driver WRITES (nl.Attr literals in
// internal/forwarder) and of the tables the reference reader READS (go-gtp5gnl Decode* switches).

import (
	"encoding/json"
	"fmt"
	"go/ast"
	"go/constant"
	"go/token"
	"go/types"
	"os"
	"sort"
	"strconv"
	"strings"

	"golang.org/x/tools/go/ssa"

	"upfcheck/internal/core"
)

// attrRow is one attribute written by a builder function.
type attrRow struct {
	Fn       string `json:"fn"`
	Const    string `json:"attr"`   // attribute type constant (go-gtp5gnl / syscall name)
	Parent   string `json:"parent"` // enclosing attribute when written inside an AttrList literal
	List     string `json:"list"`   // accumulator variable the attribute is appended to
	Cases    string `json:"case"`   // ie.X of the enclosing case clause(s)
	Guards   string `json:"guards"` // enclosing conditions
	Kind     string `json:"kind"`   // u8/u16/u32/u64/bytes/string/nest/?
	Src      string `json:"src"`    // provenance of the value
	Dropped  string `json:"dropped"`
	constObj *types.Const
	pos      token.Pos
	width    int
}

func (r attrRow) key() string {
	return r.Fn + "|" + r.Const + "|" + r.Parent + "|" + r.List + "|" + r.Cases + "|" + r.Guards
}

// value-range seeds for accessor results that are narrower than their Go type
var accessorBits = map[string]int{
	"MBRUL()": 40, "MBRDL()": 40, "GBRUL()": 40, "GBRDL()": 40,
}

// accessor results with a known interval (nanosecond durations): max value
var accessorMax = map[string]int64{
	"DownlinkDataNotificationDelay()": 255 * 50_000_000,
}

type extractor struct {
	p        *core.Program
	fn       *ssa.Function
	info     *types.Info
	byLparen map[token.Pos]ssa.Instruction
	nlPkg    string
	// walksChildren: the function iterates over child IEs (a loaded slice element of type *ie.IE is the
	// receiver of some call); accessors called on the IE *parameter* are then qualified "req." so that
	// `case ie.X: v := req.X()` (first child of that type of the whole grouped IE) is told apart from
	// `v := i.X()` (this child)
	walksChildren bool
	// subst: when this extractor describes an own helper that builds one attribute from its parameters
	// (attrs = append(attrs, newBARDelayAttr(v))), parameter name -> description of the caller's argument
	subst map[string]string
	// syntax: when set, the declaration walked instead of fn's own — a helper that the SSA builder expanded into fn
	// (its instructions are in fn, at the helper's source positions)
	syntax *ast.FuncDecl
	// where the walk of an expanded helper starts: the context of its call in the function it was expanded into
	initCases, initGuards []string
	initParent, initList  string
	fnName                string
	depth                 int
	// argOf: parameter of the expanded helper -> the argument expression of its call (and the type information it
	// is written under): an attribute number handed in as a parameter is the constant named at the call
	argOf   map[types.Object]ast.Expr
	argInfo *types.Info
	argUp   *extractor
}

// constOfExpr resolves an expression to the constant object it names, through parameters of expanded helpers.
func (x *extractor) constOfExpr(info *types.Info, e ast.Expr, depth int) *types.Const {
	if depth > 4 {
		return nil
	}
	o := core.ObjOf(info, e)
	if k, ok := o.(*types.Const); ok {
		return k
	}
	if o != nil && x.argOf != nil {
		if a, ok := x.argOf[o]; ok && x.argUp != nil {
			return x.argUp.constOfExpr(x.argInfo, a, depth+1)
		}
	}
	return nil
}

func newExtractor(p *core.Program, fn *ssa.Function) *extractor {
	x := &extractor{p: p, fn: fn, info: p.InfoOf(core.FnPkg(fn)), byLparen: map[token.Pos]ssa.Instruction{}, nlPkg: core.PkgNL}
	core.Instrs(fn, func(in ssa.Instruction) {
		if cl, ok := in.(*ssa.Call); ok {
			if r := core.CallRecv(cl); r != nil {
				if u, ok := core.Unwrap(r).(*ssa.UnOp); ok && x.isCurrentIE(u) {
					x.walksChildren = true
				}
			}
		}
		switch in.(type) {
		case *ssa.Convert, *ssa.ChangeType, *ssa.MakeInterface:
			if in.Pos().IsValid() {
				if _, dup := x.byLparen[in.Pos()]; !dup {
					x.byLparen[in.Pos()] = in
				} else if _, isMI := in.(*ssa.MakeInterface); !isMI {
					x.byLparen[in.Pos()] = in
				}
			}
		}
	})
	return x
}

func (x *extractor) isNLType(t types.Type, name string) bool {
	n, ok := t.(*types.Named)
	return ok && n.Obj().Pkg() != nil && n.Obj().Pkg().Path() == x.nlPkg && n.Obj().Name() == name
}

// describeLeaf names a value source: accessor call results, parameters and fields thereof.
func (x *extractor) describeLeaf(v ssa.Value, depth int) string {
	if depth > 8 || v == nil {
		return ""
	}
	v = core.Unwrap(v)
	switch y := v.(type) {
	case *ssa.Const:
		if y.Value == nil {
			return "const:nil"
		}
		return "const:" + y.Value.ExactString()
	case *ssa.Parameter:
		if d, ok := x.subst[y.Name()]; ok && d != "" {
			return d
		}
		return "param:" + y.Name()
	case *ssa.Extract:
		if y.Index == 0 {
			if cl, ok := y.Tuple.(*ssa.Call); ok {
				return x.describeCall(cl, depth)
			}
		}
		return ""
	case *ssa.Call:
		if _, isB := y.Call.Value.(*ssa.Builtin); isB {
			return ""
		}
		return x.describeCall(y, depth)
	case *ssa.UnOp:
		if y.Op == token.MUL {
			if ia, ok := y.X.(*ssa.IndexAddr); ok {
				if k, ok := core.ConstInt(ia.Index); ok {
					if b := x.describeLeaf(ia.X, depth+1); b != "" {
						return fmt.Sprintf("%s[%d]", b, k)
					}
				}
				if b := x.describeLeaf(ia.X, depth+1); b != "" {
					return b + "[i]"
				}
			}
		}
	case *ssa.Phi:
		// a variable assigned in the loop and read after it: all non-zero edges must agree
		name := ""
		for _, e := range y.Edges {
			if k, ok := e.(*ssa.Const); ok && (k.Value == nil || constant.Sign(constant.ToInt(k.Value)) == 0) {
				continue
			}
			if e == ssa.Value(y) {
				continue
			}
			if p2, ok := e.(*ssa.Phi); ok && p2 == y {
				continue
			}
			d := x.describeLeaf(e, depth+1)
			if d == "" || (name != "" && d != name) {
				return ""
			}
			name = d
		}
		return name
	case *ssa.Convert:
		return x.describeLeaf(y.X, depth+1)
	}
	// a field of a struct-typed local used as a bundle of variables (p.urrid = ...; ... p.urrid): what is
	// read is what was stored into that field anywhere in the function; all non-zero stores must agree
	// (the same rule as for a variable assigned in the loop and read after it)
	if ld, ok := v.(*ssa.UnOp); ok && ld.Op == token.MUL {
		if fa, ok := ld.X.(*ssa.FieldAddr); ok {
			if al, ok := fa.X.(*ssa.Alloc); ok {
				name, n := "", 0
				agree := true
				core.Instrs(x.fn, func(in ssa.Instruction) {
					st, ok := in.(*ssa.Store)
					if !ok {
						return
					}
					fb, ok := st.Addr.(*ssa.FieldAddr)
					if !ok || fb.X != ssa.Value(al) || fb.Field != fa.Field {
						return
					}
					if k, ok := st.Val.(*ssa.Const); ok && (k.Value == nil || (k.Value.Kind() == constant.Int && constant.Sign(k.Value) == 0)) {
						return
					}
					n++
					d := x.describeLeaf(st.Val, depth+1)
					if d == "" || (name != "" && d != name) {
						agree = false
					}
					name = d
				})
				if n > 0 && agree && name != "" {
					return name
				}
			}
		}
	}
	if root, names := core.FieldPath(v); len(names) > 0 {
		if b := x.describeLeaf(root, depth+1); b != "" {
			return b + "." + strings.Join(names, ".")
		}
		// a local decoded in place: var t T; t.Unmarshal(<bytes>); ... t.F
		if al, ok := root.(*ssa.Alloc); ok {
			// ... possibly copied as a whole on the way (the result of an expanded decode helper): follow the copies
			// back to the local that was decoded
			for i := 0; i < 4; i++ {
				decoded := false
				for _, r := range *al.Referrers() {
					if cl, ok := r.(*ssa.Call); ok && core.Callee(cl) != nil && core.Callee(cl).Name() == "Unmarshal" && core.CallRecv(cl) == ssa.Value(al) {
						decoded = true
					}
				}
				if decoded {
					break
				}
				sv, ok := aggregateSingleStore(al)
				if !ok {
					sv, ok = soleWholeStore(al)
				}
				if !ok {
					break
				}
				src := structCopySource(sv, 0)
				if src == nil {
					break
				}
				al = src
			}
			var desc []string
			for _, r := range *al.Referrers() {
				if cl, ok := r.(*ssa.Call); ok {
					if f := core.Callee(cl); f != nil && f.Name() == "Unmarshal" && core.CallRecv(cl) == ssa.Value(al) {
						if n := core.RecvNamed(f); n != nil {
							desc = append(desc, n.Obj().Name()+".Unmarshal("+x.describeLeaf(core.CallArgs(cl)[0], depth+1)+")")
						}
					}
				}
			}
			if len(desc) == 1 {
				return desc[0] + "." + strings.Join(names, ".")
			}
			// the decoded value is itself a field of a struct-typed local: p.t.Unmarshal(<bytes>); ... p.t.F
			if len(desc) == 0 && len(names) >= 2 {
				for _, r := range *al.Referrers() {
					fa, ok := r.(*ssa.FieldAddr)
					if !ok || core.FieldOfAddr(fa).Name() != names[0] {
						continue
					}
					for _, r2 := range *fa.Referrers() {
						if cl, ok := r2.(*ssa.Call); ok {
							if f := core.Callee(cl); f != nil && f.Name() == "Unmarshal" && core.CallRecv(cl) == ssa.Value(fa) {
								if n := core.RecvNamed(f); n != nil {
									desc = append(desc, n.Obj().Name()+".Unmarshal("+x.describeLeaf(core.CallArgs(cl)[0], depth+1)+")")
								}
							}
						}
					}
				}
				if len(desc) == 1 {
					return desc[0] + "." + strings.Join(names[1:], ".")
				}
			}
			// ... or decoded by an own helper: t, err := decodeT(i) with `var t T; t.Unmarshal(i.X()); return t, err`
			// inside; the helper is described with its IE parameter standing for the IE handed to it
			if len(desc) == 0 && depth < 6 {
				sv, ok := aggregateSingleStore(al)
				if !ok {
					// the local's address may be kept for later reading (newAct = &act): one whole-value store is enough here
					k := 0
					for _, r := range *al.Referrers() {
						if st, isSt := r.(*ssa.Store); isSt && st.Addr == ssa.Value(al) {
							sv = st.Val
							k++
						}
					}
					ok = k == 1
				}
				if ok {
					if ex, ok := sv.(*ssa.Extract); ok && ex.Index == 0 {
						sv = ex.Tuple
					}
					if cl, ok := sv.(*ssa.Call); ok && !cl.Call.IsInvoke() {
						sf := core.StaticFn(cl)
						passesIE := false
						for _, a := range cl.Call.Args {
							if x.isCurrentIE(a) {
								passesIE = true
							}
						}
						if sf != nil && sf.Blocks != nil && x.p.IsOwnFn(sf) && passesIE {
							x2 := newExtractor(x.p, sf)
							inner := ""
							agree := true
							core.Instrs(sf, func(in ssa.Instruction) {
								r, isR := in.(*ssa.Return)
								if !isR || len(r.Results) == 0 {
									return
								}
								ld, isLd := r.Results[0].(*ssa.UnOp)
								if !isLd {
									agree = false
									return
								}
								a2, isAl := ld.X.(*ssa.Alloc)
								if !isAl {
									agree = false
									return
								}
								// describe <a2>.<names> inside the helper
								var fa ssa.Value = a2
								d := ""
								for _, rr := range *a2.Referrers() {
									if c2, ok := rr.(*ssa.Call); ok {
										if f := core.Callee(c2); f != nil && f.Name() == "Unmarshal" && core.CallRecv(c2) == fa {
											if n := core.RecvNamed(f); n != nil {
												d = n.Obj().Name() + ".Unmarshal(" + x2.describeLeaf(core.CallArgs(c2)[0], depth+1) + ")"
											}
										}
									}
								}
								if d == "" || (inner != "" && inner != d) {
									agree = false
								}
								inner = d
							})
							if agree && inner != "" {
								return inner + "." + strings.Join(names, ".")
							}
						}
					}
				}
			}
		}
	}
	return ""
}

func (x *extractor) describeCall(cl *ssa.Call, depth int) string {
	f := core.Callee(cl)
	if f == nil {
		return ""
	}
	name := f.Name() + "()"
	if recv := core.CallRecv(cl); recv != nil {
		// accessor on the IE being translated (loop element or IE parameter) -> plain name; else qualified
		if _, isParam := core.Unwrap(recv).(*ssa.Parameter); isParam && x.isCurrentIE(recv) && x.walksChildren {
			name = "req." + name
		} else if !x.isCurrentIE(recv) {
			if d := x.describeLeaf(recv, depth+1); d != "" {
				name = d + "." + name
			} else {
				name = "?." + name
			}
		}
	} else if len(cl.Call.Args) > 0 && x.p.IsOwn(f.Pkg()) {
		var as []string
		for _, a := range cl.Call.Args {
			as = append(as, x.describeLeaf(a, depth+1))
		}
		name = f.Name() + "(" + strings.Join(as, ",") + ")"
	}
	return name
}

// isCurrentIE: v is an *ie.IE that is a parameter of the builder or the element of a range over an IE list.
func (x *extractor) isCurrentIE(v ssa.Value) bool {
	v = core.Unwrap(v)
	pt, ok := v.Type().(*types.Pointer)
	if !ok {
		return false
	}
	n, ok := pt.Elem().(*types.Named)
	if !ok || n.Obj().Name() != "IE" || n.Obj().Pkg().Path() != core.PkgIE {
		return false
	}
	switch y := v.(type) {
	case *ssa.Parameter:
		return true
	case *ssa.UnOp:
		if y.Op == token.MUL {
			if _, ok := y.X.(*ssa.IndexAddr); ok {
				return true
			}
		}
	}
	return false
}

func (x *extractor) leaf(v ssa.Value) core.BitVec {
	switch v.(type) {
	case *ssa.BinOp, *ssa.Convert, *ssa.ChangeType, *ssa.Const:
		return nil
	}
	name := x.describeLeaf(v, 0)
	if name == "" {
		return nil
	}
	w, ok := core.WidthOf(v.Type())
	if !ok {
		return nil
	}
	bv := core.SrcBits(name, w)
	if n, ok := accessorBits[name]; ok {
		for i := n; i < w; i++ {
			bv[i] = core.Bit{Kind: core.BZero}
		}
	}
	return bv
}

// extract walks the syntax of the builder function and returns its attribute rows.
func (x *extractor) extract() ([]attrRow, []string) {
	var rows []attrRow
	var problems []string
	node := x.fn.Syntax()
	fd, ok := node.(*ast.FuncDecl)
	if x.syntax != nil {
		fd, ok = x.syntax, true
	}
	if !ok || fd.Body == nil {
		return nil, []string{"no syntax"}
	}
	fnName := x.fn.Name()
	if x.fnName != "" {
		fnName = x.fnName
	}
	type ctx struct {
		cases  []string
		guards []string
		parent string
		list   string
	}
	var walk func(n ast.Node, c ctx)
	var condNameF func(e ast.Expr) string
	var negateF func(string) string
	var terminatesF func(*ast.BlockStmt) bool
	var isErrCondF func(string) bool
	walkList := func(ns []ast.Stmt, c ctx) {
		for _, s := range ns {
			walk(s, c)
			// guard clause: `if cond { ...; return }` (no else) guards everything after it with !cond
			// a switch with a default in which every clause but one leaves the sequence: what follows runs only
			// under that clause's condition (same information as the guard clause `if !cond { return }`)
			if sw, ok := s.(*ast.SwitchStmt); ok {
				hasDefault, live := false, []*ast.CaseClause{}
				for _, cl := range sw.Body.List {
					cc := cl.(*ast.CaseClause)
					if cc.List == nil {
						hasDefault = true
					}
					if !terminatesF(&ast.BlockStmt{List: cc.Body}) {
						live = append(live, cc)
					}
				}
				isTypeSwitch := false
				if sel, ok := sw.Tag.(*ast.SelectorExpr); ok && sel.Sel.Name == "Type" {
					isTypeSwitch = true
				}
				if hasDefault && len(live) == 1 && live[0].List != nil && !isTypeSwitch {
					var names []string
					for _, e := range live[0].List {
						names = append(names, types.ExprString(e))
					}
					g := strings.Join(names, ",")
					if sw.Tag != nil {
						g = types.ExprString(sw.Tag) + "==" + g
					}
					c.guards = append(append([]string{}, c.guards...), g)
				}
			}
			if ifs, ok := s.(*ast.IfStmt); ok && ifs.Else == nil && terminatesF(ifs.Body) {
				// selectors only (flag tests, ==, !=): an ordering test such as `period <= 0` is a validation of
				// the value, not a choice between attribute shapes
				if be, isBin := ast.Unparen(ifs.Cond).(*ast.BinaryExpr); isBin && be.Op != token.EQL && be.Op != token.NEQ {
					continue
				}
				if cn := condNameF(ifs.Cond); !isErrCondF(cn) {
					c.guards = append(append([]string{}, c.guards...), negateF(cn))
				}
			}
		}
	}
	condName := func(e ast.Expr) string {
		e = ast.Unparen(e)
		switch y := e.(type) {
		case *ast.CallExpr:
			if sel, ok := y.Fun.(*ast.SelectorExpr); ok && len(y.Args) == 0 {
				return sel.Sel.Name + "()"
			}
		case *ast.Ident:
			return y.Name
		case *ast.UnaryExpr:
			if y.Op == token.NOT {
				return "!" + types.ExprString(y.X)
			}
		case *ast.BinaryExpr:
			// a == b / a != b are written the way a tagged switch arm is: a==b, and !a==b
			if y.Op == token.EQL {
				return types.ExprString(y.X) + "==" + types.ExprString(y.Y)
			}
			if y.Op == token.NEQ {
				return "!" + types.ExprString(y.X) + "==" + types.ExprString(y.Y)
			}
		}
		return types.ExprString(e)
	}
	negate := func(cn string) string {
		if strings.HasPrefix(cn, "!") {
			return cn[1:]
		}
		return "!" + cn
	}
	// terminates: the statement list always leaves the enclosing statement sequence (return / continue / break / goto / panic)
	terminates := func(b *ast.BlockStmt) bool {
		if b == nil || len(b.List) == 0 {
			return false
		}
		switch last := b.List[len(b.List)-1].(type) {
		case *ast.ReturnStmt:
			return true
		case *ast.BranchStmt:
			return last.Tok == token.CONTINUE || last.Tok == token.BREAK || last.Tok == token.GOTO
		case *ast.ExprStmt:
			if call, ok := last.X.(*ast.CallExpr); ok {
				if id, ok := call.Fun.(*ast.Ident); ok && id.Name == "panic" {
					return true
				}
			}
		}
		return false
	}
	isErrCond := func(cn string) bool {
		return strings.Contains(cn, "err") || strings.HasSuffix(cn, "!= nil") || strings.HasSuffix(cn, "== nil") || strings.HasSuffix(cn, "==nil")
	}
	condNameF, negateF, terminatesF, isErrCondF = condName, negate, terminates, isErrCond
	// variables holding a single attribute that are appended to a list later: a := nl.Attr{...}; l = append(l, a)
	appendedTo := map[types.Object]string{}
	ast.Inspect(fd.Body, func(n ast.Node) bool {
		if call, ok := n.(*ast.CallExpr); ok {
			if id, ok := call.Fun.(*ast.Ident); ok && id.Name == "append" && len(call.Args) >= 2 {
				if l, ok := call.Args[0].(*ast.Ident); ok {
					for _, a := range call.Args[1:] {
						if v, ok := a.(*ast.Ident); ok {
							if o := x.info.ObjectOf(v); o != nil {
								appendedTo[o] = l.Name
							}
						}
					}
				}
			}
		}
		return true
	})
	walk = func(n ast.Node, c ctx) {
		switch y := n.(type) {
		case nil:
			return
		case *ast.FuncLit:
			return
		case *ast.BlockStmt:
			walkList(y.List, c)
			return
		case *ast.AssignStmt:
			// l := nl.AttrList{{...}, ...}: the literal's elements are the list's first rows
			if len(y.Lhs) == 1 && len(y.Rhs) == 1 {
				if id, ok := y.Lhs[0].(*ast.Ident); ok {
					if lit, isLit := ast.Unparen(y.Rhs[0]).(*ast.CompositeLit); isLit {
						if tv, ok := x.info.Types[lit]; ok && x.isNLType(tv.Type, "AttrList") {
							c2 := c
							c2.list = id.Name
							for _, el := range lit.Elts {
								walk(el, c2)
							}
							return
						}
					}
				}
			}
			// attr, ok := helper(...); ...; l = append(l, attr) with an expanded helper that returns the attribute
			if len(y.Lhs) >= 1 && len(y.Rhs) == 1 {
				if id, ok := y.Lhs[0].(*ast.Ident); ok {
					if l, ok := appendedTo[x.info.ObjectOf(id)]; ok {
						if hc, isCall := ast.Unparen(y.Rhs[0]).(*ast.CallExpr); isCall {
							if hf := core.CalleeOfExpr(x.info, hc); hf != nil && core.NewFunctions[hf.FullName()] {
								c2 := c
								c2.list = l
								walk(hc, c2)
								return
							}
						}
					}
				}
			}
			if len(y.Lhs) == 1 && len(y.Rhs) == 1 {
				if id, ok := y.Lhs[0].(*ast.Ident); ok {
					if l, ok := appendedTo[x.info.ObjectOf(id)]; ok {
						if _, isLit := ast.Unparen(y.Rhs[0]).(*ast.CompositeLit); isLit {
							c2 := c
							c2.list = l
							walk(y.Rhs[0], c2)
							return
						}
					}
				}
			}
		case *ast.SwitchStmt:
			isTypeSwitch := false
			if sel, ok := y.Tag.(*ast.SelectorExpr); ok && sel.Sel.Name == "Type" {
				isTypeSwitch = true
			}
			for _, cl := range y.Body.List {
				cc := cl.(*ast.CaseClause)
				c2 := c
				var names []string
				for _, e := range cc.List {
					if isTypeSwitch {
						if o := core.ObjOf(x.info, e); o != nil {
							names = append(names, o.Name())
						}
					} else {
						names = append(names, types.ExprString(e))
					}
				}
				if isTypeSwitch {
					c2.cases = append(append([]string{}, c.cases...), strings.Join(names, ","))
				} else if y.Tag != nil {
					c2.guards = append(append([]string{}, c.guards...), types.ExprString(y.Tag)+"=="+strings.Join(names, ","))
				} else if len(names) > 0 {
					c2.guards = append(append([]string{}, c.guards...), strings.Join(names, ","))
				} else {
					c2.guards = append(append([]string{}, c.guards...), "default")
				}
				walkList(cc.Body, c2)
			}
			return
		case *ast.IfStmt:
			walk(y.Init, c)
			cn := condName(y.Cond)
			// conditions that only test an error / nil are not guards of the attribute content
			isErr := isErrCond(cn)
			c2 := c
			if !isErr {
				c2.guards = append(append([]string{}, c.guards...), cn)
			}
			walk(y.Body, c2)
			if y.Else != nil {
				c3 := c
				if !isErr {
					c3.guards = append(append([]string{}, c.guards...), negate(cn))
				}
				walk(y.Else, c3)
			}
			return
		case *ast.CallExpr:
			// a call of a helper that the SSA builder expanded into this function: its body is part of this
			// function's code, walked in the context of the call
			if hf := core.CalleeOfExpr(x.info, y); hf != nil && hf.Pkg() != nil && x.p.IsOwn(hf.Pkg()) && core.NewFunctions[hf.FullName()] && x.depth < 4 {
				if hd := x.p.Decl(hf); hd != nil && hd.Body != nil && hd != fd {
					x2 := newExtractor(x.p, x.fn)
					x2.syntax, x2.info = hd, x.p.InfoOf(hf.Pkg())
					x2.initCases, x2.initGuards, x2.initParent, x2.initList = c.cases, c.guards, c.parent, c.list
					x2.fnName, x2.depth = fnName, x.depth+1
					// bind the helper's parameters to the argument expressions of this call
					x2.argOf, x2.argInfo, x2.argUp = map[types.Object]ast.Expr{}, x.info, x
					if hd.Type.Params != nil && y.Ellipsis == 0 {
						k := 0
						for _, f := range hd.Type.Params.List {
							for _, id := range f.Names {
								if k < len(y.Args) {
									if po := x2.info.Defs[id]; po != nil {
										x2.argOf[po] = y.Args[k]
									}
								}
								k++
							}
							if len(f.Names) == 0 {
								k++
							}
						}
					}
					hrows, hprobs := x2.extract()
					rows = append(rows, hrows...)
					problems = append(problems, hprobs...)
					for _, a := range y.Args {
						walk(a, c)
					}
					return
				}
			}
			// append(list, nl.Attr{...})
			if id, ok := y.Fun.(*ast.Ident); ok && id.Name == "append" && len(y.Args) >= 2 {
				c2 := c
				if l, ok := y.Args[0].(*ast.Ident); ok {
					c2.list = l.Name
				}
				for _, a := range y.Args[1:] {
					// an own helper that returns one attribute literal built from its parameters
					if hc, isCall := ast.Unparen(a).(*ast.CallExpr); isCall {
						if hf := core.CalleeOfExpr(x.info, hc); hf != nil && x.p.IsOwn(hf.Pkg()) {
							if hs := x.p.SSAFn(hf); hs != nil && hs.Syntax() != nil && hs != x.fn {
								if sig := hf.Type().(*types.Signature); sig.Results().Len() == 1 && (x.isNLType(sig.Results().At(0).Type(), "Attr")) {
									x2 := newExtractor(x.p, hs)
									if hd, isDecl := hs.Syntax().(*ast.FuncDecl); isDecl && x.callAt(hc) == nil && core.NewFunctions[hf.FullName()] {
										// the helper was expanded into this function: read its syntax against our own SSA form
										x2 = newExtractor(x.p, x.fn)
										x2.syntax, x2.info = hd, x.p.InfoOf(hf.Pkg())
									}
									x2.subst = map[string]string{}
									for i := 0; i < sig.Params().Len() && i < len(hc.Args); i++ {
										// describe the caller's argument through its SSA value at the call
										if in := x.callAt(hc); in != nil && i < len(in.Call.Args) {
											off := 0
											if sig.Recv() != nil {
												off = 1
											}
											if off+i < len(in.Call.Args) {
												x2.subst[sig.Params().At(i).Name()] = x.describeLeaf(in.Call.Args[off+i], 0)
											}
										}
									}
									hrows, hprobs := x2.extract()
									if len(hrows) == 1 {
										r := hrows[0]
										r.Fn, r.List, r.Parent = fnName, c2.list, c2.parent
										r.Cases = strings.Join(c2.cases, "/")
										r.Guards = strings.Join(c2.guards, "&")
										r.pos = hc.Pos()
										rows = append(rows, r)
										problems = append(problems, hprobs...)
										continue
									}
								}
							}
						}
					}
					walk(a, c2)
				}
				return
			}
		case *ast.CompositeLit:
			tv, ok := x.info.Types[y]
			if ok && (x.isNLType(tv.Type, "Attr") || isPtrToNL(tv.Type, x, "Attr")) {
				if len(y.Elts) == 0 && x.syntax != nil {
					return // the zero value an expanded helper returns next to ok == false / an error
				}
				row := attrRow{Fn: fnName, Parent: c.parent, List: c.list, Cases: strings.Join(c.cases, "/"), Guards: strings.Join(c.guards, "&"), pos: y.Pos()}
				var valueExpr ast.Expr
				for _, el := range y.Elts {
					kv, ok := el.(*ast.KeyValueExpr)
					if !ok {
						problems = append(problems, "positional nl.Attr literal at "+x.p.Pos(y.Pos()))
						continue
					}
					switch kv.Key.(*ast.Ident).Name {
					case "Type":
						if o := x.constOfExpr(x.info, kv.Value, 0); o != nil {
							row.Const, row.constObj = o.Name(), o
						} else {
							row.Const = "?" + types.ExprString(kv.Value)
						}
					case "Value":
						valueExpr = kv.Value
					}
				}
				if c.parent != "" {
					row.List = ""
				}
				x.classify(&row, valueExpr, &problems)
				rows = append(rows, row)
				// children inside an AttrList literal
				if cl, ok := ast.Unparen(valueExpr).(*ast.CompositeLit); ok {
					c2 := c
					c2.parent = row.Const
					c2.list = ""
					for _, el := range cl.Elts {
						walk(el, c2)
					}
				}
				return
			}
		}
		// generic descent
		ast.Inspect(n, func(m ast.Node) bool {
			if m == n || m == nil {
				return true
			}
			walk(m, c)
			return false
		})
	}
	walk(fd.Body, ctx{cases: x.initCases, guards: x.initGuards, parent: x.initParent, list: x.initList})
	return rows, problems
}

func isPtrToNL(t types.Type, x *extractor, name string) bool {
	pt, ok := t.(*types.Pointer)
	return ok && x.isNLType(pt.Elem(), name)
}

// classify fills Kind/Src/Dropped of a row from its Value expression.
func (x *extractor) classify(row *attrRow, e ast.Expr, problems *[]string) {
	e = ast.Unparen(e)
	switch y := e.(type) {
	case *ast.CompositeLit:
		if tv, ok := x.info.Types[y]; ok && x.isNLType(tv.Type, "AttrList") {
			row.Kind, row.Src = "nest", "literal"
			return
		}
	case *ast.Ident:
		// a list built elsewhere: local accumulator or the result of another builder
		obj := x.info.ObjectOf(y)
		row.Kind = "nest"
		row.Src = "var:" + y.Name
		if obj != nil {
			if b := x.definingCall(obj); b != "" {
				row.Src = "builder:" + b
			}
		}
		return
	case *ast.CallExpr:
		tv, ok := x.info.Types[y.Fun]
		if ok && tv.IsType() && len(y.Args) == 1 {
			n, _ := tv.Type.(*types.Named)
			if n != nil && n.Obj().Pkg() != nil && n.Obj().Pkg().Path() == x.nlPkg {
				kind := map[string]string{"AttrU8": "u8", "AttrU16": "u16", "AttrU32": "u32", "AttrU64": "u64", "AttrBytes": "bytes", "AttrString": "string"}[n.Obj().Name()]
				if kind == "" {
					break
				}
				row.Kind = kind
				arg := y.Args[0]
				// constant argument: no SSA instruction
				if atv, ok := x.info.Types[arg]; ok && atv.Value != nil {
					row.Src = "const:" + atv.Value.ExactString()
					if o := core.ObjOf(x.info, arg); o != nil {
						row.Src = "const:" + o.Name()
						// a numeric constant of go-upf itself is a value, not a name of the netlink namespace:
						// describe it by its bits, exactly like `x := uint16(29); AttrU16(x)`
						if x.p.IsOwn(o.Pkg()) && kind != "bytes" && kind != "string" {
							if u, exact := constant.Uint64Val(constant.ToInt(atv.Value)); exact {
								w, _ := strconv.Atoi(kind[1:])
								row.width = w
								row.Src = core.ConstBits(u, w).String()
							}
						}
					}
					return
				}
				in := x.byLparen[y.Lparen]
				var operand ssa.Value
				switch i2 := in.(type) {
				case *ssa.Convert:
					operand = i2.X
				case *ssa.ChangeType:
					operand = i2.X
				case *ssa.MakeInterface:
					operand = i2.X
				}
				if operand == nil {
					*problems = append(*problems, "no SSA value for the conversion at "+x.p.Pos(y.Lparen))
					row.Src = "?"
					return
				}
				if kind == "bytes" || kind == "string" {
					row.Src = x.describeLeaf(operand, 0)
					if row.Src == "" {
						row.Src = "?"
					}
					return
				}
				w, _ := strconv.Atoi(kind[1:])
				row.width = w
				full := core.BitsOf(operand, x.leaf)
				if full == nil {
					row.Src = "?"
					return
				}
				known := true
				for _, b := range full {
					if b.Kind == core.BUnknown {
						known = false
					}
				}
				if !known {
					// arithmetic that is not bit-structured (division by a non power of two): interval argument
					row.Src = x.describeExpr(operand, 0)
					iv := x.evalSeeded(operand, in.Block())
					if iv.Lo < 0 || (w < 64 && iv.Hi >= int64(1)<<uint(w)) {
						row.Dropped = fmt.Sprintf("value in [%d,%d] does not fit %d bits", iv.Lo, iv.Hi, w)
					}
					return
				}
				row.Src = full.Resize(w, false).String()
				// bits cut off by the conversion
				var lost []string
				for i := w; i < len(full); i++ {
					if full[i].Kind != core.BZero {
						lost = append(lost, core.BitVec{full[i]}.String())
					}
				}
				if len(lost) > 0 {
					row.Dropped = fmt.Sprintf("%d possibly non-zero source bits above bit %d are cut off", len(lost), w-1)
				}
				return
			}
		}
	}
	row.Kind, row.Src = "?", types.ExprString(e)
}

// describeExpr renders non-bit-structured arithmetic.
func (x *extractor) describeExpr(v ssa.Value, depth int) string {
	if depth > 6 {
		return "?"
	}
	if d := x.describeLeaf(v, 0); d != "" {
		return d
	}
	switch y := v.(type) {
	case *ssa.BinOp:
		return y.Op.String() + "(" + x.describeExpr(y.X, depth+1) + "," + x.describeExpr(y.Y, depth+1) + ")"
	case *ssa.Convert:
		return x.describeExpr(y.X, depth+1)
	case *ssa.ChangeType:
		return x.describeExpr(y.X, depth+1)
	}
	return "?"
}

// evalSeeded: interval evaluation with accessor-range seeds.
func (x *extractor) evalSeeded(v ssa.Value, at *ssa.BasicBlock) core.Interval {
	if d := x.describeLeaf(v, 0); d != "" {
		if m, ok := accessorMax[d]; ok {
			return core.Interval{Lo: 0, Hi: m}
		}
	}
	switch y := v.(type) {
	case *ssa.BinOp:
		if y.Op == token.QUO {
			a, b := x.evalSeeded(y.X, at), x.evalSeeded(y.Y, at)
			if b.Lo > 0 && a.Lo >= 0 && a.Hi != core.PosInf {
				return core.Interval{Lo: a.Lo / b.Hi, Hi: a.Hi / b.Lo}
			}
		}
	case *ssa.Convert:
		return x.evalSeeded(y.X, at)
	case *ssa.ChangeType:
		return x.evalSeeded(y.X, at)
	}
	return core.EvalInt(v, at)
}

// definingCall: the object is assigned from a call of an own builder (v, err := g.newPdi(i)).
func (x *extractor) definingCall(obj types.Object) string {
	fd := x.fn.Syntax().(*ast.FuncDecl)
	if x.syntax != nil {
		fd = x.syntax
	}
	res := ""
	ast.Inspect(fd.Body, func(n ast.Node) bool {
		as, ok := n.(*ast.AssignStmt)
		if !ok || len(as.Rhs) != 1 {
			return true
		}
		for _, l := range as.Lhs {
			if id, ok := l.(*ast.Ident); ok && x.info.ObjectOf(id) == obj {
				if call, ok := as.Rhs[0].(*ast.CallExpr); ok {
					if f := core.CalleeOfExpr(x.info, call); f != nil && x.p.IsOwn(f.Pkg()) {
						res = f.Name()
					}
				}
			}
		}
		return true
	})
	return res
}

// ---- reader side ---------------------------------------------------------------------------

type readerArm struct {
	Const  *types.Const
	Width  string // u8/u16/u32/u64/bytes/string/nest/?
	Nested string // Decode function called in the arm
}

type readerTable struct {
	Fn   string
	Arms map[string]readerArm // by constant name
	Decl *ast.GenDecl         // const block of the case constants
}

// readerTables extracts, for every Decode* function of go-gtp5gnl, the attribute constants it
// switches on, the width it reads and the nested decoder it calls.
func readerTables(p *core.Program) map[string]*readerTable {
	pk := p.Pkg(core.PkgGtp5gnl)
	out := map[string]*readerTable{}
	if pk == nil {
		return out
	}
	declOf := map[types.Object]*ast.GenDecl{}
	for _, f := range pk.Syntax {
		for _, d := range f.Decls {
			if gd, ok := d.(*ast.GenDecl); ok && gd.Tok == token.CONST {
				for _, s := range gd.Specs {
					for _, n := range s.(*ast.ValueSpec).Names {
						declOf[pk.TypesInfo.Defs[n]] = gd
					}
				}
			}
		}
	}
	for _, f := range pk.Syntax {
		for _, d := range f.Decls {
			fd, ok := d.(*ast.FuncDecl)
			if !ok || fd.Body == nil || !strings.HasPrefix(strings.ToLower(fd.Name.Name), "decode") {
				continue
			}
			rt := &readerTable{Fn: fd.Name.Name, Arms: map[string]readerArm{}}
			ast.Inspect(fd.Body, func(n ast.Node) bool {
				sw, ok := n.(*ast.SwitchStmt)
				if !ok || sw.Tag == nil || !strings.Contains(types.ExprString(sw.Tag), "MaskedType") {
					return true
				}
				for _, cl := range sw.Body.List {
					cc := cl.(*ast.CaseClause)
					for _, e := range cc.List {
						o, _ := core.ObjOf(pk.TypesInfo, e).(*types.Const)
						if o == nil {
							continue
						}
						arm := readerArm{Const: o, Width: "?"}
						for _, s := range cc.Body {
							ast.Inspect(s, func(m ast.Node) bool {
								switch z := m.(type) {
								case *ast.CallExpr:
									name := types.ExprString(z.Fun)
									switch {
									case strings.HasPrefix(name, "native.Uint") && arm.Width == "?":
										arm.Width = "u" + strings.TrimPrefix(name, "native.Uint")
									case (strings.HasPrefix(name, "Decode") || strings.HasPrefix(name, "decode")) && arm.Nested == "":
										arm.Nested, arm.Width = name, "nest"
									case name == "nl.DecodeAttrString" && arm.Width == "?":
										arm.Width = "string"
									case name == "copy" && arm.Width == "?":
										arm.Width = "bytes"
									}
								case *ast.IndexExpr:
									if arm.Width == "?" {
										if _, isSlice := pk.TypesInfo.Types[z.X].Type.Underlying().(*types.Slice); isSlice {
											arm.Width = "u8"
										}
									}
								}
								return true
							})
						}
						rt.Arms[o.Name()] = arm
						if rt.Decl == nil {
							rt.Decl = declOf[o]
						}
					}
				}
				return false
			})
			if len(rt.Arms) > 0 {
				out[fd.Name.Name] = rt
			}
		}
	}
	return out
}

// constDecl returns the const block declaring obj (group identity of an attribute constant).
func constDecl(p *core.Program, obj *types.Const) *ast.GenDecl {
	if obj == nil || obj.Pkg() == nil {
		return nil
	}
	pk := p.All[obj.Pkg().Path()]
	if pk == nil {
		return nil
	}
	for _, f := range pk.Syntax {
		if f.Pos() > obj.Pos() || obj.Pos() > f.End() {
			continue
		}
		for _, d := range f.Decls {
			if gd, ok := d.(*ast.GenDecl); ok && gd.Tok == token.CONST && gd.Pos() <= obj.Pos() && obj.Pos() <= gd.End() {
				return gd
			}
		}
	}
	return nil
}

func sortRows(rows []attrRow) {
	sort.SliceStable(rows, func(i, j int) bool { return rows[i].pos < rows[j].pos })
}

// builderFns: the functions of package forwarder that construct netlink attributes.
func builderFns(p *core.Program) []*ssa.Function {
	var out []*ssa.Function
	for _, fn := range p.OwnFuncs() {
		if core.FnPkg(fn).Path() != pkgFwd || fn.Parent() != nil || fn.Syntax() == nil {
			continue
		}
		if _, ok := fn.Syntax().(*ast.FuncDecl); !ok {
			continue
		}
		has := false
		x := newExtractor(p, fn)
		var look func(node ast.Node, info *types.Info, depth int)
		look = func(node ast.Node, info *types.Info, depth int) {
			ast.Inspect(node, func(n ast.Node) bool {
				switch y := n.(type) {
				case *ast.CompositeLit:
					if tv, ok := info.Types[y]; ok && x.isNLType(tv.Type, "Attr") {
						has = true
					}
					// elements of an nl.AttrList literal are untyped-literal Attrs
					if tv, ok := info.Types[y]; ok && x.isNLType(tv.Type, "AttrList") && len(y.Elts) > 0 {
						has = true
					}
				case *ast.CallExpr:
					// the attributes may be built by a helper that was expanded into this function
					if hf := core.CalleeOfExpr(info, y); hf != nil && hf.Pkg() != nil && core.NewFunctions[hf.FullName()] && depth < 4 {
						if hd := p.Decl(hf); hd != nil && hd.Body != nil {
							look(hd.Body, p.InfoOf(hf.Pkg()), depth+1)
						}
					}
				}
				return !has
			})
		}
		look(fn.Syntax(), x.info, 0)
		if has {
			out = append(out, fn)
		}
	}
	return out
}

// ExtractAll returns the written attribute rows of all builders (used by the table dump tool).
func ExtractAll(p *core.Program) ([]attrRow, []string) {
	var all []attrRow
	var probs []string
	for _, fn := range builderFns(p) {
		x := newExtractor(p, fn)
		rows, pr := x.extract()
		sortRows(rows)
		all = append(all, rows...)
		probs = append(probs, pr...)
	}
	return all, probs
}

// DumpTables prints writer rows and reader tables (developer aid for freezing the reference table).
func DumpTables(p *core.Program) {
	rows, probs := ExtractAll(p)
	if os.Getenv("DUMP_JSON") != "" {
		b, _ := json.MarshalIndent(rows, "", " ")
		os.WriteFile(os.Getenv("DUMP_JSON"), b, 0o644)
	}
	for _, r := range rows {
		fmt.Printf("%-24s %-44s parent=%-44s list=%-6s case=%-32s guards=%-24s %-6s %s %s\n", r.Fn, r.Const, r.Parent, r.List, r.Cases, r.Guards, r.Kind, r.Src, r.Dropped)
	}
	for _, pr := range probs {
		fmt.Println("PROBLEM", pr)
	}
	rt := readerTables(p)
	var names []string
	for n := range rt {
		names = append(names, n)
	}
	sort.Strings(names)
	for _, n := range names {
		var arms []string
		for k, a := range rt[n].Arms {
			arms = append(arms, k+":"+a.Width+":"+a.Nested)
		}
		sort.Strings(arms)
		fmt.Println("READER", n, arms)
	}
}

// callAt returns the SSA call instruction of a call expression of x.fn (matched by the position of its
// opening parenthesis).
func (x *extractor) callAt(call *ast.CallExpr) *ssa.Call {
	var out *ssa.Call
	core.Instrs(x.fn, func(in ssa.Instruction) {
		if cl, ok := in.(*ssa.Call); ok && cl.Pos() == call.Lparen {
			out = cl
		}
	})
	return out
}

// structCopySource: v is a load of a local (or a phi of loads of one and the same local): the local copied from.
func structCopySource(v ssa.Value, depth int) *ssa.Alloc {
	if depth > 4 {
		return nil
	}
	switch x := v.(type) {
	case *ssa.UnOp:
		if x.Op == token.MUL {
			if a, ok := x.X.(*ssa.Alloc); ok {
				return a
			}
		}
	case *ssa.Phi:
		var src *ssa.Alloc
		for _, e := range x.Edges {
			a := structCopySource(e, depth+1)
			if a == nil || (src != nil && a != src) {
				return nil
			}
			src = a
		}
		return src
	}
	return nil
}

// soleWholeStore: the local is written by exactly one whole-value store in its function and never through a field
// address (its address may be taken and kept: what is read later through that pointer is still this value).
func soleWholeStore(a *ssa.Alloc) (ssa.Value, bool) {
	var val ssa.Value
	n := 0
	for _, r := range *a.Referrers() {
		switch y := r.(type) {
		case *ssa.Store:
			if y.Addr == ssa.Value(a) {
				n++
				val = y.Val
			}
		case *ssa.FieldAddr:
			for _, u := range *y.Referrers() {
				if st, ok := u.(*ssa.Store); ok && st.Addr == ssa.Value(y) {
					return nil, false
				}
				if cl, ok := u.(ssa.CallInstruction); ok {
					_ = cl
					return nil, false
				}
			}
		}
	}
	return val, n == 1
}
