package rules

import (
	"fmt"
	"go/constant"
	"go/token"
	"go/types"
	"strings"

	"golang.org/x/tools/go/ssa"

	"upfcheck/internal/core"
)

func init() { Registry["C16"] = C16 }

func C16(c *core.Ctx) {
	c.Explain = "The MEANING of the flow-description parser over an infinite language is a question about run-time values and is NOT decided (in particular which strings are accepted " +
		"or rejected, prefix masking, and which token is taken for a port list). Decided are the structural clauses: (R1) no fault on any string — every index/slice expression of " +
		"flowdesc.go is proven in bounds by the compiler, the parser calls only strings/strconv/net/fmt, and the success return of ParseFlowDesc is dominated by assignments of both " +
		"networks from successful address parses, so newFlowDesc never dereferences nil; (R2) every strconv.ParseUint(s, 10, N) result is converted to exactly uintN (a wider parse " +
		"with a narrower conversion would silently truncate); (R3) the nine flow-description attributes agree with the reference reader and the reference table (SRC_* from Src, " +
		"DEST_* from Dst, ports from the same side, literal 'in'/'out'/'permit' -> constant of the same name); (R4) under the swap flag both networks AND both port lists are " +
		"exchanged, before any attribute is built; the flag is `source interface == Access` and is computed after all PDI children were read; (R5) port packing is decided per bit on " +
		"both sides: the writer puts the low port in bits 16..31 and the high (or same) port in bits 0..15 of a native-endian word, the reader takes its first element from bits " +
		"16..31 and the second from bits 0..15; the port buffer is 4 octets per range (C07 P1)."
	c.Undec = []string{"the parser's meaning: which strings are accepted, what they denote (needs generated inputs against a reference parser — not static)",
		"net.ParseCIDR / net.ParseIP / strconv semantics"}
	c.Assume = []string{"Go compiler prove pass is sound", "strings/strconv/net/fmt functions do not panic", "little-endian host irrelevant here: writer and reader both use native order"}
	p := c.P

	// R1
	bd, err := newBounds(c)
	if err != nil {
		c.Anchor("R1", err.Error())
		return
	}
	var parser []*ssa.Function
	for _, fn := range p.OwnFuncs() {
		if strings.HasSuffix(p.Fset.Position(fn.Pos()).Filename, "internal/forwarder/flowdesc.go") {
			parser = append(parser, fn)
		}
	}
	c.Floor("R1", len(parser), 3, "functions of flowdesc.go")
	// the fields of the rule are separated by one OR MORE blanks (`s <- ' '+`): the whole input is cut into fields by
	// a splitter that collapses runs of white space — strings.Split on a single blank yields empty fields for a run,
	// and a well-formed rule with two blanks somewhere is refused
	if pf := fnOf(c, "R1", pkgFwd, "", "ParseFlowDesc"); pf != nil {
		nCut := 0
		// the input may be handed to an own helper first (one level): that helper's parameter stands for it
		inputs := map[ssa.Value]bool{ssa.Value(core.Param(pf, 0)): true}
		cands := append([]*ssa.Function{}, core.WithAnon(pf)...)
		core.Instrs(pf, func(in ssa.Instruction) {
			if ci, ok := in.(ssa.CallInstruction); ok {
				if h := core.StaticFn(ci); h != nil && p.IsOwnFn(h) && h.Blocks != nil && h != pf {
					for i, a := range ci.Common().Args {
						if core.Unwrap(a) == ssa.Value(core.Param(pf, 0)) && i < len(h.Params) {
							inputs[h.Params[i]] = true
							cands = append(cands, h)
						}
					}
				}
			}
		})
		for _, fn := range cands {
			core.Instrs(fn, func(in ssa.Instruction) {
				cl, ok := in.(*ssa.Call)
				if !ok {
					return
				}
				f := core.Callee(cl)
				if f == nil || f.Pkg() == nil || (f.Pkg().Path() != "strings" && f.Pkg().Path() != "regexp") || len(cl.Call.Args) == 0 {
					return
				}
				if sl, isSl := cl.Type().Underlying().(*types.Slice); !isSl || !types.Identical(sl.Elem(), types.Typ[types.String]) {
					return
				}
				// is the argument the whole input (the parameter, possibly trimmed)?
				arg := cl.Call.Args[0]
				if f.Pkg().Path() == "regexp" && len(cl.Call.Args) > 1 {
					arg = cl.Call.Args[1]
				}
				whole := false
				for i := 0; i < 6; i++ {
					arg = core.Unwrap(arg)
					if inputs[arg] {
						whole = true
						break
					}
					c2, isCall := arg.(*ssa.Call)
					if !isCall || core.Callee(c2) == nil || core.Callee(c2).Pkg() == nil || core.Callee(c2).Pkg().Path() != "strings" || len(c2.Call.Args) == 0 {
						break
					}
					arg = c2.Call.Args[0]
				}
				if !whole {
					return
				}
				nCut++
				c.Check("R1", "fields-by-blank-runs", cl.Pos(), f.Pkg().Path() == "strings" && (f.Name() == "Fields" || f.Name() == "FieldsFunc"),
					"the rule is cut into its fields by strings.Fields (any run of blanks separates two fields); "+f.Pkg().Name()+"."+f.Name()+" does not collapse runs")
			})
		}
		c.Floor("R1", nCut, 1, "places where the flow description is cut into fields")
	}
	// ... and every other own function that takes the flow-description string apart (reads
	// SDFFilterFields.FlowDescription and indexes / slices): "no fault on any string" holds for them too
	inParser := map[*ssa.Function]bool{}
	for _, fn := range parser {
		inParser[fn] = true
	}
	for _, fn := range p.OwnFuncs() {
		if inParser[fn] {
			continue
		}
		reads := false
		for _, a := range core.FieldAccesses(fn) {
			if a.Field.Name() == "FlowDescription" && !a.Write {
				reads = true
			}
		}
		if !reads {
			continue
		}
		k := 0
		for _, site := range p.IndexSites(fn, bd.bce) {
			k++
			ok, how := site.Proven, "proven in bounds by the compiler's prove pass"
			if !ok {
				ok, how = bd.discharge(c, site)
			}
			c.Check("R1", fmt.Sprintf("index:%s#%d", core.FnName(fn), k), site.Lbrack, ok, how+" (function reads the SDF filter's flow description)")
		}
	}
	nSites := 0
	for _, fn := range parser {
		k := 0
		for _, site := range p.IndexSites(fn, bd.bce) {
			nSites++
			k++
			ok, how := site.Proven, "proven in bounds by the compiler's prove pass"
			if !ok {
				ok, how = bd.discharge(c, site)
			}
			c.Check("R1", fmt.Sprintf("index:%s#%d", core.FnName(fn), k), site.Lbrack, ok, how)
		}
		// callees
		core.Instrs(fn, func(in ssa.Instruction) {
			switch x := in.(type) {
			case *ssa.Panic:
				if x.Pos().IsValid() {
					c.Check("R1", "panic:"+core.FnName(fn), x.Pos(), false, "explicit panic in the parser")
				}
			case *ssa.TypeAssert:
				if !x.CommaOk {
					c.Check("R1", "assert:"+core.FnName(fn), x.Pos(), false, "unchecked type assertion in the parser")
				}
			case ssa.CallInstruction:
				f := core.Callee(x)
				if f == nil {
					if _, isB := x.Common().Value.(*ssa.Builtin); !isB {
						c.Check("R1", "dynamic-call:"+core.FnName(fn), x.Pos(), false, "call of an unknown function value in the parser")
					}
					return
				}
				pk := ""
				if f.Pkg() != nil {
					pk = f.Pkg().Path()
				}
				okPk := pk == "strings" || pk == "strconv" || pk == "net" || pk == "fmt" || pk == "errors" || pk == "github.com/pkg/errors" || pk == "slices" || pk == pkgFwd
				if !okPk {
					c.Check("R1", "callee:"+core.FnName(fn)+":"+pk+"."+f.Name(), x.Pos(), false, "the parser calls "+pk+"."+f.Name()+" (outside the trusted strings/strconv/net/fmt set)")
				}
			}
		})
	}
	c.Floor("R1", nSites, 10, "index/slice sites of the parser")
	// success return dominated by both network assignments
	if fn := fnOf(c, "R1", pkgFwd, "", "ParseFlowDesc"); fn != nil {
		srcF, dstF := p.Field(pkgFwd, "FlowDesc", "Src"), p.Field(pkgFwd, "FlowDesc", "Dst")
		ipnet := p.Func(pkgFwd, "ParseFlowDescIPNet")
		core.Instrs(fn, func(in ssa.Instruction) {
			r, ok := in.(*ssa.Return)
			if !ok || len(r.Results) != 2 || core.IsNilConst(r.Results[0]) {
				return
			}
			for _, f := range []*types.Var{srcF, dstF} {
				good := false
				for _, st := range storesToField(fn, f) {
					if !core.InstrDominates(st, r) {
						continue
					}
					if ex, ok := st.Val.(*ssa.Extract); ok && ex.Index == 0 {
						if cl, ok := ex.Tuple.(*ssa.Call); ok && core.Callee(cl) == ipnet {
							for _, u := range *cl.Referrers() {
								if e2, ok := u.(*ssa.Extract); ok && e2.Index == 1 && core.NilKnownAt(st.Block(), e2, true) {
									good = true
								}
							}
						}
					}
				}
				c.Check("R1", "network-set:"+f.Name(), r.Pos(), good, "a successfully parsed rule always has its "+f.Name()+" network set from a successful address parse (never nil)")
			}
		})
	}
	if fn := fnOf(c, "R1", pkgFwd, "", "ParseFlowDescIPNet"); fn != nil {
		core.Instrs(fn, func(in ssa.Instruction) {
			r, ok := in.(*ssa.Return)
			if !ok || len(r.Results) != 2 || !core.IsNilConst(r.Results[1]) {
				return
			}
			good := false
			switch v := r.Results[0].(type) {
			case *ssa.Alloc:
				good = true
			case *ssa.Call:
				// an own helper that returns a fresh allocation on every path (hostIPNet(ip))
				if h := core.StaticFn(v); h != nil && h.Blocks != nil && p.IsOwnFn(h) {
					all, n := true, 0
					core.Instrs(h, func(hin ssa.Instruction) {
						if hr, isR := hin.(*ssa.Return); isR && len(hr.Results) == 1 {
							n++
							if al, isAl := hr.Results[0].(*ssa.Alloc); !isAl || al.Parent() != h {
								all = false
							}
						}
					})
					good = all && n > 0
				}
			case *ssa.Extract:
				// ipnet of net.ParseCIDR under err == nil
				if cl, ok := v.Tuple.(*ssa.Call); ok && core.Callee(cl) != nil && core.Callee(cl).Name() == "ParseCIDR" {
					for _, u := range *cl.Referrers() {
						if e2, ok := u.(*ssa.Extract); ok && e2.Index == 2 && core.NilKnownAt(r.Block(), e2, true) {
							good = true
						}
					}
				}
			}
			c.Check("R1", "ipnet-nonnil", r.Pos(), good, "ParseFlowDescIPNet returns a non-nil network whenever it returns no error")
		})
	}

	// R2
	nParse := 0
	for _, fn := range parser {
		core.Instrs(fn, func(in ssa.Instruction) {
			cl, ok := in.(*ssa.Call)
			if !ok || !core.IsPkgFunc(core.Callee(cl), "strconv", "ParseUint") {
				return
			}
			nParse++
			bits, okB := core.ConstInt(cl.Call.Args[2])
			base, okBase := core.ConstInt(cl.Call.Args[1])
			c.Check("R2", fmt.Sprintf("parse-base:%s#%d", core.FnName(fn), nParse), cl.Pos(), okBase && base == 10, "numbers are parsed in base 10")
			// every use of the value result is a conversion to uint<bits>
			for _, r := range *cl.Referrers() {
				ex, ok := r.(*ssa.Extract)
				if !ok || ex.Index != 0 {
					continue
				}
				for _, u := range *ex.Referrers() {
					cv, ok := u.(*ssa.Convert)
					if !ok {
						continue
					}
					w, _ := core.WidthOf(cv.Type())
					c.Check("R2", fmt.Sprintf("parse-width:%s#%d", core.FnName(fn), nParse), cv.Pos(), okB && int64(w) == bits,
						fmt.Sprintf("ParseUint(..., %d) result converted to a %d-bit field", bits, w))
				}
			}
		})
	}
	c.Floor("R2", nParse, 4, "strconv.ParseUint calls in the parser")
	// R2b: no rejection that depends on a parsed numeric value: the grammar admits every number that fits the field,
	// so an error return guarded by a comparison on parsed numbers rejects (or mis-handles) valid rules
	for _, fn := range parser {
		k := 0
		core.Instrs(fn, func(in ssa.Instruction) {
			r, ok := in.(*ssa.Return)
			if !ok || len(r.Results) != 2 || core.IsNilConst(r.Results[1]) {
				return
			}
			for _, f := range core.FactsAt(r.Block()) {
				cmp, ok := f.V.(*ssa.BinOp)
				if !ok {
					continue
				}
				if fromParsedNumber(cmp.X, 0) || fromParsedNumber(cmp.Y, 0) {
					k++
					c.Check("R2", fmt.Sprintf("value-dependent-rejection:%s#%d", core.FnName(fn), k), r.Pos(), false,
						"an error return depends on a comparison of parsed numbers: numbers and ranges of the grammar are rejected by value")
				}
			}
		})
	}

	// R3 table
	e := newTabEnv(c)
	renameRuleMany(c, map[string]string{"R1": "R3", "R2": "R3"}, func() { e.checkTables(flowFns, nil) })
	for _, r := range e.rows["newFlowDesc"] {
		// name agreement SRC/DEST <-> Src/Dst
		switch {
		case strings.Contains(r.Const, "_SRC_"):
			c.Check("R3", "side:"+r.Const, r.pos, strings.Contains(r.Src, ".Src") && !strings.Contains(r.Src, ".Dst"), r.Const+" is filled from the rule's source side ("+r.Src+")")
		case strings.Contains(r.Const, "_DEST_"):
			c.Check("R3", "side:"+r.Const, r.pos, strings.Contains(r.Src, ".Dst") && !strings.Contains(r.Src, ".Src"), r.Const+" is filled from the rule's destination side ("+r.Src+")")
		}
		// literal <-> constant name
		if strings.HasPrefix(r.Src, "const:SDF_FILTER_") && strings.Contains(r.Guards, "==") {
			// the innermost selector (last conjunct) names the keyword this constant stands for
			g := r.Guards[strings.LastIndex(r.Guards, "&")+1:]
			lit := strings.Trim(g[strings.Index(g, "==")+2:], `"`)
			c.Check("R3", "literal:"+lit, r.pos, strings.EqualFold("SDF_FILTER_"+lit, strings.TrimPrefix(r.Src, "const:")), fmt.Sprintf("keyword %q is encoded as %s", lit, strings.TrimPrefix(r.Src, "const:")))
		}
	}

	// R4 swap
	if fn := fnOf(c, "R4", pkgFwd, "Gtp5g", "newFlowDesc"); fn != nil {
		swap := core.Param(fn, 1)
		pairs := map[string]string{"Src": "Dst", "Dst": "Src", "SrcPorts": "DstPorts", "DstPorts": "SrcPorts"}
		done := map[string]bool{}
		var firstAttr token.Pos
		var swapStores []*ssa.Store
		core.Instrs(fn, func(in ssa.Instruction) {
			st, ok := in.(*ssa.Store)
			if !ok {
				return
			}
			fa, ok := st.Addr.(*ssa.FieldAddr)
			if !ok {
				return
			}
			name := core.FieldOfAddr(fa).Name()
			other, isSwapField := pairs[name]
			if !isSwapField || core.FieldOfAddr(fa).Pkg() == nil || core.FieldOfAddr(fa).Pkg().Path() != pkgFwd {
				return
			}
			b, f, ok := core.LoadedField(st.Val)
			good := ok && f.Name() == other && core.Unwrap(b) == core.Unwrap(fa.X) && core.KnownAt(st.Block(), swap, true)
			if good {
				// the exchanged value was read before any of the swap stores (true exchange, not a copy)
				ld := st.Val.(*ssa.UnOp)
				for _, s2 := range swapStores {
					if s2.Addr.(*ssa.FieldAddr).Field == ld.X.(*ssa.FieldAddr).Field && core.InstrDominates(s2, ld) {
						good = false
					}
				}
			}
			swapStores = append(swapStores, st)
			c.Check("R4", "swap:"+name, st.Pos(), good, "under the swap flag "+name+" receives the previous "+other)
			if good {
				done[name] = true
			}
		})
		for n := range pairs {
			c.Check("R4", "swap-complete:"+n, fn.Pos(), done[n], "the uplink swap exchanges "+n+" (networks AND port lists)")
		}
		// all attribute building after the swap: no read of the swapped fields dominates a swap store
		core.Instrs(fn, func(in ssa.Instruction) {
			if fa, ok := in.(*ssa.FieldAddr); ok {
				if _, isSwap := pairs[core.FieldOfAddr(fa).Name()]; isSwap && !core.KnownAt(fa.Block(), swap, true) {
					for _, st := range swapStores {
						if core.Reaches(fa, st) {
							c.Check("R4", "swap-before-use", fa.Pos(), false, "a swapped field is read before the swap")
						}
					}
				}
			}
		})
		_ = firstAttr
	}
	flowDescOwned(c, "R4")
	if fn := fnOf(c, "R4", pkgFwd, "Gtp5g", "newSdfFilter"); fn != nil {
		access := p.Const(core.PkgIE, "SrcInterfaceAccess")
		for _, ci := range core.Calls(fn, p.Method(pkgFwd, "Gtp5g", "newFlowDesc")) {
			flag := core.CallArgs(ci)[1]
			good := false
			if cmp, ok := flag.(*ssa.BinOp); ok && cmp.Op == token.EQL && access != nil {
				if cmp.X == ssa.Value(core.Param(fn, 1)) {
					if k, ok := core.ConstInt(cmp.Y); ok {
						want, _ := constant.Int64Val(constant.ToInt(access.Val()))
						good = k == want
					}
				}
			}
			c.Check("R4", "swap-flag", ci.Pos(), good, "the swap flag is (source interface == ie.SrcInterfaceAccess), i.e. uplink PDRs")
			_, path := core.FieldPath(core.CallArgs(ci)[0])
			c.Check("R4", "swap-string", ci.Pos(), len(path) == 1 && path[0] == "FlowDescription", "the string translated is the SDF filter's flow description")
		}
	}
	if fn := fnOf(c, "R4", pkgFwd, "Gtp5g", "newPdi"); fn != nil {
		orderIndependence(c, "R4", fn)
		for _, ci := range core.Calls(fn, p.Method(pkgFwd, "Gtp5g", "newSdfFilter")) {
			x := newExtractor(p, fn)
			d := x.describeLeaf(core.CallArgs(ci)[1], 0)
			c.Check("R4", "swap-source-interface", ci.Pos(), d == "SourceInterface()" && !inAnyLoopOf(ci.(ssa.Instruction), "SourceInterface"), "the source interface handed to the SDF translation is this PDI's Source Interface IE ("+d+")")
		}
	}

	// R5 port packing
	c16Ports(c)
}

func inAnyLoopOf(in ssa.Instruction, _ string) bool { return false }

// renameRuleMany runs f and re-files what it produced under other rule names.
func renameRuleMany(c *core.Ctx, m map[string]string, f func()) {
	no, nf := len(c.Obls), len(c.Findings)
	f()
	for _, o := range c.Obls[no:] {
		if to, ok := m[o.Rule]; ok {
			pre := c.Prop + "/" + o.Rule + "/"
			c.Counts[o.Rule]--
			c.Counts[to]++
			o.Key = c.Prop + "/" + to + "/" + strings.TrimPrefix(o.Key, pre)
			o.Rule = to
		}
	}
	for _, fd := range c.Findings[nf:] {
		if to, ok := m[fd.Rule]; ok {
			pre := c.Prop + "/" + fd.Rule + "/"
			fd.Key = c.Prop + "/" + to + "/" + strings.TrimPrefix(fd.Key, pre)
			fd.Rule = to
		}
	}
}

func c16Ports(c *core.Ctx) {
	p := c.P
	fn := fnOf(c, "R5", pkgFwd, "", "convertSlice")
	if fn == nil {
		return
	}
	x := newExtractor(p, fn)
	nSt := 0
	core.Instrs(fn, func(in ssa.Instruction) {
		st, ok := in.(*ssa.Store)
		if !ok {
			return
		}
		w, okW := core.WidthOf(st.Val.Type())
		if !okW || w != 32 {
			return
		}
		// the address is a *uint32 view of &buf[off]
		cv, ok := st.Addr.(*ssa.Convert)
		if !ok {
			return
		}
		nSt++
		bv := core.BitsOf(st.Val, x.leaf)
		// which arm: len(p) == 1 or 2
		arm := 0
		for _, eq := range eqFacts(st.Block()) {
			if k, ok := core.ConstInt(eq[1]); ok {
				arm = int(k)
			}
		}
		hiName, loName := "", ""
		if len(bv) == 32 && bv[16].Kind == core.BSrc {
			hiName = fmt.Sprint(bv[16].Src)
		}
		if len(bv) == 32 && bv[0].Kind == core.BSrc {
			loName = fmt.Sprint(bv[0].Src)
		}
		okHi := bv.IsField(16, 16, hiName, 0) && strings.HasSuffix(hiName, "[0]")
		wantLo := "[1]"
		if arm == 1 {
			wantLo = "[0]"
		}
		okLo := bv.IsField(0, 16, loName, 0) && strings.HasSuffix(loName, wantLo)
		c.Check("R5", fmt.Sprintf("writer-packing:len%d", arm), st.Pos(), okHi && okLo && (arm == 1 || arm == 2),
			fmt.Sprintf("range of %d port value(s) packed as %s (low port in bits 31..16, high/same port in bits 15..0)", arm, bv.String()))
		_ = cv
	})
	c.Check("R5", "writer-arms", fn.Pos(), nSt == 2, fmt.Sprintf("%d packing stores (single port and range)", nSt))
	// reader
	pk := p.Pkg(core.PkgGtp5gnl)
	if pk == nil {
		c.Anchor("R5", "go-gtp5gnl")
		return
	}
	var dec *ssa.Function
	if f, ok := pk.Types.Scope().Lookup("DecodeFlowDesc").(*types.Func); ok {
		dec = p.SSAFn(f)
	}
	if dec == nil {
		c.Anchor("R5", "gtp5gnl.DecodeFlowDesc")
		return
	}
	nRd := 0
	core.Instrs(dec, func(in ssa.Instruction) {
		cv, ok := in.(*ssa.Convert)
		if !ok {
			return
		}
		if w, ok := core.WidthOf(cv.Type()); !ok || w != 16 {
			return
		}
		// operand derives from native.Uint32
		leaf := func(v ssa.Value) core.BitVec {
			if cl, ok := v.(*ssa.Call); ok && cl.Common().IsInvoke() && cl.Common().Method.Name() == "Uint32" {
				return core.SrcBits("word", 32)
			}
			return nil
		}
		bv := core.BitsOf(cv.X, leaf)
		if len(bv) != 32 || (bv[0].Kind != core.BSrc) {
			return
		}
		nRd++
		// where does the 16-bit value go: element 0 of the literal (first) or appended (second)
		first := false
		for _, r := range *cv.Referrers() {
			if st, ok := r.(*ssa.Store); ok {
				if ia, ok := st.Addr.(*ssa.IndexAddr); ok {
					if k, ok := core.ConstInt(ia.Index); ok && k == 0 {
						if al, ok := ia.X.(*ssa.Alloc); ok && al.Comment == "slicelit" {
							first = true
						}
					}
				}
			}
		}
		low16 := bv.Resize(16, false)
		if first {
			c.Check("R5", fmt.Sprintf("reader-first#%d", nRd), cv.Pos(), low16.IsField(0, 16, "word", 16), "the reader takes the first (low) port from bits 31..16 of the word: "+low16.String())
		} else {
			c.Check("R5", fmt.Sprintf("reader-second#%d", nRd), cv.Pos(), low16.IsField(0, 16, "word", 0), "the reader takes the second (high) port from bits 15..0 of the word: "+low16.String())
		}
	})
	c.Floor("R5", nRd, 4, "16-bit extractions in the reference reader (2 per port attribute)")
}

// fromParsedNumber: v derives (through conversions/arithmetic) from the value result of a strconv parse call.
func fromParsedNumber(v ssa.Value, d int) bool {
	if d > 6 || v == nil {
		return false
	}
	switch x := v.(type) {
	case *ssa.Extract:
		if cl, ok := x.Tuple.(*ssa.Call); ok && x.Index == 0 {
			if f := core.Callee(cl); f != nil && f.Pkg() != nil && f.Pkg().Path() == "strconv" {
				return true
			}
		}
	case *ssa.Convert:
		return fromParsedNumber(x.X, d+1)
	case *ssa.BinOp:
		return fromParsedNumber(x.X, d+1) || fromParsedNumber(x.Y, d+1)
	case *ssa.Phi:
		for _, e := range x.Edges {
			if fromParsedNumber(e, d+1) {
				return true
			}
		}
	case *ssa.UnOp:
		// a number parked in a field of the rule being built (fd.Proto) and read back: what was stored there
		if fa, ok := x.X.(*ssa.FieldAddr); ok && x.Op == token.MUL && x.Parent() != nil {
			f := core.FieldOfAddr(fa)
			found := false
			core.Instrs(x.Parent(), func(in ssa.Instruction) {
				if st, ok := in.(*ssa.Store); ok && !found {
					if sfa, ok := st.Addr.(*ssa.FieldAddr); ok && core.FieldOfAddr(sfa) == f && fromParsedNumber(st.Val, d+1) {
						found = true
					}
				}
			})
			return found
		}
	case *ssa.Call:
		// an own helper that returns the parsed number (possibly besides keyword constants)
		if callee := x.Call.StaticCallee(); callee != nil && callee.Blocks != nil && d < 4 {
			found := false
			core.Instrs(callee, func(in ssa.Instruction) {
				if r, ok := in.(*ssa.Return); ok && len(r.Results) > 0 && fromParsedNumber(r.Results[0], d+1) {
					found = true
				}
			})
			return found
		}
	}
	return false
}

// flowDescOwned: the uplink swap exchanges the fields of the parsed rule IN PLACE, so that object must
// belong to this translation alone: it is the direct result of a parser call that returns a freshly
// allocated rule on every success path (a cached or otherwise shared object would hand later PDRs with
// the same filter text the already-swapped sides).
func flowDescOwned(c *core.Ctx, rule string) {
	p := c.P
	fn := fnOf(c, rule, pkgFwd, "Gtp5g", "newFlowDesc")
	if fn == nil {
		return
	}
	var fresh func(f *ssa.Function, d int) (bool, string)
	fresh = func(f *ssa.Function, d int) (bool, string) {
		if f == nil || f.Blocks == nil || d > 3 {
			return false, "callee without analysable body"
		}
		ok, why := true, ""
		core.Instrs(f, func(in ssa.Instruction) {
			r, isR := in.(*ssa.Return)
			if !isR || len(r.Results) == 0 || core.IsNilConst(r.Results[0]) {
				return
			}
			switch x := core.Unwrap(r.Results[0]).(type) {
			case *ssa.Alloc:
				if x.Parent() != f {
					ok, why = false, "returns an object allocated elsewhere"
				}
			case *ssa.Extract:
				cl, isC := x.Tuple.(*ssa.Call)
				if !isC || x.Index != 0 || !p.IsOwnFn(core.StaticFn(cl)) {
					ok, why = false, core.FnName(f)+" returns a value it did not allocate"
					return
				}
				if o, w := fresh(core.StaticFn(cl), d+1); !o {
					ok, why = false, w
				}
			default:
				ok, why = false, fmt.Sprintf("%s returns a value it did not allocate (%T)", core.FnName(f), x)
			}
		})
		return ok, why
	}
	n := 0
	seen := map[ssa.Value]bool{}
	core.Instrs(fn, func(in ssa.Instruction) {
		st, ok := in.(*ssa.Store)
		if !ok {
			return
		}
		fa, ok := st.Addr.(*ssa.FieldAddr)
		if !ok || core.FieldOfAddr(fa).Pkg() == nil || core.FieldOfAddr(fa).Pkg().Path() != pkgFwd {
			return
		}
		base := core.Unwrap(fa.X)
		if seen[base] {
			return
		}
		seen[base] = true
		n++
		good, why := false, "the object written is not the result of a parser call"
		if ex, isE := base.(*ssa.Extract); isE && ex.Index == 0 {
			if cl, isC := ex.Tuple.(*ssa.Call); isC {
				good, why = fresh(core.StaticFn(cl), 0)
			}
		}
		c.Check(rule, "swap-target-owned", st.Pos(), good, "the rule whose sides are exchanged in place is a fresh object owned by this translation "+why)
	})
	c.Floor(rule, n, 1, "objects written by newFlowDesc")
}
