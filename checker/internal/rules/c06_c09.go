package rules

import (
	"fmt"
	"go/constant"
	"go/token"
	"go/types"
	"regexp"
	"strings"

	"golang.org/x/tools/go/ssa"

	"upfcheck/internal/core"
)

func init() {
	Registry["C06"] = C06
	Registry["C09"] = C09
}

// txAnchors resolves the functions and fields both properties talk about.
type txAnchors struct {
	mainFn, sendReqTo, sendRspTo, reqDisp              *ssa.Function
	txSend, txRecv, txTimeout, txStart, rxSend, rxRecv *ssa.Function
	rxTimeout, rxStart, newTx, newRx, stopTimers       *ssa.Function
	rxTrans, txTrans, txSeq, conn                      *types.Var
	writeTo                                            *types.Func
	ok                                                 bool
}

func getTxAnchors(c *core.Ctx, rule string) *txAnchors {
	a := &txAnchors{ok: true}
	get := func(typ, name string) *ssa.Function {
		fn := fnOf(c, rule, pkgPfcp, typ, name)
		if fn == nil {
			a.ok = false
		}
		return fn
	}
	a.mainFn, a.sendReqTo, a.sendRspTo, a.reqDisp = get("PfcpServer", "main"), get("PfcpServer", "sendReqTo"), get("PfcpServer", "sendRspTo"), get("PfcpServer", "reqDispacher")
	// the function that arms a transaction's timer: the startTimer method, or (helper inlined) the function
	// whose time.AfterFunc result is stored into that transaction type's timer field
	arming := func(typ string) *ssa.Function {
		if m := c.P.Method(pkgPfcp, typ, "startTimer"); m != nil {
			if fn := c.P.SSAFn(m); fn != nil {
				return fn
			}
		}
		timerF := c.P.Field(pkgPfcp, typ, "timer")
		var found *ssa.Function
		for _, fn := range c.P.OwnFuncs() {
			for _, st := range storesToField(fn, timerF) {
				if cl, ok := st.Val.(*ssa.Call); ok && core.IsPkgFunc(core.Callee(cl), "time", "AfterFunc") {
					found = fn
				}
			}
		}
		if found == nil {
			c.Anchor(rule, pkgPfcp+"."+typ+".startTimer (or a function storing time.AfterFunc into "+typ+".timer)")
			a.ok = false
		}
		return found
	}
	a.txSend, a.txRecv, a.txTimeout, a.txStart = get("TxTransaction", "send"), get("TxTransaction", "recv"), get("TxTransaction", "handleTimeout"), arming("TxTransaction")
	a.rxSend, a.rxRecv, a.rxTimeout, a.rxStart = get("RxTransaction", "send"), get("RxTransaction", "recv"), get("RxTransaction", "handleTimeout"), arming("RxTransaction")
	a.newTx, a.newRx, a.stopTimers = get("", "NewTxTransaction"), get("", "NewRxTransaction"), get("PfcpServer", "stopTrTimers")
	p := c.P
	a.rxTrans, a.txTrans = p.Field(pkgPfcp, "PfcpServer", "rxTrans"), p.Field(pkgPfcp, "PfcpServer", "txTrans")
	a.txSeq, a.conn = p.Field(pkgPfcp, "PfcpServer", "txSeq"), p.Field(pkgPfcp, "PfcpServer", "conn")
	a.writeTo = p.Method("net", "UDPConn", "WriteTo")
	if a.rxTrans == nil || a.txTrans == nil || a.txSeq == nil || a.conn == nil || a.writeTo == nil {
		c.Anchor(rule, "PfcpServer.{rxTrans,txTrans,txSeq,conn} / net.UDPConn.WriteTo")
		a.ok = false
	}
	return a
}

// socketWrites lists the WriteTo calls on the PFCP socket (receiver loaded from PfcpServer.conn).
func socketWrites(fn *ssa.Function, a *txAnchors) []*ssa.Call {
	var out []*ssa.Call
	for _, ci := range core.Calls(fn, a.writeTo) {
		cl, ok := ci.(*ssa.Call)
		if !ok {
			continue
		}
		if _, f, ok := core.LoadedField(core.CallRecv(cl)); ok && f == a.conn {
			out = append(out, cl)
		}
	}
	return out
}

var keyFormat = regexp.MustCompile(`^%[sv][^%0-9a-zA-Z]+%d$`)

// keySites: every fmt.Sprintf in package pfcp whose result is used as a transaction-table key or
// stored in a transaction's id field.
func checkKeySites(c *core.Ctx, rule string, a *txAnchors) {
	p := c.P
	sprintf := p.Func("fmt", "Sprintf")
	idTx, idRx := p.Field(pkgPfcp, "TxTransaction", "id"), p.Field(pkgPfcp, "RxTransaction", "id")
	// a key is built by fmt.Sprintf directly, or by an own helper that returns such a Sprintf of its parameters
	var resolve func(v ssa.Value, d int) (*ssa.Call, bool)
	resolve = func(v ssa.Value, d int) (*ssa.Call, bool) {
		cl, ok := v.(*ssa.Call)
		if !ok || d > 2 {
			return nil, false
		}
		if core.Callee(cl) == sprintf {
			return cl, true
		}
		f := core.StaticFn(cl)
		if f == nil || !p.IsOwnFn(f) || f.Blocks == nil {
			return nil, false
		}
		var found *ssa.Call
		okAll := true
		core.Instrs(f, func(in ssa.Instruction) {
			if r, isR := in.(*ssa.Return); isR && len(r.Results) == 1 {
				if sc, ok := resolve(r.Results[0], d+1); ok && (found == nil || found == sc) {
					found = sc
				} else {
					okAll = false
				}
			}
		})
		return found, okAll && found != nil
	}
	formats := map[string]bool{}
	seenSite := map[*ssa.Call]bool{}
	n, nUses := 0, 0
	site := func(user ssa.Instruction, key ssa.Value) {
		// keys read back from a transaction's id field were built where that field was stored
		if _, f, ok := core.LoadedField(key); ok && (f == idTx || f == idRx) {
			return
		}
		// ... or carried by a timeout event (its TrID is the transaction's id: checkTimerCallback)
		if _, names := core.FieldPath(key); len(names) > 0 && names[len(names)-1] == "TrID" {
			return
		}
		nUses++
		sc, ok := resolve(key, 0)
		if !ok {
			c.Check(rule, fmt.Sprintf("key-site:%s#u%d", core.FnName(user.Parent()), nUses), user.Pos(), false, "a transaction-table key that is not built by the one key format (fmt.Sprintf of peer address and sequence number, possibly through a helper)")
			return
		}
		if seenSite[sc] {
			return
		}
		seenSite[sc] = true
		n++
		fc, isC := sc.Call.Args[0].(*ssa.Const)
		format := ""
		if isC && fc.Value != nil && fc.Value.Kind() == constant.String {
			format = constant.StringVal(fc.Value)
		}
		formats[format] = true
		ops := variadicValues(sc.Call.Args[1])
		okOps := len(ops) == 2
		desc := fmt.Sprintf("key format %q with %d operands", format, len(ops))
		if okOps {
			t0, t1 := ops[0].Type(), ops[1].Type()
			if mi, isMI := ops[0].(*ssa.MakeInterface); isMI {
				t0 = mi.X.Type()
			}
			if mi, isMI := ops[1].(*ssa.MakeInterface); isMI {
				t1 = mi.X.Type()
			}
			_, isIface := t0.Underlying().(*types.Interface)
			b1, isBasic := t1.Underlying().(*types.Basic)
			okOps = isIface && t0.String() == "net.Addr" && isBasic && b1.Info()&types.IsInteger != 0
			desc += fmt.Sprintf(" (%s, %s)", t0, t1)
		}
		c.Check(rule, fmt.Sprintf("key-site:%s#%d", core.FnName(sc.Parent()), n), sc.Pos(), okOps && keyFormat.MatchString(format),
			desc+": the transaction key is <peer address><separator><sequence number>, so another address or sequence gives another key")
	}
	for _, fn := range p.OwnFuncs() {
		if core.FnPkg(fn).Path() != pkgPfcp {
			continue
		}
		core.Instrs(fn, func(in ssa.Instruction) {
			switch u := in.(type) {
			case *ssa.Lookup:
				if _, f, ok := core.LoadedField(u.X); ok && (f == a.rxTrans || f == a.txTrans) {
					site(u, core.Unwrap(u.Index))
				}
			case *ssa.MapUpdate:
				if _, f, ok := core.LoadedField(u.Map); ok && (f == a.rxTrans || f == a.txTrans) {
					site(u, core.Unwrap(u.Key))
				}
			case *ssa.Store:
				if fa, ok := u.Addr.(*ssa.FieldAddr); ok && (core.FieldOfAddr(fa) == idTx || core.FieldOfAddr(fa) == idRx) {
					site(u, core.Unwrap(u.Val))
				}
			}
		})
	}
	c.Floor(rule, nUses, 4, "transaction key uses (table lookups / inserts / id stores) resolved to their construction")
	c.Check(rule, "key-format-agreement", token.NoPos, len(formats) == 1, fmt.Sprintf("all key construction sites use one format (%d distinct over %d sites)", len(formats), n))
}

// variadicValues returns the values packed into a variadic argument slice.
func variadicValues(v ssa.Value) []ssa.Value {
	sl, ok := v.(*ssa.Slice)
	if !ok {
		return nil
	}
	al, ok := sl.X.(*ssa.Alloc)
	if !ok {
		return nil
	}
	at, ok := al.Type().(*types.Pointer).Elem().Underlying().(*types.Array)
	if !ok {
		return nil
	}
	out := make([]ssa.Value, at.Len())
	for _, r := range *al.Referrers() {
		ia, ok := r.(*ssa.IndexAddr)
		if !ok {
			continue
		}
		i, ok := core.ConstInt(ia.Index)
		if !ok || i < 0 || i >= at.Len() {
			continue
		}
		for _, u := range *ia.Referrers() {
			if st, ok := u.(*ssa.Store); ok {
				out[i] = core.Unwrap(st.Val)
			}
		}
	}
	for _, x := range out {
		if x == nil {
			return nil
		}
	}
	return out
}

func C06(c *core.Ctx) {
	c.Explain = "At-most-once execution and identical re-answer are decided as path and ownership facts of the receive-transaction machinery, valid for every " +
		"arrival order: (R1) the single call of the request dispatcher is reachable only when RxTransaction.recv returned needDispatch=true; recv returns true " +
		"only when told the transaction was not found; that flag is the comma-ok of the table lookup by this packet's key, and a missing entry is inserted " +
		"before recv; handlers are called only from the dispatcher; (R2) every site that builds a transaction key uses one format <address><sep><sequence>; " +
		"(R3) the PFCP socket is written only by the four transaction methods; the cached response (RxTransaction.msgBuf) is written only in send, with a " +
		"freshly allocated buffer that is the very slice written to the socket; on a duplicate recv writes that cache unchanged to the stored address, or " +
		"nothing when it is empty; responses leave only through sendRspTo -> send; (R4) every receive transaction starts a retention timer whose callback only " +
		"posts an RX timeout for its own id, the event loop's RX arm calls handleTimeout for the table hit, which deletes the entry from the receive table; the " +
		"retention is computed from both the retransmission timeout and max-retransmissions+1."
	c.Undec = []string{"byte identity of go-pfcp's MarshalTo across calls (not needed: the bytes are cached)", "timer arithmetic at run time", "UDP delivery"}
	c.Assume = []string{"single event-loop goroutine owns the tables (C17)", "fmt.Sprintf formats a net.Addr and an integer injectively with a non-digit separator"}
	a := getTxAnchors(c, "R1")
	if !a.ok {
		return
	}
	p := c.P

	// R1
	dispObj := p.Method(pkgPfcp, "PfcpServer", "reqDispacher")
	nDisp := 0
	for _, fn := range p.OwnFuncs() {
		for _, ci := range core.Calls(fn, dispObj) {
			nDisp++
			c.Check("R1", "dispatcher-caller:"+core.FnName(fn), ci.Pos(), fn == a.mainFn, "the request dispatcher is called only from the event loop")
		}
	}
	c.Check("R1", "dispatcher-once", a.mainFn.Pos(), nDisp == 1, fmt.Sprintf("%d call sites of reqDispacher (want exactly 1)", nDisp))
	requestsServed(c, "R1", a)
	// a request keeps its own bytes and source address from the socket to the loop: a read buffer shared between
	// datagrams lets a later datagram be executed under an earlier one's key (C08 R2)
	shareFrom(c, "C08", "R1", func(o *core.Obligation) bool { return o.Rule == "R2" && strings.Contains(o.Key, "/R2/packet-owns-bytes") }, 1, "receiver hand-over sites")
	recvObj := p.Method(pkgPfcp, "RxTransaction", "recv")
	recvCalls := core.Calls(a.mainFn, recvObj)
	if len(recvCalls) != 1 {
		c.Undecided("R1", "recv-call", a.mainFn.Pos(), fmt.Sprintf("expected one call of RxTransaction.recv in the event loop, found %d", len(recvCalls)))
	} else {
		rc := recvCalls[0].(*ssa.Call)
		var need ssa.Value
		for _, r := range *rc.Referrers() {
			if ex, ok := r.(*ssa.Extract); ok && ex.Index == 0 {
				need = ex
			}
		}
		for _, ci := range core.Calls(a.mainFn, dispObj) {
			c.Check("R1", "dispatch-iff-new", ci.Pos(), need != nil && core.KnownAt(ci.Block(), need, true) && core.InstrDominates(rc, ci),
				"reqDispacher runs only on the edge where RxTransaction.recv returned needDispatch == true")
		}
		// the found flag is the comma-ok of the lookup by this packet's key
		args := core.CallArgs(rc)
		found := args[1]
		var lk *ssa.Lookup
		if ex, ok := found.(*ssa.Extract); ok && ex.Index == 1 {
			lk, _ = ex.Tuple.(*ssa.Lookup)
		}
		okLk := false
		if lk != nil {
			if _, f, ok := core.LoadedField(lk.X); ok && f == a.rxTrans && lk.CommaOk {
				okLk = true
			}
		}
		c.Check("R1", "found-flag", rc.Pos(), okLk, "the found flag handed to recv is the comma-ok of the receive-table lookup")
		if okLk {
			// receiver of recv: phi(lookup hit, new transaction inserted under the same key on the miss edge)
			recvRx := core.CallRecv(rc)
			inserted := false
			if ph, ok := recvRx.(*ssa.Phi); ok {
				for i, e := range ph.Edges {
					nc, ok := e.(*ssa.Call)
					if !ok || core.Callee(nc) != p.Func(pkgPfcp, "NewRxTransaction") {
						continue
					}
					pred := ph.Block().Preds[i]
					for _, in := range pred.Instrs {
						if mu, ok := in.(*ssa.MapUpdate); ok && mu.Key == lk.Index && mu.Value == ssa.Value(nc) {
							if _, f, ok := core.LoadedField(mu.Map); ok && f == a.rxTrans && core.KnownAt(pred, found, false) {
								inserted = true
							}
						}
					}
				}
			}
			c.Check("R1", "insert-on-miss", rc.Pos(), inserted, "on a miss a new receive transaction is stored under the same key before recv is called")
		}
	}
	// inside recv: `true` is returned only when not found
	rxFound := core.Param(a.rxRecv, 1)
	nRet := 0
	core.Instrs(a.rxRecv, func(in ssa.Instruction) {
		r, ok := in.(*ssa.Return)
		if !ok || len(r.Results) != 2 {
			return
		}
		nRet++
		k, isConst := r.Results[0].(*ssa.Const)
		if !isConst {
			c.Undecided("R1", fmt.Sprintf("recv-return#%d", nRet), r.Pos(), "needDispatch result is not a constant")
			return
		}
		if constant.BoolVal(k.Value) {
			c.Check("R1", fmt.Sprintf("recv-true-only-new#%d", nRet), r.Pos(), core.KnownAt(r.Block(), rxFound, false), "recv answers needDispatch=true only for a transaction that was not found")
		} else {
			c.Check("R1", fmt.Sprintf("recv-false-when-found#%d", nRet), r.Pos(), core.KnownAt(r.Block(), rxFound, true), "recv answers needDispatch=false only for a known transaction")
		}
	})
	c.Floor("R1", nRet, 2, "returns of RxTransaction.recv")
	// handlers only from the dispatcher
	for _, m := range core.Methods(p.Named(pkgPfcp, "PfcpServer")) {
		if len(m.Name()) > 6 && m.Name()[:6] == "handle" && m.Name()[len(m.Name())-7:] == "Request" {
			for _, fn := range p.OwnFuncs() {
				for _, ci := range core.Calls(fn, m) {
					c.Check("R1", "handler-caller:"+m.Name(), ci.Pos(), fn == a.reqDisp, m.Name()+" is called only by the request dispatcher")
				}
			}
		}
	}

	// R2
	checkKeySites(c, "R2", a)

	// R3
	allowed := map[*ssa.Function]bool{a.txSend: true, a.txTimeout: true, a.rxSend: true, a.rxRecv: true}
	nW := 0
	for _, fn := range p.OwnFuncs() {
		for _, w := range socketWrites(fn, a) {
			nW++
			c.Check("R3", "socket-writer:"+core.FnName(fn), w.Pos(), allowed[fn], "the PFCP socket is written only by the transaction methods")
		}
	}
	c.Floor("R3", nW, 4, "writes to the PFCP socket")
	msgBufRx := p.Field(pkgPfcp, "RxTransaction", "msgBuf")
	raddrRx := p.Field(pkgPfcp, "RxTransaction", "raddr")
	for _, fn := range p.OwnFuncs() {
		for _, st := range storesToField(fn, msgBufRx) {
			c.Check("R3", "cache-writer:"+core.FnName(fn), st.Pos(), fn == a.rxSend, "the cached response is written only by RxTransaction.send")
		}
		for _, st := range storesToField(fn, raddrRx) {
			c.Check("R3", "raddr-writer:"+core.FnName(fn), st.Pos(), fn == a.newRx, "the transaction's peer address is set only by its constructor")
		}
	}
	checkSendCaches(c, "R3", a.rxSend, msgBufRx, raddrRx, a)
	// the response is retained under, and sent to, the address of the request it answers (C08 R2): a response
	// sent to another address overwrites what that other peer's transaction retains
	shareFrom(c, "C08", "R3", func(o *core.Obligation) bool {
		return o.Rule == "R2" && (strings.Contains(o.Key, "/R2/destination:") || strings.Contains(o.Key, "/R2/sends-built-response:"))
	}, 5, "response send sites")
	// duplicate path in recv
	ws := socketWrites(a.rxRecv, a)
	c.Check("R3", "replay-once", a.rxRecv.Pos(), len(ws) == 1, fmt.Sprintf("%d socket writes in RxTransaction.recv (want 1: the replay)", len(ws)))
	for _, w := range ws {
		args := core.CallArgs(w)
		rx := core.Recv(a.rxRecv)
		c.Check("R3", "replay-bytes", w.Pos(), core.IsPath(args[0], rx, "msgBuf"), "a duplicate is answered with the cached bytes, unchanged")
		c.Check("R3", "replay-addr", w.Pos(), core.IsPath(args[1], rx, "raddr"), "a duplicate is answered to the transaction's peer address")
		c.Check("R3", "replay-only-found", w.Pos(), core.KnownAt(w.Block(), rxFound, true), "the replay happens only for a known transaction")
		// "every later copy is answered with a byte-identical copy of the original response (or ignored if none had
		// been produced)": recv leaves before the replay only for a new transaction or an empty cache
		bad := ""
		for _, ifi := range exitsBefore(w) {
			cond := stripNot(ifi.Cond)
			if core.Unwrap(cond) == core.Unwrap(rxFound) {
				continue
			}
			aboutFound := false
			for _, ft := range core.ExpandFact(ifi.Cond, true) {
				if core.Unwrap(ft.V) == core.Unwrap(rxFound) {
					aboutFound = true // rxTrFound == false, !rxTrFound, ...
				}
			}
			if aboutFound {
				continue
			}
			if bo, ok := cond.(*ssa.BinOp); ok {
				isLenBuf := func(v ssa.Value) bool {
					cl, ok := v.(*ssa.Call)
					if !ok {
						return false
					}
					bi, ok := cl.Call.Value.(*ssa.Builtin)
					return ok && bi.Name() == "len" && core.IsPath(cl.Call.Args[0], rx, "msgBuf")
				}
				_, cx := core.ConstInt(bo.X)
				_, cy := core.ConstInt(bo.Y)
				if (isLenBuf(bo.X) && cy) || (isLenBuf(bo.Y) && cx) {
					continue
				}
				if x, _, ok := core.NilCmp(bo); ok && core.IsPath(x, rx, "msgBuf") {
					continue
				}
			}
			bad = "a duplicate can go unanswered under a condition other than 'no response cached yet' (" + c.P.Fset.Position(ifi.Cond.Pos()).String() + ")"
		}
		c.Check("R3", "replay-always", w.Pos(), bad == "", "every duplicate of a request whose response is cached is answered again"+map[bool]string{true: "", false: " — " + bad}[bad == ""])
	}
	// who may call Rx.send / sendRspTo's lookup
	rxSendObj := p.Method(pkgPfcp, "RxTransaction", "send")
	for _, fn := range p.OwnFuncs() {
		for _, ci := range core.Calls(fn, rxSendObj) {
			c.Check("R3", "send-caller:"+core.FnName(fn), ci.Pos(), fn == a.sendRspTo, "responses are sent only through sendRspTo")
			if fn == a.sendRspTo {
				// receiver is the hit of the rxTrans lookup
				ok := false
				if ex, isEx := core.CallRecv(ci).(*ssa.Extract); isEx && ex.Index == 0 {
					if lk, isLk := ex.Tuple.(*ssa.Lookup); isLk {
						if _, f, o := core.LoadedField(lk.X); o && f == a.rxTrans {
							for _, r := range *lk.Referrers() {
								if e2, o2 := r.(*ssa.Extract); o2 && e2.Index == 1 && core.KnownAt(ci.Block(), e2, true) {
									ok = true
								}
							}
						}
					}
				}
				c.Check("R3", "send-via-transaction", ci.Pos(), ok, "sendRspTo sends through the receive transaction found under (address, sequence)")
			}
		}
	}

	// R4
	timerRx := p.Field(pkgPfcp, "RxTransaction", "timer")
	started := false
	for _, st := range storesToField(a.newRx, timerRx) {
		if cl, ok := st.Val.(*ssa.Call); ok && (core.StaticFn(cl) == a.rxStart || (a.rxStart == a.newRx && core.IsPkgFunc(core.Callee(cl), "time", "AfterFunc"))) {
			dom := true
			core.Instrs(a.newRx, func(in ssa.Instruction) {
				if r, ok := in.(*ssa.Return); ok && !core.InstrDominates(st, r) {
					dom = false
				}
			})
			started = dom
		}
	}
	c.Check("R4", "timer-started", a.newRx.Pos(), started, "every new receive transaction starts its retention timer")
	checkTimerCallback(c, "R4", a.rxStart, "RxTransaction", 1, "timeout")
	timerArmers(c, "R4", a)
	losslessPost(c, "R4", p.SSAFn(p.Method(pkgPfcp, "PfcpServer", "NotifyTransTimeout")), p.Field(pkgPfcp, "PfcpServer", "trToCh"), "expiry of a transaction timer")
	// retention expression
	timeoutF := p.Field(pkgPfcp, "RxTransaction", "timeout")
	for _, st := range storesToField(a.newRx, timeoutF) {
		c.Check("R4", "retention-factors", st.Pos(), core.MentionsField(st.Val, "RetransTimeout", 0) && core.MentionsField(st.Val, "MaxRetrans", 0),
			"retention is computed from the configured retransmission timeout and the maximum number of retransmissions")
		// the peer retransmits up to MaxRetrans times, one RetransTimeout apart: the response has to be kept for
		// RetransTimeout x (MaxRetrans + 1) so that the last retransmission still finds it — evaluated as a
		// polynomial in the two configured values, whatever way the product is written
		polyWhy = ""
		pl, ok := polyOf(st.Val, func(v ssa.Value) string {
			if _, names := core.FieldPath(v); len(names) > 0 {
				switch names[len(names)-1] {
				case "RetransTimeout":
					return "T"
				case "MaxRetrans":
					return "N"
				}
			}
			return ""
		}, 0)
		covers := ok && pl["N*T"] >= 1 && pl["T"] >= 1
		for _, cf := range pl {
			if cf < 0 {
				covers = false
			}
		}
		how := "not a polynomial in the two configured values"
		if polyWhy != "" {
			how = polyWhy
		}
		if ok {
			how = "T = RetransTimeout, N = MaxRetrans: " + pl.String()
		}
		c.Check("R4", "retention-covers-retries", st.Pos(), covers, "the response is retained for at least RetransTimeout x (MaxRetrans + 1), the time in which the peer's retransmissions arrive ("+how+")")
	}
	// event loop RX arm + delete
	checkTimeoutArm(c, "R4", a, "RxTransaction", a.rxTrans)
	delOK := false
	var delAt ssa.Instruction
	core.Instrs(a.rxTimeout, func(in ssa.Instruction) {
		if dc, ok := in.(*ssa.Call); ok {
			if bi, ok := dc.Call.Value.(*ssa.Builtin); ok && bi.Name() == "delete" {
				rx := core.Recv(a.rxTimeout)
				if core.IsPath(dc.Call.Args[0], rx, "server", "rxTrans") && core.IsPath(dc.Call.Args[1], rx, "id") {
					delOK = true
					delAt = dc
				}
			}
		}
	})
	c.Check("R4", "entry-released", a.rxTimeout.Pos(), delOK, "RxTransaction.handleTimeout deletes its own entry from the receive table")
	if delAt != nil {
		all, where := dominatesReturns(delAt)
		if all {
			where = delAt.Pos()
		}
		c.Check("R4", "entry-released-always", where, all, "every path of RxTransaction.handleTimeout deletes the entry: retention is bounded by one timer period, whatever the state of the transaction")
	}
	checkTableDeleters(c, "R4", a.rxTrans, map[*ssa.Function]bool{a.rxTimeout: true}, "only RxTransaction.handleTimeout (retention expiry) removes entries of the receive table")
}

// checkTableDeleters: delete(<table>, ...) appears only in the allowed functions.
func checkTableDeleters(c *core.Ctx, rule string, table *types.Var, allowed map[*ssa.Function]bool, desc string) {
	n := 0
	for _, fn := range c.P.OwnFuncs() {
		core.Instrs(fn, func(in ssa.Instruction) {
			if dc, ok := in.(*ssa.Call); ok {
				if bi, ok := dc.Call.Value.(*ssa.Builtin); ok && (bi.Name() == "delete" || bi.Name() == "clear") {
					if _, f, ok := core.LoadedField(dc.Call.Args[0]); ok && f == table {
						n++
						c.Check(rule, "table-deleter:"+table.Name()+":"+core.FnName(fn), dc.Pos(), allowed[fn], desc)
					}
				}
			}
		})
		for _, st := range storesToField(fn, table) {
			if fn.Name() != "NewPfcpServer" {
				c.Check(rule, "table-replaced:"+table.Name()+":"+core.FnName(fn), st.Pos(), false, "the transaction table is replaced outside the constructor")
			}
		}
	}
	c.Floor(rule, n, 1, "delete sites of "+table.Name())
}

// checkSendCaches: in a send method the marshalled buffer is fresh, cached in msgBuf and is the very
// slice written to the socket, to the transaction's address.
func checkSendCaches(c *core.Ctx, rule string, fn *ssa.Function, msgBuf, raddr *types.Var, a *txAnchors) {
	name := core.FnName(fn)
	ws := socketWrites(fn, a)
	sts := storesToField(fn, msgBuf)
	if len(ws) != 1 || len(sts) != 1 {
		c.Undecided(rule, "send-shape:"+name, fn.Pos(), fmt.Sprintf("expected one socket write and one cache store, found %d/%d", len(ws), len(sts)))
		return
	}
	w, st := ws[0], sts[0]
	args := core.CallArgs(w)
	c.Check(rule, "cache-is-sent:"+name, st.Pos(), st.Val == args[0] && core.InstrDominates(st, w), "the bytes cached are the very slice written to the socket (cached before the write)")
	_, fresh := st.Val.(*ssa.MakeSlice)
	c.Check(rule, "cache-fresh:"+name, st.Pos(), fresh, "the cached buffer is freshly allocated for this message (not shared with any other transaction)")
	c.Check(rule, "send-addr:"+name, w.Pos(), core.IsPath(args[1], core.Recv(fn), raddr.Name()), "written to the transaction's own peer address")
	// marshalled into that buffer
	marshalled := false
	core.Instrs(fn, func(in ssa.Instruction) {
		if ci, ok := in.(ssa.CallInstruction); ok {
			if f := core.Callee(ci); f != nil && f.Name() == "MarshalTo" && len(ci.Common().Args) >= 1 {
				for _, x := range ci.Common().Args {
					if x == st.Val {
						marshalled = core.InstrDominates(ci, w)
					}
				}
			}
		}
	})
	c.Check(rule, "marshalled:"+name, fn.Pos(), marshalled, "the message is marshalled into that buffer before it is written")
}

// checkTimerCallback: startTimer arms time.AfterFunc(<the transaction's interval field>, func(){ server.NotifyTransTimeout(<type const>, id) }).
func checkTimerCallback(c *core.Ctx, rule string, start *ssa.Function, typ string, trType int64, durField string) {
	p := c.P
	name := core.FnName(start)
	notify := p.Method(pkgPfcp, "PfcpServer", "NotifyTransTimeout")
	var af *ssa.Call
	for _, ci := range core.CallsMatching(start, func(f *types.Func) bool { return core.IsPkgFunc(f, "time", "AfterFunc") }) {
		af, _ = ci.(*ssa.Call)
	}
	if af == nil {
		c.Check(rule, "timer-armed:"+name, start.Pos(), false, "startTimer arms a time.AfterFunc timer")
		return
	}
	// whose interval: the receiver's, or (timer armed inside the constructor) the transaction being built
	var owner ssa.Value
	if r := core.Recv(start); r != nil {
		owner = r
	}
	if owner == nil {
		core.Instrs(start, func(in ssa.Instruction) {
			if al, ok := in.(*ssa.Alloc); ok && al.Heap {
				if pt, ok := al.Type().(*types.Pointer); ok {
					if nn, ok := pt.Elem().(*types.Named); ok && nn.Obj().Name() == typ {
						owner = al
					}
				}
			}
		})
	}
	c.Check(rule, "timer-interval:"+name, af.Pos(), owner != nil && core.IsPath(af.Call.Args[0], owner, durField), "the timer interval is the transaction's configured interval")
	mc, ok := af.Call.Args[1].(*ssa.MakeClosure)
	if !ok {
		c.Undecided(rule, "timer-callback:"+name, af.Pos(), "callback is not a function literal or method value")
		return
	}
	cb := mc.Fn.(*ssa.Function)
	// a method value (tx.notifyTimeout): judge the method behind the bound-method wrapper
	if cb.Synthetic != "" {
		var target *ssa.Function
		core.Instrs(cb, func(in ssa.Instruction) {
			if ci, ok := in.(ssa.CallInstruction); ok {
				if f := core.StaticFn(ci); f != nil && p.IsOwnFn(f) {
					target = f
				}
			}
		})
		if target != nil {
			cb = target
		}
	}
	calls := 0
	good := false
	core.Instrs(cb, func(in ssa.Instruction) {
		ci, ok := in.(ssa.CallInstruction)
		if !ok {
			return
		}
		calls++
		if core.Callee(ci) == notify {
			args := core.CallArgs(ci)
			k, isK := core.ConstInt(args[0])
			_, path := core.FieldPath(args[1])
			good = isK && k == trType && len(path) == 1 && path[0] == "id"
		}
	})
	c.Check(rule, "timer-callback:"+name, cb.Pos(), good && calls == 1,
		fmt.Sprintf("the timer callback only posts a timeout event (type %d) for the transaction's own id", trType))
	// the timer returned is the AfterFunc result
	core.Instrs(start, func(in ssa.Instruction) {
		if r, ok := in.(*ssa.Return); ok && len(r.Results) == 1 && core.Recv(start) != nil {
			c.Check(rule, "timer-returned:"+name, r.Pos(), r.Results[0] == ssa.Value(af), "startTimer returns the armed timer")
		}
	})
}

// checkTimeoutArm: in the event loop, handleTimeout of `typ` is called on the hit of the table lookup
// keyed by the timeout event's id.
func checkTimeoutArm(c *core.Ctx, rule string, a *txAnchors, typ string, table *types.Var) {
	p := c.P
	ht := p.Method(pkgPfcp, typ, "handleTimeout")
	calls := core.Calls(a.mainFn, ht)
	if len(calls) != 1 {
		c.Check(rule, "timeout-arm:"+typ, a.mainFn.Pos(), false, fmt.Sprintf("%d calls of %s.handleTimeout in the event loop (want 1)", len(calls), typ))
		return
	}
	ci := calls[0]
	ok := false
	if ex, isEx := core.CallRecv(ci).(*ssa.Extract); isEx && ex.Index == 0 {
		if lk, isLk := ex.Tuple.(*ssa.Lookup); isLk {
			if _, f, o := core.LoadedField(lk.X); o && f == table {
				_, kp := core.FieldPath(lk.Index)
				hit := false
				for _, r := range *lk.Referrers() {
					if e2, o2 := r.(*ssa.Extract); o2 && e2.Index == 1 && core.KnownAt(ci.Block(), e2, true) {
						hit = true
					}
				}
				ok = hit && len(kp) >= 1 && kp[len(kp)-1] == "TrID"
			}
		}
	}
	c.Check(rule, "timeout-arm:"+typ, ci.Pos(), ok, typ+".handleTimeout runs for the table entry found under the timeout event's transaction id")
	// ... and only for an event of this transaction type: RX and TX ids share one format (peer-sequence), so a
	// stale TX event must not be looked up in the receive table (it would release a retained response early)
	want := int64(0) // TX
	if typ == "RxTransaction" {
		want = 1
	}
	typed := false
	for _, f := range core.FactsAt(ci.Block()) {
		cmp, isCmp := f.V.(*ssa.BinOp)
		if !isCmp || (cmp.Op != token.EQL && cmp.Op != token.NEQ) {
			continue
		}
		k, isK := core.ConstInt(cmp.Y)
		_, kp := core.FieldPath(cmp.X)
		if !isK || len(kp) == 0 || kp[len(kp)-1] != "TrType" {
			continue
		}
		eq := (cmp.Op == token.EQL) == f.True // the fact says TrType == k (true) or TrType != k (false)
		if (eq && k == want) || (!eq && k == 1-want) {
			typed = true
		}
	}
	c.Check(rule, "timeout-arm-typed:"+typ, ci.Pos(), typed, typ+".handleTimeout runs only for timeout events of its own transaction type")
	// other handleTimeout callers: none
	for _, fn := range p.OwnFuncs() {
		for _, x := range core.Calls(fn, ht) {
			c.Check(rule, "timeout-caller:"+typ+":"+core.FnName(fn), x.Pos(), fn == a.mainFn, typ+".handleTimeout is called only by the event loop")
		}
	}
}

func C09(c *core.Ctx) {
	c.Explain = "Decided as invariants of the transmit-transaction machinery for every event order: (R1) every value stored to the request counter and " +
		"every sequence number handed to a transmit transaction lies in [0, 2^24) (interval analysis through +, &, %), so the table key built from it equals " +
		"the key rebuilt from the 24-bit number in the response, also across wrap-around; the counter advances by exactly one per request; (R2) in " +
		"TxTransaction.handleTimeout the condition separating 'resend' from 'give up' is equivalent to count < max over all orderings of (count, max); the " +
		"resend arm increments the count by exactly one, writes the cached request bytes (written only in send, fresh buffer, to the stored peer) and restarts " +
		"the timer on every path; the give-up arm deletes the entry from the transmit table and calls the timeout dispatcher; (R3) recv stops the timer and " +
		"deletes its entry on every path and is called only for a table hit keyed by (source address, sequence) — a miss only continues; (R4) sendReqTo stores " +
		"the transaction under its own key before sending; key format agreement as in C06 R2."
	c.Undec = []string{"distinctness from OUTSTANDING sequence numbers needs fewer than 2^24 outstanding requests (assumed)", "real-time behaviour of timers", "byte identity is by construction: retransmissions write the cached buffer"}
	c.Assume = []string{"single event-loop goroutine owns the tables (C17)", "go-pfcp truncates the sequence number to 24 bits on the wire"}
	a := getTxAnchors(c, "R1")
	if !a.ok {
		return
	}
	p := c.P
	const max24 = 1<<24 - 1

	// R1
	nSt := 0
	for _, fn := range p.OwnFuncs() {
		for _, st := range storesToField(fn, a.txSeq) {
			nSt++
			iv := core.EvalInt(st.Val, st.Block())
			c.Check("R1", fmt.Sprintf("counter-store:%s#%d", core.FnName(fn), nSt), st.Pos(), iv.Within(0, max24),
				fmt.Sprintf("value stored to the request counter lies in [%d,%d] (24-bit PFCP sequence space is [0,%d])", iv.Lo, iv.Hi, max24))
			// advances by exactly one: the expression contains (load counter + 1)
			plus1 := false
			var walk func(v ssa.Value, d int)
			walk = func(v ssa.Value, d int) {
				if d > 6 {
					return
				}
				if b, ok := v.(*ssa.BinOp); ok {
					if b.Op == token.ADD {
						if _, f, ok := core.LoadedField(b.X); ok && f == a.txSeq {
							if k, ok := core.ConstInt(b.Y); ok && k == 1 {
								plus1 = true
							}
						}
					}
					walk(b.X, d+1)
					walk(b.Y, d+1)
				}
			}
			walk(st.Val, 0)
			c.Check("R1", fmt.Sprintf("counter-step:%s#%d", core.FnName(fn), nSt), st.Pos(), plus1 && fn == a.sendReqTo, "the counter advances by one per request, in sendReqTo only")
		}
	}
	c.Check("R1", "counter-once", a.sendReqTo.Pos(), len(storesToField(a.sendReqTo, a.txSeq)) == 1, "exactly one counter update per request")
	newTxObj := p.Func(pkgPfcp, "NewTxTransaction")
	nNew := 0
	for _, fn := range p.OwnFuncs() {
		for _, ci := range core.Calls(fn, newTxObj) {
			nNew++
			seq := core.CallArgs(ci)[2]
			iv := core.EvalInt(seq, ci.(ssa.Instruction).Block())
			_, f, isLoad := core.LoadedField(seq)
			c.Check("R1", fmt.Sprintf("seq-arg:%s#%d", core.FnName(fn), nNew), ci.Pos(), (isLoad && f == a.txSeq) || iv.Within(0, max24),
				"the sequence number handed to the transmit transaction is the (24-bit) counter value")
		}
	}
	c.Floor("R1", nNew, 1, "NewTxTransaction call sites")
	sendReqAlwaysBooks(c, "R1")
	// a number that was handed out is consumed on every path, also when the first transmission fails:
	// the transaction stays outstanding (registered, timer armed) and the next request must not reuse it
	for _, ci := range core.Calls(a.sendReqTo, newTxObj) {
		if _, f, isLoad := core.LoadedField(core.CallArgs(ci)[2]); !isLoad || f != a.txSeq {
			continue
		}
		sts := storesToField(a.sendReqTo, a.txSeq)
		r := returnAvoiding(ci.(ssa.Instruction).Block(), func(b *ssa.BasicBlock) bool {
			for _, st := range sts {
				if blockHas(b, st) {
					return true
				}
			}
			return false
		})
		pos := ci.Pos()
		if r != nil {
			pos = r.Pos()
		}
		c.Check("R1", "counter-consumed", pos, r == nil, "every path from handing the counter value to a new transmit transaction to a return of sendReqTo advances the counter")
	}
	// the transaction uses that seq for the key and for the message
	seqF := p.Field(pkgPfcp, "TxTransaction", "seq")
	for _, st := range storesToField(a.newTx, seqF) {
		c.Check("R1", "seq-stored", st.Pos(), st.Val == ssa.Value(core.Param(a.newTx, 2)), "the transaction stores the sequence number it was given")
	}
	for _, ci := range core.Calls(a.txSend, p.Func(pkgPfcp, "setReqSeq")) {
		c.Check("R1", "seq-on-wire", ci.Pos(), core.IsPath(core.CallArgs(ci)[1], core.Recv(a.txSend), "seq"), "the request is stamped with the transaction's sequence number")
	}
	checkKeySites(c, "R4", a)

	// R2
	tx := core.Recv(a.txTimeout)
	var cond *ssa.BinOp
	var ifIn *ssa.If
	for _, in := range a.txTimeout.Blocks[0].Instrs {
		if x, ok := in.(*ssa.If); ok {
			ifIn = x
			cond, _ = x.Cond.(*ssa.BinOp)
		}
	}
	if cond == nil {
		c.Undecided("R2", "retry-condition", a.txTimeout.Pos(), "handleTimeout does not start with a comparison")
		return
	}
	// "the configured number of times": maxRetrans / retransTimeout of a transmit transaction are the
	// configuration's values, written only by the constructor, and the configuration itself is not rewritten
	// after load (C20 R3) - a default patched in for 0 would turn "never retransmit" into three retries
	for _, pair := range [][2]string{{"maxRetrans", "MaxRetrans"}, {"retransTimeout", "RetransTimeout"}} {
		f := p.Field(pkgPfcp, "TxTransaction", pair[0])
		n := 0
		for _, fn := range p.OwnFuncs() {
			for _, st := range storesToField(fn, f) {
				n++
				_, path := core.FieldPath(st.Val)
				c.Check("R2", "configured-"+pair[0]+":"+core.FnName(fn), st.Pos(), fn == a.newTx && len(path) >= 1 && path[len(path)-1] == pair[1] && strings.Contains(strings.Join(path, "."), "cfg"),
					"TxTransaction."+pair[0]+" is the configuration's "+pair[1]+" ("+strings.Join(path, ".")+"), set by the constructor only")
			}
		}
		c.Floor("R2", n, 1, "stores to TxTransaction."+pair[0])
	}
	if f20, ok := Registry["C20"]; ok {
		sub, _ := core.NewCtx(c.P, "C20", c.Tier, c.Seed, c.OutDir, "")
		f20(sub)
		bad := ""
		for _, fd := range sub.Findings {
			if strings.Contains(fd.Key, "config-store:") && (strings.HasSuffix(fd.Key, ":MaxRetrans") || strings.HasSuffix(fd.Key, ":RetransTimeout")) {
				bad = fd.Key
			}
		}
		c.Check("R2", "configuration-not-rewritten", token.NoPos, bad == "", "nothing writes Pfcp.MaxRetrans / Pfcp.RetransTimeout after the configuration was loaded (C20 R3) "+bad)
	}
	// E-ORD: evaluate the condition for count<max, count==max, count>max
	var cntLeft bool
	switch {
	case core.IsPath(cond.X, tx, "retransCount") && core.IsPath(cond.Y, tx, "maxRetrans"):
		cntLeft = true
	case core.IsPath(cond.Y, tx, "retransCount") && core.IsPath(cond.X, tx, "maxRetrans"):
		cntLeft = false
	default:
		c.Undecided("R2", "retry-condition", cond.Pos(), "condition does not compare retransCount with maxRetrans")
		return
	}
	truth := func(l, r int) bool {
		switch cond.Op {
		case token.LSS:
			return l < r
		case token.LEQ:
			return l <= r
		case token.GTR:
			return l > r
		case token.GEQ:
			return l >= r
		case token.EQL:
			return l == r
		case token.NEQ:
			return l != r
		}
		return false
	}
	var tbl [3]bool // count<max, ==, >
	for i, pr := range [][2]int{{0, 1}, {1, 1}, {2, 1}} {
		if cntLeft {
			tbl[i] = truth(pr[0], pr[1])
		} else {
			tbl[i] = truth(pr[1], pr[0])
		}
	}
	var resend, giveup *ssa.BasicBlock
	switch tbl {
	case [3]bool{true, false, false}:
		resend, giveup = ifIn.Block().Succs[0], ifIn.Block().Succs[1]
	case [3]bool{false, true, true}:
		resend, giveup = ifIn.Block().Succs[1], ifIn.Block().Succs[0]
	}
	c.Check("R2", "retry-condition", cond.Pos(), resend != nil,
		fmt.Sprintf("condition is true for (count<max, count==max, count>max) = %v; must separate exactly count<max (resend) from the rest (give up)", tbl))
	if resend == nil {
		return
	}
	inArm := func(b *ssa.BasicBlock, arm *ssa.BasicBlock) bool { return arm.Dominates(b) }
	// resend arm
	cntF := p.Field(pkgPfcp, "TxTransaction", "retransCount")
	msgBufTx, raddrTx, timerTx := p.Field(pkgPfcp, "TxTransaction", "msgBuf"), p.Field(pkgPfcp, "TxTransaction", "raddr"), p.Field(pkgPfcp, "TxTransaction", "timer")
	incs := 0
	for _, st := range storesToField(a.txTimeout, cntF) {
		if !inArm(st.Block(), resend) {
			c.Check("R2", "count-only-on-resend", st.Pos(), false, "the retry count changes outside the resend arm")
			continue
		}
		add, ok := st.Val.(*ssa.BinOp)
		if ok && add.Op == token.ADD && core.IsPath(add.X, tx, "retransCount") {
			if k, ok := core.ConstInt(add.Y); ok && k == 1 {
				incs++
			}
		}
	}
	c.Check("R2", "count-incremented", resend.Instrs[0].Pos(), incs == 1 && len(storesToField(a.txTimeout, cntF)) == 1, "the resend arm increments the retry count by exactly one")
	ws := socketWrites(a.txTimeout, a)
	c.Check("R2", "resend-once", a.txTimeout.Pos(), len(ws) == 1, fmt.Sprintf("%d socket writes in handleTimeout (want 1)", len(ws)))
	for _, w := range ws {
		args := core.CallArgs(w)
		c.Check("R2", "resend-bytes", w.Pos(), inArm(w.Block(), resend) && core.IsPath(args[0], tx, "msgBuf"), "the retransmission writes the cached request bytes (byte-identical)")
		c.Check("R2", "resend-addr", w.Pos(), core.IsPath(args[1], tx, "raddr"), "the retransmission goes to the transaction's peer")
	}
	var restart *ssa.Store
	for _, st := range storesToField(a.txTimeout, timerTx) {
		if cl, ok := st.Val.(*ssa.Call); ok && core.Callee(cl) == p.Method(pkgPfcp, "TxTransaction", "startTimer") && inArm(st.Block(), resend) {
			restart = st
		}
	}
	restartOK := restart != nil
	if restart != nil {
		// every way out of the resend arm passes the restart
		for _, b := range a.txTimeout.Blocks {
			if !inArm(b, resend) {
				continue
			}
			for _, s := range b.Succs {
				if !inArm(s, resend) && !restart.Block().Dominates(b) {
					restartOK = false
				}
			}
			if r, ok := b.Instrs[len(b.Instrs)-1].(*ssa.Return); ok && !core.InstrDominates(restart, r) {
				restartOK = false
			}
		}
	}
	c.Check("R2", "timer-restarted", resend.Instrs[0].Pos(), restartOK, "the retransmission timer is restarted on every path through the resend arm (also when the write failed)")
	// give-up arm
	delOK, dispOK := false, false
	for _, b := range a.txTimeout.Blocks {
		if !inArm(b, giveup) {
			continue
		}
		for _, in := range b.Instrs {
			switch x := in.(type) {
			case *ssa.Call:
				if bi, ok := x.Call.Value.(*ssa.Builtin); ok && bi.Name() == "delete" {
					if core.IsPath(x.Call.Args[0], tx, "server", "txTrans") && core.IsPath(x.Call.Args[1], tx, "id") {
						delOK = true
					} else {
						c.Check("R2", "giveup-deletes-other", x.Pos(), false, "the give-up arm deletes something other than its own transmit-table entry")
					}
				}
				if core.Callee(x) == p.Method(pkgPfcp, "PfcpServer", "txtoDispacher") {
					args := core.CallArgs(x)
					dispOK = core.IsPath(args[0], tx, "req") && core.IsPath(args[1], tx, "raddr")
				}
			}
		}
	}
	c.Check("R2", "giveup-released", giveup.Instrs[0].Pos(), delOK, "after the last retry the entry is deleted from the transmit table")
	c.Check("R2", "giveup-notified", giveup.Instrs[0].Pos(), dispOK, "after the last retry the timeout dispatcher is told (request, peer)")
	// cache discipline of send
	for _, fn := range p.OwnFuncs() {
		for _, st := range storesToField(fn, msgBufTx) {
			c.Check("R2", "cache-writer:"+core.FnName(fn), st.Pos(), fn == a.txSend, "the cached request is written only by TxTransaction.send")
		}
		for _, st := range storesToField(fn, raddrTx) {
			c.Check("R2", "raddr-writer:"+core.FnName(fn), st.Pos(), fn == a.newTx, "the transaction's peer address is set only by its constructor")
		}
	}
	checkSendCaches(c, "R2", a.txSend, msgBufTx, raddrTx, a)
	checkTimerCallback(c, "R2", a.txStart, "TxTransaction", 0, "retransTimeout")
	timerArmers(c, "R2", a)
	losslessPost(c, "R2", p.SSAFn(p.Method(pkgPfcp, "PfcpServer", "NotifyTransTimeout")), p.Field(pkgPfcp, "PfcpServer", "trToCh"), "expiry of a retransmission timer")
	checkTimeoutArm(c, "R2", a, "TxTransaction", a.txTrans)
	// the first timer is started by send before the write
	startedInSend := false
	for _, st := range storesToField(a.txSend, timerTx) {
		if cl, ok := st.Val.(*ssa.Call); ok && (core.StaticFn(cl) == a.txStart || (a.txStart == a.txSend && core.IsPkgFunc(core.Callee(cl), "time", "AfterFunc"))) {
			for _, w := range socketWrites(a.txSend, a) {
				if core.InstrDominates(st, w) {
					startedInSend = true
				}
			}
		}
	}
	c.Check("R2", "timer-started", a.txSend.Pos(), startedInSend, "send arms the retransmission timer")

	// R3
	rtx := core.Recv(a.txRecv)
	stopOK, del3 := false, false
	core.Instrs(a.txRecv, func(in ssa.Instruction) {
		if ci, ok := in.(ssa.CallInstruction); ok {
			if f := core.Callee(ci); f != nil && core.IsMethodOf(f, "time", "Timer", "Stop") && core.IsPath(core.CallRecv(ci), rtx, "timer") && ci.(ssa.Instruction).Block() == a.txRecv.Blocks[0] {
				stopOK = true
			}
			if cl, ok := in.(*ssa.Call); ok {
				if bi, ok := cl.Call.Value.(*ssa.Builtin); ok && bi.Name() == "delete" && cl.Block() == a.txRecv.Blocks[0] {
					del3 = core.IsPath(cl.Call.Args[0], rtx, "server", "txTrans") && core.IsPath(cl.Call.Args[1], rtx, "id")
				}
			}
		}
	})
	c.Check("R3", "response-stops-timer", a.txRecv.Pos(), stopOK, "a matching response stops the retransmission timer on every path")
	c.Check("R3", "response-releases", a.txRecv.Pos(), del3, "a matching response deletes the entry from the transmit table on every path")
	checkTableDeleters(c, "R3", a.txTrans, map[*ssa.Function]bool{a.txRecv: true, a.txTimeout: true}, "only a matching response or the last timeout removes entries of the transmit table")
	txRecvObj := p.Method(pkgPfcp, "TxTransaction", "recv")
	n3 := 0
	for _, fn := range p.OwnFuncs() {
		for _, ci := range core.Calls(fn, txRecvObj) {
			n3++
			ok := false
			if fn == a.mainFn {
				if ex, isEx := core.CallRecv(ci).(*ssa.Extract); isEx && ex.Index == 0 {
					if lk, isLk := ex.Tuple.(*ssa.Lookup); isLk {
						if _, f, o := core.LoadedField(lk.X); o && f == a.txTrans {
							for _, r := range *lk.Referrers() {
								if e2, o2 := r.(*ssa.Extract); o2 && e2.Index == 1 && core.KnownAt(ci.(ssa.Instruction).Block(), e2, true) {
									ok = true
								}
							}
						}
					}
				}
			}
			c.Check("R3", "response-matched:"+core.FnName(fn), ci.Pos(), ok, "TxTransaction.recv runs only for the transmit-table hit keyed by (source address, sequence); a miss has no effect")
		}
	}
	c.Floor("R3", n3, 1, "calls of TxTransaction.recv")
	responsesMatched(c, "R3", a)
	// "responses matching no outstanding request are ignored without effect": in particular they do not end the
	// event loop (C07 P5)
	shareFrom(c, "C07", "R3", func(o *core.Obligation) bool { return o.Rule == "P5" && strings.Contains(o.Key, "/P5/loop-exit") }, 1, "exits of the event loop")
	// the response dispatcher runs only after a match
	for _, ci := range core.Calls(a.mainFn, p.Method(pkgPfcp, "PfcpServer", "rspDispacher")) {
		dom := false
		for _, rc := range core.Calls(a.mainFn, txRecvObj) {
			if core.InstrDominates(rc.(ssa.Instruction), ci.(ssa.Instruction)) {
				dom = true
			}
		}
		c.Check("R3", "unmatched-ignored", ci.Pos(), dom, "the response dispatcher runs only after a matching outstanding request was found")
	}

	// R4
	var reg *ssa.MapUpdate
	core.Instrs(a.sendReqTo, func(in ssa.Instruction) {
		if mu, ok := in.(*ssa.MapUpdate); ok {
			if _, f, ok := core.LoadedField(mu.Map); ok && f == a.txTrans {
				reg = mu
			}
		}
	})
	txSendObj := p.Method(pkgPfcp, "TxTransaction", "send")
	sends := core.Calls(a.sendReqTo, txSendObj)
	okReg := reg != nil && len(sends) == 1
	if okReg {
		okReg = core.InstrDominates(reg, sends[0].(ssa.Instruction)) && reg.Value == core.CallRecv(sends[0]) && core.IsPath(reg.Key, reg.Value, "id")
	}
	pos := a.sendReqTo.Pos()
	if reg != nil {
		pos = reg.Pos()
	}
	c.Check("R4", "registered-before-send", pos, okReg, "the transaction is stored under its own id before it is sent (so its timer is always reachable from the table)")
	for _, fn := range p.OwnFuncs() {
		for _, ci := range core.Calls(fn, txSendObj) {
			c.Check("R4", "send-caller:"+core.FnName(fn), ci.Pos(), fn == a.sendReqTo, "requests are sent only through sendReqTo")
		}
	}
}

// sendReqAlwaysBooks: sendReqTo turns every request it is given into a booked transmit transaction: the
// only exit before the transaction is entered in txTrans is the `not a request` guard. (A report whose
// numbers were already taken must go out or stay booked for retransmission; an additional early exit
// silently loses it.)
func sendReqAlwaysBooks(c *core.Ctx, rule string) {
	a := getTxAnchors(c, rule)
	if !a.ok {
		return
	}
	fn := a.sendReqTo
	var books []ssa.Instruction
	core.Instrs(fn, func(in ssa.Instruction) {
		if mu, ok := in.(*ssa.MapUpdate); ok {
			if _, f, ok := core.LoadedField(mu.Map); ok && f == a.txTrans {
				books = append(books, mu)
			}
		}
	})
	var isReq []ssa.Value
	for _, ci := range core.CallsMatching(fn, func(f *types.Func) bool { return core.IsPkgFunc(f, pkgPfcp, "isRequest") }) {
		if v := ci.Value(); v != nil {
			isReq = append(isReq, v)
		}
	}
	r := returnAvoiding(fn.Blocks[0], func(b *ssa.BasicBlock) bool {
		for _, m := range books {
			if blockHas(b, m) {
				return true
			}
		}
		for _, v := range isReq {
			if core.KnownAt(b, v, false) {
				return true
			}
		}
		return false
	})
	pos := fn.Pos()
	if r != nil {
		pos = r.Pos()
	}
	c.Check(rule, "request-always-booked", pos, r == nil && len(books) > 0, "every request handed to sendReqTo is entered in the transmit table (the only earlier exit is the not-a-request guard)")
}

// timerArmers: a transaction holds one timer; a new one is armed only where none can be running - by the
// constructor / first send, or inside handleTimeout (the previous timer has just fired). Arming elsewhere
// (e.g. on a duplicate request) overwrites a running timer: it stays armed, unreachable from the tables,
// and later expires a NEWER transaction stored under the same key.
func timerArmers(c *core.Ctx, rule string, a *txAnchors) {
	p := c.P
	allowed := map[string]map[*ssa.Function]bool{
		"RxTransaction": {a.newRx: true, a.rxStart: true},
		"TxTransaction": {a.txSend: true, a.txTimeout: true, a.txStart: true},
	}
	n := 0
	for typ, okFns := range allowed {
		f := p.Field(pkgPfcp, typ, "timer")
		for _, fn := range p.OwnFuncs() {
			for _, st := range storesToField(fn, f) {
				if core.IsNilConst(st.Val) {
					continue
				}
				n++
				c.Check(rule, "timer-armer:"+typ+":"+core.FnName(fn), st.Pos(), okFns[fn],
					typ+".timer is armed only by the constructor / first send and by handleTimeout (never while a timer may still be running)")
			}
		}
	}
	c.Floor(rule, n, 3, "sites arming a transaction timer")
}

// servedUnlessExcused: the event loop gives up on a received message before `target` (the dispatch of a request,
// the hand-over of a response to its transaction) only for reasons that lie in the message itself or in the
// transaction lookup: the select arm, a parse error, the request/response routing predicates (functions of the
// received message alone), the comma-ok of the transaction-table lookup, and the verdict of RxTransaction.recv.
// Any other condition — a counter, a limit, a comparison with stored state — silently drops traffic the
// property says is served.
func servedUnlessExcused(c *core.Ctx, rule, key string, target ssa.Instruction, a *txAnchors, tables []*types.Var, desc string) {
	p := c.P
	rxRecvObj := p.Method(pkgPfcp, "RxTransaction", "recv")
	bad := ""
	var badPos token.Pos
	for _, ifi := range giveUpsBefore(p, target, 0) {
		cond := stripNot(ifi.Cond)
		ok := false
		// select arm / closed-channel flag
		if bo, isBo := cond.(*ssa.BinOp); isBo {
			for _, o := range []ssa.Value{bo.X, bo.Y} {
				if ex, isEx := o.(*ssa.Extract); isEx {
					if _, isSel := ex.Tuple.(*ssa.Select); isSel {
						ok = true
					}
				}
			}
		}
		if ex, isEx := cond.(*ssa.Extract); isEx {
			if _, isSel := ex.Tuple.(*ssa.Select); isSel {
				ok = true
			}
			if lk, isLk := ex.Tuple.(*ssa.Lookup); isLk && lk.CommaOk && ex.Index == 1 {
				if _, f, o := core.LoadedField(lk.X); o {
					for _, t := range tables {
						if f == t {
							ok = true
						}
					}
				}
			}
			if cl, isCl := ex.Tuple.(*ssa.Call); isCl && core.Callee(cl) == rxRecvObj {
				ok = true
			}
		}
		if x, _, isNil := core.NilCmp(cond); isNil {
			x = core.Unwrap(x)
			if ex, isEx := x.(*ssa.Extract); isEx {
				if cl, isCl := ex.Tuple.(*ssa.Call); isCl {
					f := core.Callee(cl)
					if f == rxRecvObj || (f != nil && f.Name() == "Parse" && f.Pkg() != nil && f.Pkg().Path() == core.PkgMessage) {
						ok = true
					}
				}
			}
		}
		// length of the received buffer (the receiver-closed mark)
		if bo, isBo := cond.(*ssa.BinOp); isBo && !ok {
			for i, o := range []ssa.Value{bo.X, bo.Y} {
				if cl, isCl := o.(*ssa.Call); isCl {
					if bi, isBi := cl.Call.Value.(*ssa.Builtin); isBi && bi.Name() == "len" {
						root, _ := core.FieldPath(cl.Call.Args[0])
						root = core.Unwrap(root)
						if al, isAl := root.(*ssa.Alloc); isAl {
							if v, o := aggregateSingleStore(al); o {
								root = core.Unwrap(v)
							}
						}
						_, isPrm := root.(*ssa.Parameter)
						if isPrm {
							// the packet (or its bytes) handed in by value — not state reached through a pointer receiver
							if _, isPtr := root.Type().Underlying().(*types.Pointer); isPtr {
								isPrm = false
							}
						}
						isSel := false
						if ex, isEx := root.(*ssa.Extract); isEx {
							_, isSel = ex.Tuple.(*ssa.Select)
						}
						if _, isConst := core.ConstInt([]ssa.Value{bo.Y, bo.X}[i]); isConst && (isPrm || isSel) {
							ok = true
						}
					}
				}
			}
		}
		if !ok {
			switch cond.(type) {
			case *ssa.Call, *ssa.BinOp:
				ok = receivedMessageOnly(cond, 0)
			case *ssa.Parameter:
				ok = true // a verdict handed in by the caller, judged at the call site
			}
		}
		if !ok && bad == "" {
			bad = "the message is dropped under a condition that is neither a parse error, the request/response routing, the transaction lookup nor the duplicate verdict"
			badPos = ifi.Cond.Pos()
		}
	}
	pos := target.Pos()
	if bad != "" && badPos.IsValid() {
		pos = badPos
	}
	c.Check(rule, key, pos, bad == "", desc+map[bool]string{true: "", false: " — " + bad}[bad == ""])
}

// requestsServed files one obligation per call of the request dispatcher (P9 of C07, R1 of C06).
func requestsServed(c *core.Ctx, rule string, a *txAnchors) {
	p := c.P
	dispObj := p.Method(pkgPfcp, "PfcpServer", "reqDispacher")
	n := 0
	for _, fn := range p.OwnFuncs() {
		for _, ci := range core.Calls(fn, dispObj) {
			n++
			servedUnlessExcused(c, rule, "request-served:"+core.FnName(fn), ci.(ssa.Instruction), a, []*types.Var{a.rxTrans},
				"every decodable request that is not a retransmission is dispatched to its handler")
		}
	}
	c.Floor(rule, n, 1, "calls of the request dispatcher")
}

// responsesMatched: a response that matches an outstanding request always reaches TxTransaction.recv (C09 R3).
func responsesMatched(c *core.Ctx, rule string, a *txAnchors) {
	p := c.P
	recvObj := p.Method(pkgPfcp, "TxTransaction", "recv")
	n := 0
	for _, fn := range p.OwnFuncs() {
		for _, ci := range core.Calls(fn, recvObj) {
			n++
			servedUnlessExcused(c, rule, "response-received:"+core.FnName(fn), ci.(ssa.Instruction), a, []*types.Var{a.txTrans},
				"every response whose (source address, sequence number) matches an outstanding request is handed to that transaction: retransmission stops and the entry is released")
		}
	}
	c.Floor(rule, n, 1, "calls of TxTransaction.recv")
}
