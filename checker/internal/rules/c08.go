package rules

import (
	"fmt"
	"go/token"
	"go/types"
	"regexp"
	"strings"

	"golang.org/x/tools/go/ssa"

	"upfcheck/internal/core"
)

func init() { Registry["C08"] = C08 }

var rspCtor = regexp.MustCompile(`^New\w+Response$`)

// argByName returns the actual argument bound to the constructor parameter called `name`.
func argByName(ci ssa.CallInstruction, name string) ssa.Value {
	f := core.Callee(ci)
	if f == nil {
		return nil
	}
	sig := f.Type().(*types.Signature)
	args := core.CallArgs(ci)
	for i := 0; i < sig.Params().Len() && i < len(args); i++ {
		if sig.Params().At(i).Name() == name {
			return args[i]
		}
	}
	return nil
}

// collectIEs returns the calls that build the IEs passed (variadically, possibly through append chains)
// to a message constructor.
func collectIECalls(v ssa.Value) []*ssa.Call {
	var out []*ssa.Call
	seen := map[ssa.Value]bool{}
	var walk func(v ssa.Value, d int)
	walk = func(v ssa.Value, d int) {
		if v == nil || seen[v] || d > 12 {
			return
		}
		seen[v] = true
		switch x := v.(type) {
		case *ssa.Call:
			if bi, ok := x.Call.Value.(*ssa.Builtin); ok && bi.Name() == "append" {
				for _, a := range x.Call.Args {
					walk(a, d+1)
				}
				return
			}
			out = append(out, x)
		case *ssa.Slice:
			walk(x.X, d+1)
		case *ssa.Alloc:
			for _, r := range *x.Referrers() {
				if ia, ok := r.(*ssa.IndexAddr); ok {
					for _, u := range *ia.Referrers() {
						if st, ok := u.(*ssa.Store); ok {
							walk(st.Val, d+1)
						}
					}
				}
			}
		case *ssa.Phi:
			for _, e := range x.Edges {
				walk(e, d+1)
			}
		case *ssa.MakeSlice:
		}
	}
	walk(v, 0)
	return out
}

func C08(c *core.Ctx) {
	c.Explain = "Correlation of responses is decided as value-identity and ordering facts in every handler, for every request and state: (R1) the sequence-number argument of every " +
		"response constructor is the SequenceNumber of the handler's own request; the header SEID argument is either the RemoteID of the handler's session — together with cause " +
		"'request accepted' — or the constant 0 — together with 'session context not found'; (R2) responses are sent with sendRspTo(rsp, <the handler's address parameter>), the " +
		"dispatcher hands each handler the address it was given, and the event loop hands the dispatcher the packet's source address; the transaction writes to the address it was " +
		"created with (C06 R3); (R3) the accepted Establishment Response carries the UPF node id built from the server's node id and an F-SEID built from the LocalID of the session " +
		"that NewSess just returned; (R4) on every path of a handler an effect (call that changes session, node or data-plane state) is never followed by a return that was not " +
		"preceded by sending the accepted response — all early returns precede the first effect; (R5) the recovery time stamp is stored only by the constructor and both the " +
		"heartbeat and the association response read that field."
	c.Undec = []string{"go-pfcp's marshalling of the response", "the Created-PDR list beyond its presence", "whether the datagram reaches the peer"}
	c.Assume = []string{"confinement to the event loop (C17)"}
	p := c.P
	sendRsp := p.Method(pkgPfcp, "PfcpServer", "sendRspTo")
	newCause := p.Func(core.PkgIE, "NewCause")
	if sendRsp == nil || newCause == nil {
		c.Anchor("R1", "PfcpServer.sendRspTo / ie.NewCause")
		return
	}
	handlers := []string{"handleHeartbeatRequest", "handleAssociationSetupRequest", "handleSessionEstablishmentRequest", "handleSessionModificationRequest", "handleSessionDeletionRequest"}
	nCtor, nSeid := 0, 0
	for _, h := range handlers {
		fn := fnOf(c, "R1", pkgPfcp, "PfcpServer", h)
		if fn == nil {
			continue
		}
		req, addr := core.Param(fn, 0), core.Param(fn, 1)
		k := 0
		for _, ci := range core.CallsMatching(fn, func(f *types.Func) bool {
			return f.Pkg() != nil && f.Pkg().Path() == core.PkgMessage && rspCtor.MatchString(f.Name())
		}) {
			nCtor++
			k++
			key := fmt.Sprintf("%s#%d", h, k)
			seq := argByName(ci, "seq")
			c.Check("R1", "echo-seq:"+key, ci.Pos(), seq != nil && isReqSeq(seq, req), "the response echoes the sequence number of the request being handled")
			// the response type matches the request type
			reqName := strings.TrimPrefix(h, "handle")
			wantCtor := "New" + strings.TrimSuffix(reqName, "Request") + "Response"
			c.Check("R1", "response-type:"+key, ci.Pos(), core.Callee(ci).Name() == wantCtor, "a "+reqName+" is answered with "+wantCtor)
			seid := argByName(ci, "seid")
			if seid != nil {
				nSeid++
				zero := false
				if n, ok := core.ConstInt(seid); ok && n == 0 {
					zero = true
				}
				b, f, isLoad := core.LoadedField(seid)
				remote := isLoad && f.Name() == "RemoteID" && isSessValue(b)
				var iesArg ssa.Value
				if a := core.CallArgs(ci); len(a) > 0 {
					iesArg = a[len(a)-1]
				}
				cause := int64(-1)
				for _, ic := range collectIECalls(iesArg) {
					if core.Callee(ic) == newCause {
						if n, ok := core.ConstInt(ic.Call.Args[0]); ok {
							cause = n
						}
					}
				}
				switch {
				case zero:
					c.Check("R1", "seid-cause:"+key, ci.Pos(), cause == 65, fmt.Sprintf("header SEID 0 goes together with cause 65 'session context not found' (cause %d)", cause))
				case remote:
					c.Check("R1", "seid-cause:"+key, ci.Pos(), cause == 1, fmt.Sprintf("the session's control-plane SEID goes together with cause 1 'request accepted' (cause %d)", cause))
				default:
					c.Check("R1", "seid-source:"+key, ci.Pos(), false, "the response's header SEID is neither the session's RemoteID nor the constant 0")
				}
			}
		}
		c.Floor("R1", k, 1, "response constructor calls in "+h)
		// R2: destination
		for _, rs := range p.CallsThrough(fn, sendRsp, 2) {
			s := rs.Site
			args := rs.Args[1:]
			c.Check("R2", "destination:"+h, s.Pos(), args[1] != nil && args[1] == ssa.Value(addr), "the response is sent to the address the handler was given")
			// the message sent is one built in this handler
			built := false
			if args[0] != nil {
				_, built = core.Unwrap(args[0]).(*ssa.Call)
			}
			c.Check("R2", "sends-built-response:"+h, s.Pos(), built, "what is sent is the response built by this handler")
		}
	}
	c.Floor("R1", nCtor, 7, "response constructor calls")
	c.Floor("R1", nSeid, 5, "response constructor calls carrying a header SEID")
	// dispatcher passes its address through; event loop passes the packet's RemoteAddr
	if disp := fnOf(c, "R2", pkgPfcp, "PfcpServer", "reqDispacher"); disp != nil {
		n := 0
		core.Instrs(disp, func(in ssa.Instruction) {
			ci, ok := in.(ssa.CallInstruction)
			if !ok {
				return
			}
			f := core.Callee(ci)
			if f == nil || !strings.HasPrefix(f.Name(), "handle") || !p.IsOwn(f.Pkg()) {
				return
			}
			n++
			args := core.CallArgs(ci)
			c.Check("R2", "dispatch-addr:"+f.Name(), ci.Pos(), len(args) == 2 && args[1] == ssa.Value(core.Param(disp, 1)), "the dispatcher hands the handler the source address it was given")
			// and the message it was given (type-asserted)
			msgOK := false
			if ex, ok := args[0].(*ssa.Extract); ok {
				if ta, ok := ex.Tuple.(*ssa.TypeAssert); ok && ta.X == ssa.Value(core.Param(disp, 0)) {
					msgOK = true
				}
			}
			if ta, ok := args[0].(*ssa.TypeAssert); ok && ta.X == ssa.Value(core.Param(disp, 0)) {
				msgOK = true
			}
			c.Check("R2", "dispatch-msg:"+f.Name(), ci.Pos(), msgOK, "the dispatcher hands the handler the message it was given")
		})
		c.Floor("R2", n, 7, "handler calls in the dispatcher")
	}
	// R3: the UP F-SEID keeps addressing the session it was returned for: sessions end only through their own
	// node (session-end path and ownership rules shared with C01 R6 / C04 R6)
	c01EndPaths(c, "R3", false)
	// "... or not answered at all, leaves no trace": a Session Report Response releases a session only when it comes
	// from the peer the report was sent to — the SEID-0 match involves the whole source address (C05 R4)
	shareFrom(c, "C05", "R3", func(o *core.Obligation) bool { return o.Rule == "R4" }, 2, "SEID-0 match rules")
	// R6: what a response says about one IE of the request is computed from that IE alone
	independentIterations(c, "R6", handlerFns(p))
	// the bytes cached for replay to a retransmitted request are this response's own (not a buffer
	// that a later response overwrites): the replay must answer the request it is keyed by
	if a := getTxAnchors(c, "R2"); a.ok {
		checkSendCaches(c, "R2", a.rxSend, p.Field(pkgPfcp, "RxTransaction", "msgBuf"), p.Field(pkgPfcp, "RxTransaction", "raddr"), a)
		// the response is matched to its request through the (peer, sequence) key: every site that builds or
		// looks up that key uses one format (shared with C06 R2)
		checkKeySites(c, "R2", a)
	}
	if mainFn := fnOf(c, "R2", pkgPfcp, "PfcpServer", "main"); mainFn != nil {
		for _, ci := range core.Calls(mainFn, p.Method(pkgPfcp, "PfcpServer", "reqDispacher")) {
			_, path := core.FieldPath(core.CallArgs(ci)[1])
			c.Check("R2", "loop-addr", ci.Pos(), len(path) == 1 && path[0] == "RemoteAddr", "the event loop dispatches with the datagram's source address")
		}
		for _, ci := range core.Calls(mainFn, p.Func(pkgPfcp, "NewRxTransaction")) {
			_, path := core.FieldPath(core.CallArgs(ci)[1])
			c.Check("R2", "transaction-addr", ci.Pos(), len(path) == 1 && path[0] == "RemoteAddr", "the receive transaction is created for the datagram's source address")
		}
	}

	packetOwnsBytes(c, "R2")
	// a released session is no longer addressable (its slot is cleared before the SEID can be looked up again)
	okFL, why := freeListLemma(c, false)
	c.Check("R1", "deleted-session-unaddressable", token.NoPos, okFL, "after deletion the session table slot is nil, so a later request to that SEID takes the not-found path (C04 R4) "+why)

	// R3 establishment content
	if fn := p.SSAFn(p.Method(pkgPfcp, "PfcpServer", "handleSessionEstablishmentRequest")); fn != nil {
		var sess ssa.Value
		for _, ci := range core.Calls(fn, p.Method(pkgPfcp, "RemoteNode", "NewSess")) {
			sess = ci.Value()
			// the node is the one looked up by the request's node id; the CP SEID is the request's F-SEID
			a := core.CallArgs(ci)[0]
			_, path := core.FieldPath(a)
			c.Check("R3", "cp-seid-recorded", ci.Pos(), len(path) == 1 && path[0] == "SEID", "the new session records the SEID of the request's CP F-SEID as the peer's SEID")
		}
		for _, ci := range core.CallsMatching(fn, func(f *types.Func) bool { return core.IsPkgFunc(f, core.PkgMessage, "NewSessionEstablishmentResponse") }) {
			args := core.CallArgs(ci)
			seid := argByName(ci, "seid")
			c.Check("R3", "est-seid", ci.Pos(), sess != nil && core.IsPath(seid, sess, "RemoteID"), "the Establishment Response is addressed with the new session's control-plane SEID")
			okFseid, okNode := false, false
			for _, ic := range collectIECalls(args[len(args)-1]) {
				f := core.Callee(ic)
				if f == nil {
					continue
				}
				if core.IsPkgFunc(f, core.PkgIE, "NewFSEID") && sess != nil && core.IsPath(ic.Call.Args[0], sess, "LocalID") {
					okFseid = true
				}
				if f.Name() == "newIeNodeID" && len(ic.Call.Args) > 0 {
					// newIeNodeID(s.nodeID), or - as a method - s.newIeNodeID() reading s.nodeID itself
					if core.IsPath(ic.Call.Args[0], core.Recv(fn), "nodeID") {
						okNode = true
					} else if ic.Call.Args[0] == ssa.Value(core.Recv(fn)) {
						if h := core.StaticFn(ic); h != nil && h.Blocks != nil {
							for _, a := range core.FieldAccesses(h) {
								if a.Field.Name() == "nodeID" && !a.Write && core.Unwrap(a.Base) == ssa.Value(core.Recv(h)) {
									okNode = true
								}
							}
						}
					}
				}
			}
			c.Check("R3", "est-fseid", ci.Pos(), okFseid, "the UP F-SEID returned is the LocalID of the session just created (the SEID that addresses it from now on)")
			// "... a UP F-SEID that from then on addresses the new session": the F-SEID carries the UPF's address, which is
			// its node id resolved — a node id may be a host name
			nodeIDResolved(c, "R3")
			c.Check("R3", "est-nodeid", ci.Pos(), okNode, "the response carries the UPF's own node id")
		}
	}

	// R4 no trace without accepted answer
	for _, h := range handlers {
		fn := p.SSAFn(p.Method(pkgPfcp, "PfcpServer", h))
		if fn == nil {
			continue
		}
		// accepted-response sends: sendRspTo calls whose message carries cause 1 (or no cause at all: heartbeat)
		var accepted []ssa.Instruction
		for _, rs := range p.CallsThrough(fn, sendRsp, 2) {
			s := rs.Site
			if rs.Args[1] == nil {
				continue
			}
			msg := core.Unwrap(rs.Args[1])
			isNF := false
			if mc, ok := msg.(*ssa.Call); ok {
				a := core.CallArgs(mc)
				for _, ic := range collectIECalls(a[len(a)-1]) {
					if core.Callee(ic) == newCause {
						if n, ok := core.ConstInt(ic.Call.Args[0]); ok && n != 1 {
							isNF = true
						}
					}
				}
			}
			if !isNF {
				accepted = append(accepted, s.(ssa.Instruction))
			}
		}
		var effects []ssa.Instruction
		core.Instrs(fn, func(in ssa.Instruction) {
			switch x := in.(type) {
			case ssa.CallInstruction:
				if f := core.Callee(x); f != nil && isEffectful(p, f) {
					effects = append(effects, in)
				}
			case *ssa.MapUpdate:
				effects = append(effects, in)
			case *ssa.Call:
			}
			if cl, ok := in.(*ssa.Call); ok {
				if bi, ok := cl.Call.Value.(*ssa.Builtin); ok && bi.Name() == "delete" {
					effects = append(effects, in)
				}
			}
		})
		k := 0
		core.Instrs(fn, func(in ssa.Instruction) {
			r, ok := in.(*ssa.Return)
			if !ok {
				return
			}
			answered := false
			for _, a := range accepted {
				if core.InstrDominates(a, r) {
					answered = true
				}
			}
			if answered {
				return
			}
			k++
			clean := true
			var culprit ssa.Instruction
			for _, e := range effects {
				if core.Reaches(e, r) {
					clean = false
					culprit = e
				}
			}
			desc := "a return that is not preceded by the accepted response is not preceded by any state change either"
			if culprit != nil {
				desc += " (state change at " + p.Pos(culprit.Pos()) + ")"
			}
			c.Check("R4", fmt.Sprintf("no-trace:%s#%d", h, k), r.Pos(), clean, desc)
		})
	}

	// R5
	rt := p.Field(pkgPfcp, "PfcpServer", "recoveryTime")
	if rt == nil {
		c.Anchor("R5", "PfcpServer.recoveryTime")
		return
	}
	for _, fn := range p.OwnFuncs() {
		for _, st := range storesToField(fn, rt) {
			c.Check("R5", "timestamp-writer:"+core.FnName(fn), st.Pos(), fn.Name() == "NewPfcpServer", "the recovery time stamp is set only when the server is constructed")
		}
	}
	nTS := 0
	for _, fn := range p.OwnFuncs() {
		for _, ci := range core.CallsMatching(fn, func(f *types.Func) bool { return core.IsPkgFunc(f, core.PkgIE, "NewRecoveryTimeStamp") }) {
			if core.FnPkg(fn).Path() != pkgPfcp {
				continue
			}
			nTS++
			_, f, ok := core.LoadedField(ci.Common().Args[0])
			c.Check("R5", "timestamp-source:"+core.FnName(fn), ci.Pos(), ok && f == rt, "the Recovery Time Stamp IE is built from the server's single stored start time")
		}
	}
	c.Floor("R5", nTS, 2, "Recovery Time Stamp IEs built")
	_ = token.NoPos
}

func isSessValue(v ssa.Value) bool {
	pt, ok := v.Type().(*types.Pointer)
	if !ok {
		return false
	}
	n, ok := pt.Elem().(*types.Named)
	return ok && n.Obj().Name() == "Sess"
}

// isEffectful: calling f may change session, node or data-plane state.
func isEffectful(p *core.Program, f *types.Func) bool {
	if !p.IsOwn(f.Pkg()) {
		return false
	}
	n := core.RecvNamed(f)
	if n == nil {
		return false
	}
	switch n.Obj().Name() {
	case "Sess":
		return ruleMethod.MatchString(f.Name()) || f.Name() == "Close" || f.Name() == "Push" || f.Name() == "URRSeq"
	case "RemoteNode":
		return f.Name() == "NewSess" || f.Name() == "DeleteSess" || f.Name() == "Reset"
	case "LocalNode":
		return f.Name() == "NewSess" || f.Name() == "DeleteSess" || f.Name() == "Reset"
	case "PfcpServer":
		return f.Name() == "UpdateNodeID" || f.Name() == "NewNode"
	}
	return false
}

// packetOwnsBytes (C08 R2 / C17 R2): every data packet the receiver queues carries a freshly
// allocated buffer filled by copy — queued requests never alias the reused read buffer.
func packetOwnsBytes(c *core.Ctx, rule string) {
	p := c.P
	fn := fnOf(c, rule, pkgPfcp, "PfcpServer", "receiver")
	pktT := p.Named(pkgPfcp, "ReceivePacket")
	bufF := p.Field(pkgPfcp, "ReceivePacket", "Buf")
	if fn == nil || pktT == nil || bufF == nil {
		return
	}
	n := 0
	core.Instrs(fn, func(in ssa.Instruction) {
		snd, ok := in.(*ssa.Send)
		if !ok {
			return
		}
		if ch, ok := snd.Chan.Type().Underlying().(*types.Chan); !ok || !types.Identical(ch.Elem(), pktT) {
			return
		}
		if k, isConst := snd.X.(*ssa.Const); isConst && k.Value == nil {
			return // sentinel
		}
		n++
		var bufV ssa.Value
		if ld, ok := snd.X.(*ssa.UnOp); ok && ld.Op == token.MUL {
			if al, ok := ld.X.(*ssa.Alloc); ok {
				for _, r := range *al.Referrers() {
					if fa, ok := r.(*ssa.FieldAddr); ok && core.FieldOfAddr(fa) == bufF {
						for _, u := range *fa.Referrers() {
							if st, ok := u.(*ssa.Store); ok {
								bufV = st.Val
							}
						}
					}
				}
			}
		}
		ms, fresh := bufV.(*ssa.MakeSlice)
		copied := false
		if fresh {
			for _, r := range *ms.Referrers() {
				if cl, ok := r.(*ssa.Call); ok {
					if bi, ok := cl.Call.Value.(*ssa.Builtin); ok && bi.Name() == "copy" && cl.Call.Args[0] == ssa.Value(ms) && core.InstrDominates(cl, snd) {
						copied = true
					}
				}
			}
		}
		c.Check(rule, fmt.Sprintf("packet-owns-bytes#%d", n), snd.Pos(), fresh && copied,
			"each queued datagram is a fresh copy (make + copy): a request waiting in the queue cannot be overwritten by the next datagram read")
	})
	c.Floor(rule, n, 1, "data sends of the receiver")
}
