package rules

import (
	"fmt"
	"go/token"
	"go/types"
	"strings"

	"golang.org/x/tools/go/ssa"

	"upfcheck/internal/core"
)

func init() {
	Registry["C11"] = C11
	Registry["C12"] = C12
}

// emission sites: the three functions that turn usage reports into Usage Report IEs.
var emissionSites = []struct{ fn, ies string }{
	{"serveUSAReport", "IEsWithinSessReportReq"},
	{"handleSessionModificationRequest", "IEsWithinSessModRsp"},
	{"handleSessionDeletionRequest", "IEsWithinSessDelRsp"},
}

func C11(c *core.Ctx) {
	c.Explain = "UR-SEQN correctness is decided as 'a number is consumed iff an IE is emitted, from a per-URR counter that only counts up by one': (R1) the counter field " +
		"URRInfo.SEQN is written only in Sess.URRSeq, which returns the old value and stores old+1, and no construction of a URRInfo sets it (starts at 0); (R2) URRSeq is " +
		"called at exactly the three usage-report emission sites (report request, modification response, deletion response); at each, within one loop iteration, the " +
		"call is dominated by the known-URR test, is made on the handler's session with the report's own URR id, its result is stored into that report's URSEQN, and " +
		"that very report value is what the IE builder receives, in the same basic block (no path consumes a number without emitting, or emits without consuming); " +
		"(R3) the counter lives in the per-URR record of the per-session map; the record is deleted only at emission sites, under its removed mark and after the " +
		"emission; Create URR always installs a fresh record."
	c.Undec = []string{"ordering between the three carriers at run time follows from single-goroutine program order (C17)", "go-pfcp's encoding of the UR-SEQN IE"}
	c.Assume = []string{"confinement to the event loop (C17)"}
	p := c.P
	seqF := p.Field(pkgPfcp, "URRInfo", "SEQN")
	urrids := p.Field(pkgPfcp, "Sess", "URRIDs")
	urrSeq := p.Method(pkgPfcp, "Sess", "URRSeq")
	if seqF == nil || urrids == nil || urrSeq == nil {
		c.Anchor("R1", "pfcp.URRInfo.SEQN / pfcp.Sess.URRIDs / pfcp.Sess.URRSeq")
		return
	}
	seqFn := p.SSAFn(urrSeq)

	// R1
	for _, fn := range p.OwnFuncs() {
		for _, st := range storesToField(fn, seqF) {
			c.Check("R1", "counter-writer:"+core.FnName(fn), st.Pos(), fn == seqFn, "the UR-SEQN counter is written only by Sess.URRSeq")
		}
	}
	sts := storesToField(seqFn, seqF)
	if len(sts) != 1 {
		c.Check("R1", "counter-step", seqFn.Pos(), false, fmt.Sprintf("URRSeq stores the counter %d times (want 1)", len(sts)))
	} else {
		st := sts[0]
		info := st.Addr.(*ssa.FieldAddr).X
		add, ok := st.Val.(*ssa.BinOp)
		step := false
		var old ssa.Value
		if ok && add.Op == token.ADD {
			if k, ok := core.ConstInt(add.Y); ok && k == 1 {
				if b, f, ok := core.LoadedField(add.X); ok && f == seqF && b == info {
					step, old = true, add.X
				}
			}
		}
		c.Check("R1", "counter-step", st.Pos(), step, "URRSeq stores old+1")
		// info is the record of the receiver's map under the parameter id
		recOK := false
		if ex, ok := info.(*ssa.Extract); ok && ex.Index == 0 {
			if lk, ok := ex.Tuple.(*ssa.Lookup); ok && core.IsPath(lk.X, core.Recv(seqFn), "URRIDs") && lk.Index == ssa.Value(core.Param(seqFn, 0)) {
				recOK = true
			}
		}
		c.Check("R1", "counter-per-urr", st.Pos(), recOK, "the counter incremented is the one of the receiver session's record for the URR id passed in")
		// returns: old value when found
		core.Instrs(seqFn, func(in ssa.Instruction) {
			r, ok := in.(*ssa.Return)
			if !ok || len(r.Results) != 1 {
				return
			}
			if core.InstrDominates(st, r) {
				same := old != nil && (r.Results[0] == old || sameFieldLoad(r.Results[0], old))
				// the returned load must precede the store
				if ld, ok := r.Results[0].(*ssa.UnOp); ok && same {
					same = core.InstrDominates(ld, st)
				}
				c.Check("R1", "counter-returns-old", r.Pos(), same, "URRSeq returns the value the counter had before the increment")
			}
		})
	}
	// no construction sets SEQN: covered by counter-writer (a composite literal field is a store)

	// R2
	nCalls := 0
	siteFn := map[*ssa.Function]string{}
	for _, e := range emissionSites {
		if fn, _ := emissionFn(p, e.fn, e.ies); fn != nil {
			siteFn[fn] = e.ies
		} else {
			c.Anchor("R2", "pfcp.PfcpServer."+e.fn)
		}
	}
	for _, fn := range p.OwnFuncs() {
		for _, ci := range core.Calls(fn, urrSeq) {
			nCalls++
			_, isSite := siteFn[fn]
			c.Check("R2", "urrseq-caller:"+core.FnName(fn), ci.Pos(), isSite, "UR-SEQN numbers are taken only at the usage-report emission sites")
		}
	}
	c.Check("R2", "urrseq-sites", token.NoPos, nCalls == 3, fmt.Sprintf("%d call sites of URRSeq (exactly 3 emission sites)", nCalls))
	// a number taken for a Session Report Request is not lost between serveUSAReport and the wire: the
	// request is always booked for (re)transmission (shared with C09 R1)
	sendReqAlwaysBooks(c, "R2")
	// ... nor by leaving the emission loop after numbers were handed out (C10 R5 batch isolation)
	shareFrom(c, "C10", "R2", func(o *core.Obligation) bool { return o.Rule == "R5" && strings.Contains(o.Key, "/R5/batch-isolation") }, 3, "emission loops")
	// ... nor are numbers taken twice for one request: a retransmitted Modification/Deletion Request inside the peer's
	// retransmission time is answered from the cache, not executed again with fresh UR-SEQNs (C06 R1/R4)
	shareFrom(c, "C06", "R2", func(o *core.Obligation) bool {
		return (o.Rule == "R4" && strings.Contains(o.Key, "/R4/retention-")) || (o.Rule == "R1" && strings.Contains(o.Key, "/R1/dispatch-iff-new"))
	}, 2, "retransmission rules")
	for fn, iesName := range siteFn {
		checkEmissionSite(c, fn, iesName, urrSeq, urrids)
	}

	// R3: record lifetime
	for _, fn := range p.OwnFuncs() {
		core.Instrs(fn, func(in ssa.Instruction) {
			dc, ok := in.(*ssa.Call)
			if !ok {
				return
			}
			bi, ok := dc.Call.Value.(*ssa.Builtin)
			if !ok || bi.Name() != "delete" {
				return
			}
			if _, f, ok := core.LoadedField(dc.Call.Args[0]); !ok || f != urrids {
				return
			}
			iesName, isSite := siteFn[fn]
			okDel := false
			if isSite {
				// under urrInfo.removed == true, after the IE builder call of the same iteration
				removed := false
				for _, ft := range core.FactsAt(dc.Block()) {
					if _, f, ok := core.LoadedField(ft.V); ok && f.Name() == "removed" && ft.True {
						removed = true
					}
				}
				after := false
				core.Instrs(fn, func(i2 ssa.Instruction) {
					if ci, ok := i2.(ssa.CallInstruction); ok {
						if f := core.Callee(ci); f != nil && f.Name() == iesName && core.InstrDominates(i2, dc) {
							after = true
						}
					}
				})
				okDel = removed && after
			}
			c.Check("R3", "record-dropped:"+core.FnName(fn), dc.Pos(), okDel, "a URR record is deleted only at an emission site, under its removed mark, after its report was emitted (so the final report still gets the next number)")
		})
	}
	// a record is (re)created only for a Create URR IE (an Update URR handed to CreateURR restarts the counter)
	handlerDispatch(c, "R3", map[string]bool{"URR": true})
	// CreateURR installs a fresh record
	if fn := fnOf(c, "R3", pkgPfcp, "Sess", "CreateURR"); fn != nil {
		var freshMu *ssa.MapUpdate
		core.Instrs(fn, func(in ssa.Instruction) {
			if mu, ok := in.(*ssa.MapUpdate); ok && core.IsPath(mu.Map, core.Recv(fn), "URRIDs") {
				if _, isNew := mu.Value.(*ssa.Alloc); isNew {
					freshMu = mu
				}
			}
		})
		fresh := freshMu != nil
		if fresh {
			// on every path that reaches the data plane
			core.Instrs(fn, func(in ssa.Instruction) {
				if ci, ok := in.(ssa.CallInstruction); ok && ci.Common().IsInvoke() && ci.Common().Method.Name() == "CreateURR" && !core.InstrDominates(freshMu, in) {
					fresh = false
				}
			})
		}
		c.Check("R3", "record-fresh", fn.Pos(), fresh, "Create URR installs a newly allocated record on every path that creates the URR (a re-created URR starts again at 0)")
	}
	// the records are written into the session map only by CreateURR
	for _, fn := range p.OwnFuncs() {
		core.Instrs(fn, func(in ssa.Instruction) {
			if mu, ok := in.(*ssa.MapUpdate); ok {
				if _, f, ok := core.LoadedField(mu.Map); ok && f == urrids {
					c.Check("R3", "record-writer:"+core.FnName(fn), mu.Pos(), fn.Name() == "CreateURR", "URR records are installed only by Sess.CreateURR")
				}
			}
		})
	}
}

// checkEmissionSite verifies the shape of one emission loop (C11 R2; profile and addressing for C10).
func checkEmissionSite(c *core.Ctx, fn *ssa.Function, iesName string, urrSeq *types.Func, urrids *types.Var) {
	name := fn.Name()
	calls := core.Calls(fn, urrSeq)
	if len(calls) != 1 {
		c.Check("R2", "emission-shape:"+name, fn.Pos(), false, fmt.Sprintf("%d URRSeq calls in %s (want 1)", len(calls), name))
		return
	}
	sq := calls[0].(*ssa.Call)
	// the IE builder call
	var ies *ssa.Call
	core.Instrs(fn, func(in ssa.Instruction) {
		if cl, ok := in.(*ssa.Call); ok {
			if f := core.Callee(cl); f != nil && f.Name() == iesName {
				ies = cl
			}
		}
	})
	if ies == nil {
		c.Check("R2", "emission-shape:"+name, fn.Pos(), false, "no call of USAReport."+iesName+" in "+name)
		return
	}
	// known-URR test dominates
	var lk *ssa.Lookup
	for _, l := range guardLookups(sq) {
		if _, f, ok := core.LoadedField(l.X); ok && f == urrids {
			lk = l
		}
	}
	c.Check("R2", "known-urr-first:"+name, sq.Pos(), lk != nil, "the number is taken only after the URR was found in the session's records")
	// the report local r
	args := core.CallArgs(sq)
	rb, rf, ok := core.LoadedField(args[0])
	okID := ok && rf.Name() == "URRID"
	var rLocal ssa.Value
	if okID {
		rLocal = rb
	}
	c.Check("R2", "number-for-own-urr:"+name, sq.Pos(), okID && lk != nil && sameFieldLoad(lk.Index, args[0]), "the number is taken for the URR id of the report being emitted (the id that was looked up)")
	// session: the receiver is the handler's session (owner of the looked-up map)
	if lk != nil {
		mb, _, _ := core.LoadedField(lk.X)
		c.Check("R2", "number-from-own-session:"+name, sq.Pos(), core.Unwrap(mb) == core.Unwrap(core.CallRecv(sq)), "the counter of the same session whose records were consulted")
	}
	// result stored to r.URSEQN
	stored := false
	var st *ssa.Store
	for _, r := range *sq.Referrers() {
		if s, ok := r.(*ssa.Store); ok && s.Val == ssa.Value(sq) {
			if fa, ok := s.Addr.(*ssa.FieldAddr); ok && core.FieldOfAddr(fa).Name() == "URSEQN" && fa.X == rLocal {
				stored, st = true, s
			}
		}
	}
	c.Check("R2", "number-into-report:"+name, sq.Pos(), stored, "the number is stored into the URSEQN of that very report")
	// the IE builder gets that report, in the same block, after the store
	recv := core.CallRecv(ies)
	same := false
	if ld, ok := recv.(*ssa.UnOp); ok && ld.Op == token.MUL && st != nil {
		// the report itself, or a whole copy of it taken after the number was stored (a by-value parameter of
		// an expanded helper or literal)
		src := ld.X
		cur := ld
		for i := 0; i < 4 && src != rLocal; i++ {
			al, isAl := src.(*ssa.Alloc)
			if !isAl {
				break
			}
			sv, ok := soleWholeStoreAllowingFields(al)
			if !ok {
				break
			}
			l2, isLd := sv.(*ssa.UnOp)
			if !isLd || l2.Op != token.MUL {
				break
			}
			src, cur = l2.X, l2
		}
		same = src == rLocal && core.InstrDominates(st, cur) && straightLine(sq.Block(), ies.Block())
	}
	c.Check("R2", "emitted-iff-consumed:"+name, ies.Pos(), same, "the IE builder receives that report value in the same basic block: a number is consumed iff an IE is emitted")
	// the IEs end up in the message: flows through the UsageReport constructor into an append
	flows := false
	for _, r := range *ies.Referrers() {
		if cl, ok := r.(*ssa.Call); ok {
			if f := core.Callee(cl); f != nil && strings.HasPrefix(f.Name(), "NewUsageReportWithin") {
				flows = true
			}
		}
	}
	c.Check("R2", "ie-appended:"+name, ies.Pos(), flows, "the IE list is wrapped into a Usage Report IE of the carrier message")
}

func C12(c *core.Ctx) {
	c.Explain = "Final-usage reporting is decided as reference-count pairing plus mark and flow rules that hold for every history of Create/Update/Remove PDR and URR: (R1) every " +
		"function that gives a PDR a URR list also counts the ids that are new for that PDR (refPdrNum++ under the URR-known test; in Update PDR only for ids not previously " +
		"related), every function that takes ids away goes through diassociateURR, and refPdrNum is written nowhere else; (R2) every non-nil report slice leaving RemoveURR / " +
		"diassociateURR / the deletion handler passed a loop OR-ing TERMR into each element, QueryURR likewise with IMMER; (R3) in the modification handler the reports " +
		"returned by RemoveURR, RemovePDR, UpdateURR, UpdatePDR and QueryURR all flow into the slice that feeds that handler's emission loop (same response); (R4) the final " +
		"query in diassociateURR is reachable exactly where the decremented count equals zero; (R5) both the establishment and the modification handler create URRs before " +
		"PDRs (CreatePDR only counts URRs it already knows)."
	c.Undec = []string{"'exactly once' when a URR and its last PDR are removed in one request (relies on the kernel refusing to query a removed URR)",
		"the meaning of an Update PDR without any URR id (today: dissociates all; the statement does not fix it)"}
	c.Assume = []string{"confinement to the event loop (C17)"}
	p := c.P
	refF := p.Field(pkgPfcp, "URRInfo", "refPdrNum")
	relF := p.Field(pkgPfcp, "PDRInfo", "RelatedURRIDs")
	urrids := p.Field(pkgPfcp, "Sess", "URRIDs")
	if refF == nil || relF == nil || urrids == nil {
		c.Anchor("R1", "pfcp.URRInfo.refPdrNum / pfcp.PDRInfo.RelatedURRIDs")
		return
	}
	dis := p.Method(pkgPfcp, "Sess", "diassociateURR")
	disFn := p.SSAFn(dis)

	// R1
	type refStore struct {
		st  *ssa.Store
		inc bool
	}
	byFn := map[*ssa.Function][]refStore{}
	for _, fn := range p.OwnFuncs() {
		for _, st := range storesToField(fn, refF) {
			b, ok := st.Val.(*ssa.BinOp)
			inc := false
			step := false
			if ok && (b.Op == token.ADD || b.Op == token.SUB) {
				if k, ok := core.ConstInt(b.Y); ok && k == 1 {
					if _, f, ok := core.LoadedField(b.X); ok && f == refF {
						step, inc = true, b.Op == token.ADD
					}
				}
			}
			c.Check("R1", fmt.Sprintf("refcount-step:%s#%d", core.FnName(fn), len(byFn[fn])+1), st.Pos(), step, "the reference count changes by exactly one")
			byFn[fn] = append(byFn[fn], refStore{st, inc})
			if step && !inc {
				c.Check("R1", "refcount-dec-site:"+core.FnName(fn), st.Pos(), fn == disFn, "the reference count is decremented only in diassociateURR")
			}
		}
	}
	// functions giving a PDR its URR list
	nGivers := 0
	for _, fn := range p.OwnFuncs() {
		sts := storesToField(fn, relF)
		if len(sts) == 0 {
			continue
		}
		nGivers++
		var incs []refStore
		for _, r := range byFn[fn] {
			if r.inc {
				incs = append(incs, r)
			}
		}
		c.Check("R1", "refcount-pairing:"+core.FnName(fn), sts[0].Pos(), len(incs) >= 1,
			"a function that sets a PDR's URR list also counts the newly related URRs (otherwise removing that PDR later loses the URR's final report)")
		for _, r := range incs {
			// under URR-known test
			known := false
			for _, lk := range guardLookups(r.st) {
				if _, f, ok := core.LoadedField(lk.X); ok && f == urrids {
					known = true
				}
			}
			c.Check("R1", "refcount-known-urr:"+core.FnName(fn), r.st.Pos(), known, "the count is incremented for URRs the session knows")
			// the PDR's URR list is a set: an id named twice in one request is one list entry and may count once only.
			// Accepted: the increment sits in a loop over the keys of a map (distinct by construction), or behind
			// "this id is not yet in the set being built"
			once, why := false, "the increment runs once per URR ID IE although the list it belongs to is a set: a repeated id counts twice, and the count no longer reaches zero when the PDR goes"
			for _, lk := range guardLookups(r.st) {
				if _, f, ok := core.LoadedField(lk.X); !ok || f != urrids {
					continue
				}
				key := lk.Index
				if cv, isConv := key.(*ssa.Convert); isConv {
					key = cv.X
				}
				if ex, isEx := key.(*ssa.Extract); isEx && ex.Index == 1 {
					if nx, isNext := ex.Tuple.(*ssa.Next); isNext && !nx.IsString {
						if rg, isRange := nx.Iter.(*ssa.Range); isRange {
							if _, isMap := rg.X.Type().Underlying().(*types.Map); isMap {
								once = true
							}
						}
					}
				}
				for _, ft := range core.FactsAt(r.st.Block()) {
					ex, isEx := ft.V.(*ssa.Extract)
					if !isEx || ft.True || ex.Index != 1 {
						continue
					}
					if l2, isLk := ex.Tuple.(*ssa.Lookup); isLk && l2.CommaOk && l2 != lk && l2.Index == lk.Index {
						if _, isMk := core.Unwrap(l2.X).(*ssa.MakeMap); isMk {
							once = true
						}
					}
				}
			}
			c.Check("R1", "refcount-once-per-id:"+core.FnName(fn), r.st.Pos(), once, "a URR id counts once per PDR however often the request names it"+map[bool]string{true: "", false: " — " + why}[once])
			// when the PDR already had a list (update): only for ids not previously related
			hadList := false
			core.Instrs(fn, func(in ssa.Instruction) {
				if _, f, ok := core.LoadedField(valueOf(in)); ok && f == relF {
					hadList = true
				}
			})
			if hadList {
				notPrev := false
				for _, ft := range core.FactsAt(r.st.Block()) {
					if ex, ok := ft.V.(*ssa.Extract); ok && !ft.True && ex.Index == 1 {
						if lk, ok := ex.Tuple.(*ssa.Lookup); ok {
							if _, f, ok := core.LoadedField(lk.X); ok && f == relF {
								notPrev = true
							}
						}
					}
				}
				c.Check("R1", "refcount-only-new:"+core.FnName(fn), r.st.Pos(), notPrev, "in an update the count is incremented only for URR ids that were not already related to this PDR")
			}
		}
		// ids taken away go through diassociateURR (update / remove)
	}
	c.Floor("R1", nGivers, 2, "functions that set a PDR's URR list")
	// the list is written into the record the session keeps (the object in s.PDRIDs), not into a copy of it
	pdrids := p.Field(pkgPfcp, "Sess", "PDRIDs")
	for _, fn := range p.OwnFuncs() {
		for k, st := range storesToField(fn, relF) {
			fa := st.Addr.(*ssa.FieldAddr)
			kept := false
			switch b := fa.X.(type) {
			case *ssa.Alloc:
				// a new record: it (or its address) is entered in the table
				for _, r := range *b.Referrers() {
					if mu, ok := r.(*ssa.MapUpdate); ok && mu.Value == ssa.Value(b) {
						if _, f, ok := core.LoadedField(mu.Map); ok && f == pdrids {
							kept = true
						}
					}
					if ld, ok := r.(*ssa.UnOp); ok && ld.Op == token.MUL {
						for _, r2 := range *ld.Referrers() {
							if mu, ok := r2.(*ssa.MapUpdate); ok && mu.Value == ssa.Value(ld) && core.Reaches(st, mu) {
								if _, f, ok := core.LoadedField(mu.Map); ok && f == pdrids {
									kept = true
								}
							}
						}
					}
				}
			default:
				// an existing record reached through the table (a pointer looked up in s.PDRIDs)
				if ex, ok := core.Unwrap(fa.X).(*ssa.Extract); ok {
					if lk, ok := ex.Tuple.(*ssa.Lookup); ok {
						if _, f, ok := core.LoadedField(lk.X); ok && f == pdrids {
							kept = true
						}
					}
				}
				if lk, ok := core.Unwrap(fa.X).(*ssa.Lookup); ok {
					if _, f, ok := core.LoadedField(lk.X); ok && f == pdrids {
						kept = true
					}
				}
			}
			c.Check("R1", fmt.Sprintf("list-kept:%s#%d", core.FnName(fn), k+1), st.Pos(), kept,
				"the URR list is stored in the PDR record that the session's table holds (a store into a local copy is lost: the PDR keeps its old list for every later update or removal)")
		}
	}
	for _, m := range []string{"UpdatePDR", "RemovePDR"} {
		fn := fnOf(c, "R1", pkgPfcp, "Sess", m)
		if fn == nil {
			continue
		}
		calls := core.Calls(fn, dis)
		okLoop := false
		for _, ci := range calls {
			// argument is a key of a range over the PDR's old URR list
			if ex, ok := core.CallArgs(ci)[0].(*ssa.Extract); ok && ex.Index == 1 {
				if nx, ok := ex.Tuple.(*ssa.Next); ok {
					if rng, ok := nx.Iter.(*ssa.Range); ok {
						if _, f, ok := core.LoadedField(rng.X); ok && f == relF {
							okLoop = true
						}
					}
				}
			}
		}
		c.Check("R1", "detach-through-dissociate:"+m, fn.Pos(), okLoop, "Sess."+m+" dissociates the URRs of the PDR's current list through diassociateURR")
		// the bookkeeping is committed only after the data plane accepted the change: a failed
		// Update/Remove PDR leaves the PDR in place, so its URRs are still referenced by it
		var drv ssa.CallInstruction
		core.Instrs(fn, func(in ssa.Instruction) {
			if ci, ok := in.(ssa.CallInstruction); ok && ci.Common().IsInvoke() && ci.Common().Method.Name() == m {
				drv = ci
			}
		})
		if drv == nil {
			c.Check("R1", "detach-after-driver:"+m, fn.Pos(), false, "Sess."+m+" does not call Driver."+m)
			continue
		}
		var derr ssa.Value
		if v := drv.Value(); v != nil {
			if types.Identical(v.Type(), types.Universe.Lookup("error").Type()) {
				derr = v
			}
			for _, r := range *v.Referrers() {
				if ex, ok := r.(*ssa.Extract); ok && types.Identical(ex.Type(), types.Universe.Lookup("error").Type()) {
					derr = ex
				}
			}
		}
		var commits []ssa.Instruction
		for _, ci := range calls {
			commits = append(commits, ci.(ssa.Instruction))
		}
		for _, st := range storesToField(fn, refF) {
			commits = append(commits, st)
		}
		for _, st := range storesToField(fn, relF) {
			commits = append(commits, st)
		}
		for i, in := range commits {
			after := core.InstrDominates(drv.(ssa.Instruction), in) && derr != nil && nilKnownLoc(fn, in.Block(), derr, true)
			c.Check("R1", fmt.Sprintf("detach-after-driver:%s#%d", m, i+1), in.Pos(), after,
				"reference counts, URR lists and final queries of Sess."+m+" change only after Driver."+m+" returned without error")
		}
	}

	// R2 marks
	for _, m := range []struct {
		fn   string
		mark int64
		name string
	}{{"RemoveURR", 1 << 11, "TERMR"}, {"diassociateURR", 1 << 11, "TERMR"}, {"QueryURR", 1 << 7, "IMMER"}} {
		fn := fnOf(c, "R2", pkgPfcp, "Sess", m.fn)
		if fn == nil {
			continue
		}
		checkMarkLoop(c, fn, m.mark, m.name)
	}
	if fn := fnOf(c, "R2", pkgPfcp, "PfcpServer", "handleSessionDeletionRequest"); fn != nil {
		// r.USARTrigger.Flags |= TERMR before the IE builder, in the emission block
		marked := false
		core.Instrs(fn, func(in ssa.Instruction) {
			st, ok := in.(*ssa.Store)
			if !ok {
				return
			}
			or, ok := st.Val.(*ssa.BinOp)
			if !ok || or.Op != token.OR {
				return
			}
			if k, ok := core.ConstInt(or.Y); ok && k == 1<<11 {
				core.Instrs(fn, func(i2 ssa.Instruction) {
					if cl, ok := i2.(*ssa.Call); ok {
						if f := core.Callee(cl); f != nil && f.Name() == "IEsWithinSessDelRsp" && core.InstrDominates(st, cl) && cl.Block() == st.Block() {
							marked = true
						}
					}
				})
			}
		})
		c.Check("R2", "mark:handleSessionDeletionRequest:TERMR", fn.Pos(), marked, "every usage report in the Session Deletion Response is marked TERMR before it is encoded")
	}

	// R3 same response
	if hfn := fnOf(c, "R3", pkgPfcp, "PfcpServer", "handleSessionModificationRequest"); hfn != nil {
		fn, env := emissionFn(p, "handleSessionModificationRequest", "IEsWithinSessModRsp")
		// range operand of the emission loop: the slice indexed where r is loaded for URRSeq
		var emitted ssa.Value
		for _, ci := range core.Calls(fn, p.Method(pkgPfcp, "Sess", "URRSeq")) {
			rb, _, ok := core.LoadedField(core.CallArgs(ci)[0])
			if !ok {
				continue
			}
			// rb is the local r; find the store *r = usars[i]
			if al, ok := rb.(*ssa.Alloc); ok {
				for _, r := range *al.Referrers() {
					if st, ok := r.(*ssa.Store); ok && st.Addr == ssa.Value(al) {
						if ld, ok := st.Val.(*ssa.UnOp); ok {
							if ia, ok := ld.X.(*ssa.IndexAddr); ok {
								emitted = ia.X
							}
						}
					}
				}
			}
		}
		if par, isPar := emitted.(*ssa.Parameter); isPar && env != nil {
			emitted = env[par] // the loop lives in a helper: continue with the handler's argument
		}
		if emitted == nil {
			c.Undecided("R3", "emission-source", fn.Pos(), "cannot find the slice the emission loop ranges over")
		} else {
			src := map[string]bool{}
			seen := map[ssa.Value]bool{}
			var walk func(v ssa.Value, d int)
			walk = func(v ssa.Value, d int) {
				if v == nil || seen[v] || d > 40 {
					return
				}
				seen[v] = true
				switch x := v.(type) {
				case *ssa.Phi:
					for _, e := range x.Edges {
						walk(e, d+1)
					}
				case *ssa.Call:
					if bi, ok := x.Call.Value.(*ssa.Builtin); ok && bi.Name() == "append" {
						for _, a := range x.Call.Args {
							walk(a, d+1)
						}
					}
				case *ssa.UnOp:
					// the list lives in a variable cell (captured by a local closure such as
					// addUsars := func(rs) { usars = append(usars, rs...) }): everything ever stored there
					cell := x.X
					if fv, isFV := cell.(*ssa.FreeVar); isFV {
						if b, ok := freeVarCell(fv); ok {
							cell = b
						}
					}
					al, isAl := cell.(*ssa.Alloc)
					if !isAl {
						return
					}
					for _, r := range *al.Referrers() {
						switch y := r.(type) {
						case *ssa.Store:
							if y.Addr == ssa.Value(al) {
								walk(y.Val, d+1)
							}
						case *ssa.MakeClosure:
							cf, _ := y.Fn.(*ssa.Function)
							if cf == nil {
								continue
							}
							for i, b := range y.Bindings {
								if b != ssa.Value(al) || i >= len(cf.FreeVars) {
									continue
								}
								for _, fr := range *cf.FreeVars[i].Referrers() {
									if st, ok := fr.(*ssa.Store); ok && st.Addr == ssa.Value(cf.FreeVars[i]) {
										walk(st.Val, d+1)
									}
								}
							}
						}
					}
				case *ssa.Parameter:
					// parameter of a local closure: the arguments of its calls
					cf := x.Parent()
					if cf == nil || cf.Parent() == nil {
						return
					}
					idx := -1
					for i, pp := range cf.Params {
						if pp == x {
							idx = i
						}
					}
					core.Instrs(cf.Parent(), func(in ssa.Instruction) {
						cl, ok := in.(*ssa.Call)
						if !ok || idx < 0 || idx >= len(cl.Call.Args) {
							return
						}
						if mc, ok := core.Unwrap(cl.Call.Value).(*ssa.MakeClosure); ok && mc.Fn == ssa.Value(cf) {
							walk(cl.Call.Args[idx], d+1)
						}
					})
				case *ssa.Extract:
					if cl, ok := x.Tuple.(*ssa.Call); ok {
						if f := core.Callee(cl); f != nil {
							src[f.Name()] = true
						}
					}
				}
			}
			walk(emitted, 0)
			for _, m := range []string{"RemoveURR", "RemovePDR", "UpdateURR", "UpdatePDR", "QueryURR"} {
				c.Check("R3", "same-response:"+m, fn.Pos(), src[m], "the usage reports returned by Sess."+m+" flow into the usage-report list of the same Session Modification Response")
			}
		}
	}

	// R4 final query at zero
	if disFn != nil {
		for _, ci := range core.CallsMatching(disFn, func(f *types.Func) bool { return f.Name() == "QueryURR" }) {
			atZero := false
			for _, eq := range eqFacts(ci.(ssa.Instruction).Block()) {
				if k, ok := core.ConstInt(eq[1]); ok && k == 0 {
					if _, f, ok := core.LoadedField(eq[0]); ok && f == refF {
						// the compared load comes after the decrement
						ld, _ := eq[0].(ssa.Instruction)
						for _, r := range byFn[disFn] {
							if !r.inc && ld != nil && core.InstrDominates(r.st, ld) {
								atZero = true
							}
						}
					}
				}
			}
			c.Check("R4", "final-query-at-zero", ci.Pos(), atZero, "the final usage query runs exactly when the decremented reference count reached zero (last PDR detached)")
		}
	}

	// R3: each report of the response is encoded and its record dropped from ITS OWN data (no value carried
	// over from another report of the loop, no late closure seeing the last report only)
	independentIterations(c, "R3", handlerFns(p))
	// R4: what the final query measured is what comes back: the driver's conversion loops keep every report
	// the data plane returned (C10 R1 conv-total), so an idle URR still yields its (zero) termination report
	if f10, ok := Registry["C10"]; ok {
		sub, _ := core.NewCtx(c.P, "C10", c.Tier, c.Seed, c.OutDir, "")
		f10(sub)
		n := 0
		for _, o := range sub.Obls {
			if strings.Contains(o.Key, "/R1/conv-total:") {
				n++
				c.Check("R4", "final-report-kept:"+o.Key[strings.Index(o.Key, "conv-total:")+len("conv-total:"):], token.NoPos, o.OK, o.Desc+" (C10 R1)")
			}
		}
		c.Floor("R4", n, 3, "report conversion loops")
	}

	// R6: "when its session is deleted": every way a session ends closes it, and closing removes each URR
	// through Remove URR, whose reports are the final ones (session-end rules shared with C01 R5/R6)
	if calls, _ := driverCalls(c); calls != nil {
		sets := idSets(c, calls)
		renameRule(c, "R5", "R6", func() { c01Close(c, sets) })
		c01EndPaths(c, "R6", false)
	}
	// R7: "the usage measured so far is returned": the final report carries its Volume/Duration Measurement IEs — the
	// response encoders append them under the URR's measurement method alone (C10 R2), and the stored method and
	// information survive an Update URR that does not carry them (C10 R3)
	shareFrom(c, "C10", "R7", func(o *core.Obligation) bool {
		return (o.Rule == "R2" && strings.Contains(o.Key, "/R2/ie-builder:")) || (o.Rule == "R3" && strings.Contains(o.Key, "/R3/profile-update-if-present:"))
	}, 3, "report encoders and profile updates")
	// ... and a URR is forgotten only under its removed mark: forgotten early (or never), its final report at the
	// end of the session is lost (C11 R3)
	shareFrom(c, "C11", "R7", func(o *core.Obligation) bool { return o.Rule == "R3" && strings.Contains(o.Key, "/R3/record-dropped") }, 2, "places that drop a URR record")
	// R5 creation order in the handlers
	for _, h := range []string{"handleSessionEstablishmentRequest", "handleSessionModificationRequest"} {
		fn := fnOf(c, "R5", pkgPfcp, "PfcpServer", h)
		if fn == nil {
			continue
		}
		cu := core.Calls(fn, p.Method(pkgPfcp, "Sess", "CreateURR"))
		cp := core.Calls(fn, p.Method(pkgPfcp, "Sess", "CreatePDR"))
		okOrder := len(cu) == 1 && len(cp) == 1
		if okOrder {
			// every path to the CreatePDR call has passed the CreateURR loop: the URR loop's header dominates the PDR call and the PDR call cannot reach the URR call
			okOrder = !core.Reaches(cp[0].(ssa.Instruction), cu[0].(ssa.Instruction)) && loopHeaderOf(cu[0].(ssa.Instruction)).Dominates(cp[0].(ssa.Instruction).Block())
		}
		c.Check("R5", "urr-before-pdr:"+h, fn.Pos(), okOrder, "URRs of a request are created before its PDRs, so that CreatePDR can count the references")
	}
}

func valueOf(in ssa.Instruction) ssa.Value {
	if v, ok := in.(ssa.Value); ok {
		return v
	}
	return nil
}

// loopHeaderOf returns the innermost block that dominates in's block and is a loop header
// (has a predecessor it dominates); falls back to in's block.
func loopHeaderOf(in ssa.Instruction) *ssa.BasicBlock {
	for b := in.Block(); b != nil; b = b.Idom() {
		for _, p := range b.Preds {
			// natural loop of back edge p->b: blocks that reach p without passing through b
			if b.Dominates(p) && (in.Block() == b || reachesAvoiding(in.Block(), p, b)) {
				return b
			}
		}
	}
	return in.Block()
}

func reachesAvoiding(from, to, avoid *ssa.BasicBlock) bool {
	seen := map[*ssa.BasicBlock]bool{avoid: true}
	stack := []*ssa.BasicBlock{from}
	for len(stack) > 0 {
		b := stack[len(stack)-1]
		stack = stack[:len(stack)-1]
		if b == to {
			return true
		}
		if seen[b] {
			continue
		}
		seen[b] = true
		stack = append(stack, b.Succs...)
	}
	return false
}

func reachesBlock(from, to *ssa.BasicBlock) bool {
	seen := map[*ssa.BasicBlock]bool{}
	stack := []*ssa.BasicBlock{from}
	for len(stack) > 0 {
		b := stack[len(stack)-1]
		stack = stack[:len(stack)-1]
		if b == to {
			return true
		}
		if seen[b] {
			continue
		}
		seen[b] = true
		stack = append(stack, b.Succs...)
	}
	return false
}

// checkMarkLoop: every report slice returned non-nil by fn comes from the driver call and each of its
// elements was OR-ed with `mark` (a loop over that very slice lies between the call and the return).
func checkMarkLoop(c *core.Ctx, fn *ssa.Function, mark int64, name string) {
	var drv *ssa.Call
	core.Instrs(fn, func(in ssa.Instruction) {
		if cl, ok := in.(*ssa.Call); ok && cl.Common().IsInvoke() && ruleMethod.MatchString(cl.Common().Method.Name()) {
			if res := cl.Common().Method.Type().(*types.Signature).Results(); res.Len() == 2 {
				drv = cl
			}
		}
	})
	if drv == nil {
		c.Undecided("R2", "mark:"+fn.Name(), fn.Pos(), "no driver call returning reports")
		return
	}
	var reports ssa.Value
	for _, r := range *drv.Referrers() {
		if ex, ok := r.(*ssa.Extract); ok && ex.Index == 0 {
			reports = ex
		}
	}
	// the marking store: elem.USARTrigger.Flags |= mark with elem = &reports[i]
	var markSt *ssa.Store
	core.Instrs(fn, func(in ssa.Instruction) {
		st, ok := in.(*ssa.Store)
		if !ok {
			return
		}
		or, ok := st.Val.(*ssa.BinOp)
		if !ok || or.Op != token.OR {
			return
		}
		if k, ok := core.ConstInt(or.Y); !ok || k != mark {
			return
		}
		// address roots at &reports[i]
		a := st.Addr
		for i := 0; i < 4; i++ {
			if fa, ok := a.(*ssa.FieldAddr); ok {
				a = fa.X
			}
		}
		if ia, ok := a.(*ssa.IndexAddr); ok && ia.X == reports {
			markSt = st
		}
	})
	// ... or the marking is done by an own helper `mark(list, flags)` whose body is that loop over its slice
	// parameter OR-ing its flags parameter: then the call (with the driver's list and the constant) is the marker
	var markCall ssa.Instruction
	core.Instrs(fn, func(in ssa.Instruction) {
		cl, ok := in.(*ssa.Call)
		if !ok || cl.Call.IsInvoke() {
			return
		}
		h := core.StaticFn(cl)
		if h == nil || h.Blocks == nil || !c.P.IsOwnFn(h) || h.Signature.Results().Len() != 0 {
			return
		}
		li, fi := -1, -1
		core.Instrs(h, func(hin ssa.Instruction) {
			st, ok := hin.(*ssa.Store)
			if !ok {
				return
			}
			or, ok := st.Val.(*ssa.BinOp)
			if !ok || or.Op != token.OR {
				return
			}
			fp, isP := or.Y.(*ssa.Parameter)
			if !isP {
				return
			}
			a := st.Addr
			for i := 0; i < 4; i++ {
				if fa, ok := a.(*ssa.FieldAddr); ok {
					a = fa.X
				}
			}
			ia, ok := a.(*ssa.IndexAddr)
			if !ok {
				return
			}
			lp, isP2 := ia.X.(*ssa.Parameter)
			if !isP2 || !inAnyLoop(st) {
				return
			}
			// the store writes back the very field it read (x |= flags)
			if ld, ok := or.X.(*ssa.UnOp); !ok || !sameAddr(ld.X, st.Addr) {
				return
			}
			for i, pp := range h.Params {
				if pp == lp {
					li = i
				}
				if pp == fp {
					fi = i
				}
			}
		})
		if li < 0 || fi < 0 || li >= len(cl.Call.Args) || fi >= len(cl.Call.Args) {
			return
		}
		if k, ok := core.ConstInt(cl.Call.Args[fi]); ok && k == mark && cl.Call.Args[li] == reports {
			markCall = cl
		}
	})
	n := 0
	core.Instrs(fn, func(in ssa.Instruction) {
		r, ok := in.(*ssa.Return)
		if !ok || len(r.Results) != 2 {
			return
		}
		if core.IsNilConst(r.Results[0]) {
			return
		}
		n++
		okRet := r.Results[0] == reports && markSt != nil
		if okRet {
			// the loop (header of the mark store) lies on every path from the driver call to this return
			okRet = loopHeaderOf(markSt).Dominates(r.Block()) && core.InstrDominates(drv, markSt)
		}
		if !okRet && r.Results[0] == reports && markCall != nil {
			okRet = core.InstrDominates(markCall, r) && core.InstrDominates(drv, markCall)
		}
		c.Check("R2", fmt.Sprintf("mark:%s:%s#%d", fn.Name(), name, n), r.Pos(), okRet,
			"the reports returned are the driver's, each OR-ed with "+name+" by a loop that every path to this return passes")
	})
	if fn.Signature.Results().Len() == 1 {
		// diassociateURR returns only the slice
		core.Instrs(fn, func(in ssa.Instruction) {
			r, ok := in.(*ssa.Return)
			if !ok || len(r.Results) != 1 || core.IsNilConst(r.Results[0]) {
				return
			}
			n++
			okRet := r.Results[0] == reports && markSt != nil && loopHeaderOf(markSt).Dominates(r.Block()) && core.InstrDominates(drv, markSt)
			if !okRet && r.Results[0] == reports && markCall != nil {
				okRet = core.InstrDominates(markCall, r) && core.InstrDominates(drv, markCall)
			}
			c.Check("R2", fmt.Sprintf("mark:%s:%s#%d", fn.Name(), name, n), r.Pos(), okRet,
				"the reports returned are the driver's, each OR-ed with "+name+" by a loop that every path to this return passes")
		})
	}
	c.Floor("R2", n, 1, "report-returning exits of "+fn.Name())
}

// inNaturalLoop: block b belongs to the natural loop of header hdr (it reaches a back-edge predecessor of
// hdr without passing through hdr).
func inNaturalLoop(b, hdr *ssa.BasicBlock) bool {
	if b == hdr {
		return true
	}
	if !hdr.Dominates(b) {
		return false
	}
	for _, p := range hdr.Preds {
		if hdr.Dominates(p) && (b == p || reachesAvoiding(b, p, hdr)) {
			return true
		}
	}
	return false
}

// sameAddr: two address computations denote the same location (go/ssa does not share them):
// the same value, or field/index addresses of the same field/index over the same base.
func sameAddr(a, b ssa.Value) bool {
	if a == b {
		return true
	}
	switch x := a.(type) {
	case *ssa.FieldAddr:
		y, ok := b.(*ssa.FieldAddr)
		return ok && x.Field == y.Field && sameAddr(x.X, y.X)
	case *ssa.IndexAddr:
		y, ok := b.(*ssa.IndexAddr)
		return ok && x.Index == y.Index && sameAddr(x.X, y.X)
	}
	return false
}

// emissionFn resolves the function holding the emission loop of handler `handler` for the IE builder
// `ies`: the handler itself, or an own helper that calls the builder and is called from that handler only
// (a long handler split into functions). env maps the helper's parameters to the handler's arguments.
func emissionFn(p *core.Program, handler, ies string) (*ssa.Function, map[*ssa.Parameter]ssa.Value) {
	h := p.SSAFn(p.Method(pkgPfcp, "PfcpServer", handler))
	if h == nil {
		return nil, nil
	}
	calls := func(f *ssa.Function) bool {
		found := false
		core.Instrs(f, func(in ssa.Instruction) {
			if cl, ok := in.(*ssa.Call); ok {
				if g := core.Callee(cl); g != nil && g.Name() == ies {
					found = true
				}
			}
		})
		return found
	}
	if calls(h) {
		return h, nil
	}
	var helper *ssa.Function
	var site *ssa.Call
	core.Instrs(h, func(in ssa.Instruction) {
		if cl, ok := in.(*ssa.Call); ok && !cl.Call.IsInvoke() {
			if g := core.StaticFn(cl); g != nil && g.Blocks != nil && p.IsOwnFn(g) && calls(g) {
				helper, site = g, cl
			}
		}
	})
	if helper == nil {
		return h, nil
	}
	// called from this handler only
	for _, e := range p.Callers(helper) {
		if e.Caller.Func != h {
			return h, nil
		}
	}
	env := map[*ssa.Parameter]ssa.Value{}
	for i, par := range helper.Params {
		if i < len(site.Call.Args) {
			env[par] = site.Call.Args[i]
		}
	}
	return helper, env
}

// freeVarCell returns the variable cell (Alloc in the enclosing function) a free variable is bound to.
func freeVarCell(fv *ssa.FreeVar) (ssa.Value, bool) {
	fn := fv.Parent()
	if fn == nil || fn.Parent() == nil {
		return nil, false
	}
	idx := -1
	for i, v := range fn.FreeVars {
		if v == fv {
			idx = i
		}
	}
	var out ssa.Value
	core.Instrs(fn.Parent(), func(in ssa.Instruction) {
		if mc, ok := in.(*ssa.MakeClosure); ok && mc.Fn == ssa.Value(fn) && idx >= 0 && idx < len(mc.Bindings) {
			out = mc.Bindings[idx]
		}
	})
	return out, out != nil
}

// straightLine: b is a, or follows it through unconditional jumps only (no branch in between, nothing joins).
func straightLine(a, b *ssa.BasicBlock) bool {
	for i := 0; i < 16; i++ {
		if a == b {
			return true
		}
		if len(a.Succs) != 1 || len(a.Succs[0].Preds) != 1 {
			return false
		}
		a = a.Succs[0]
	}
	return false
}

// soleWholeStoreAllowingFields: the local receives exactly one whole-value store (it may be modified field by
// field afterwards: the copy still started out as that value).
func soleWholeStoreAllowingFields(a *ssa.Alloc) (ssa.Value, bool) {
	var val ssa.Value
	n := 0
	for _, r := range *a.Referrers() {
		if st, ok := r.(*ssa.Store); ok && st.Addr == ssa.Value(a) {
			n++
			val = st.Val
		}
	}
	return val, n == 1
}
