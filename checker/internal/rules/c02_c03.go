package rules

import (
	_ "embed"
	"encoding/json"
	"fmt"
	"go/ast"
	"go/token"
	"go/types"
	"sort"
	"strings"

	"golang.org/x/tools/go/ssa"

	"upfcheck/internal/core"
)

func init() {
	Registry["C02"] = C02
	Registry["C03"] = C03
}

//go:embed reftable.json
var refTableJSON []byte

type refRow struct {
	attrRow
	TruncOK bool   `json:"truncOK"`
	Note    string `json:"note"`
}

func refTable() []refRow {
	var rows []refRow
	if err := json.Unmarshal(refTableJSON, &rows); err != nil {
		panic(err)
	}
	return rows
}

var pdrFarFns = []string{"CreatePDR", "UpdatePDR", "newPdi", "newSdfFilter", "newForwardingParameter", "CreateFAR", "UpdateFAR"}
var qerUrrBarFns = []string{"CreateQER", "UpdateQER", "newVolumeThreshold", "newVolumeQuota", "CreateURR", "UpdateURR", "CreateBAR", "UpdateBAR"}
var flowFns = []string{"newFlowDesc"}

var oidDecoder = map[string]string{"PDR": "DecodePDR", "FAR": "DecodeFAR", "QER": "DecodeQER", "URR": "DecodeURR", "BAR": "DecodeBAR"}

type tabEnv struct {
	c       *core.Ctx
	rows    map[string][]attrRow // by function
	fns     map[string]*ssa.Function
	readers map[string]*readerTable
	probs   []string
}

func newTabEnv(c *core.Ctx) *tabEnv {
	e := &tabEnv{c: c, rows: map[string][]attrRow{}, fns: map[string]*ssa.Function{}, readers: readerTables(c.P)}
	for _, fn := range builderFns(c.P) {
		x := newExtractor(c.P, fn)
		rows, pr := x.extract()
		sortRows(rows)
		e.rows[fn.Name()] = rows
		e.fns[fn.Name()] = fn
		e.probs = append(e.probs, pr...)
	}
	return e
}

// decoderOfFn: the reader function that decodes the attribute list built by fn.
func (e *tabEnv) decoderOfFn(fn string, depth int) string {
	if depth > 20 {
		return ""
	}
	f := e.fns[fn]
	if f == nil {
		return ""
	}
	// handed to gtp5gnl.<Verb><Kind>OID
	dec := ""
	core.Instrs(f, func(in ssa.Instruction) {
		if ci, ok := in.(ssa.CallInstruction); ok {
			if cal := core.Callee(ci); cal != nil && cal.Pkg() != nil && cal.Pkg().Path() == core.PkgGtp5gnl && strings.HasSuffix(cal.Name(), "OID") {
				for k, d := range oidDecoder {
					if strings.HasSuffix(strings.TrimSuffix(cal.Name(), "OID"), k) && (strings.HasPrefix(cal.Name(), "Create") || strings.HasPrefix(cal.Name(), "Update")) {
						dec = d
					}
				}
			}
		}
	})
	if dec != "" {
		return dec
	}
	// consumed as the value of an attribute in a caller
	for g, rows := range e.rows {
		for _, r := range rows {
			if r.Src == "builder:"+fn {
				if outer := e.decoderOfRow(g, r, depth+1); outer != "" {
					if rt := e.readers[outer]; rt != nil {
						if arm, ok := rt.Arms[r.Const]; ok && arm.Nested != "" {
							return arm.Nested
						}
					}
				}
			}
		}
	}
	return ""
}

// decoderOfRow: the reader function whose switch must know the row's attribute constant.
func (e *tabEnv) decoderOfRow(fn string, r attrRow, depth int) string {
	if depth > 20 {
		return ""
	}
	if r.Parent != "" {
		// literal nesting: the decoder the parent's arm calls
		for _, pr := range e.rows[fn] {
			if pr.Const == r.Parent && pr.Kind == "nest" {
				if outer := e.decoderOfRow(fn, pr, depth+1); outer != "" {
					if rt := e.readers[outer]; rt != nil {
						return rt.Arms[r.Parent].Nested
					}
				}
			}
		}
		return ""
	}
	// local accumulator used as the value of another attribute of the same function
	for _, pr := range e.rows[fn] {
		if pr.Src == "var:"+r.List && pr.Kind == "nest" {
			if outer := e.decoderOfRow(fn, pr, depth+1); outer != "" {
				if rt := e.readers[outer]; rt != nil {
					return rt.Arms[pr.Const].Nested
				}
			}
			return ""
		}
	}
	return e.decoderOfFn(fn, depth+1)
}

// checkTables runs R1 (namespace/nesting), R2 (reference + siblings), R3 (width) for a function set.
func (e *tabEnv) checkTables(fns []string, siblings [][2]string) {
	c := e.c
	p := c.P
	ref := map[string]refRow{}
	refByFn := map[string]int{}
	for _, r := range refTable() {
		ref[r.key()] = r
		refByFn[r.Fn]++
	}
	for _, pr := range e.probs {
		c.Undecided("R2", "extraction:"+pr, token.NoPos, pr)
	}
	nRows := 0
	for _, fn := range fns {
		rows, ok := e.rows[fn]
		if !ok {
			c.Anchor("R2", "builder function forwarder."+fn)
			continue
		}
		seen := map[string]bool{}
		for _, r := range rows {
			nRows++
			id := fn + ":" + r.Const
			if r.Guards != "" {
				id += "[" + r.Guards + "]"
			}
			// R1 namespace / nesting
			dec := e.decoderOfRow(fn, r, 0)
			if dec == "" {
				c.Undecided("R1", "decoder-of:"+id, r.pos, "cannot determine which reader decodes this attribute list")
			} else if rt := e.readers[dec]; rt == nil {
				c.Undecided("R1", "decoder-of:"+id, r.pos, "reader "+dec+" not found in go-gtp5gnl")
			} else {
				_, known := rt.Arms[r.Const]
				sameGroup := r.constObj != nil && constDecl(p, r.constObj) == rt.Decl && rt.Decl != nil
				desc := fmt.Sprintf("attribute %s is written at the nesting level that %s reads", r.Const, dec)
				if !known && sameGroup {
					desc += " (the reader has no arm for it: ignored by the reference decoder, same constant group)"
				}
				c.Check("R1", "namespace:"+id, r.pos, known || sameGroup, desc+" — attribute groups share numeric values, a constant of another group would be decoded as a different attribute")
				// R3 reader width
				if arm, ok := rt.Arms[r.Const]; ok && known {
					c.Check("R3", "reader-kind:"+id, r.pos, kindCompatible(r, arm.Width), fmt.Sprintf("written as %s, read as %s", r.Kind, arm.Width))
				}
			}
			// R2 reference
			k := r.key()
			seen[k] = true
			rr, inRef := ref[k]
			if !inRef {
				// an attribute the transcribed table does not know (e.g. a newly supported IE): decided by the generic
				// rules only (namespace/nesting above, width below); listed, not alarmed.  A row that was MOVED or
				// re-keyed shows up as a missing reference row below.
				c.Observe("%s: attribute row (case %s, guards %q) <- %s is not in the transcribed reference table; only the generic rules were applied", id, r.Cases, r.Guards, r.Src)
				if r.Dropped != "" {
					c.Check("R3", "width:"+r.Const+":"+fn, r.pos, false, r.Dropped+" — the value does not reach the kernel intact")
				}
				continue
			}
			c.Check("R2", "reference:"+id, r.pos, rr.Kind == r.Kind && rr.Src == r.Src,
				fmt.Sprintf("%s %s <- %s (reference: %s <- %s)", r.Const, r.Kind, r.Src, rr.Kind, rr.Src))
			// R3 truncation
			if r.Dropped != "" {
				if rr.TruncOK {
					if rr.Note != "" {
						c.Observe("%s: %s (%s)", id, r.Dropped, rr.Note)
					}
				} else {
					c.Check("R3", "width:"+r.Const+":"+fn, r.pos, false, r.Dropped+" — the value does not reach the kernel intact")
				}
			} else if r.width > 0 {
				c.Check("R3", "width:"+r.Const+":"+fn, r.pos, true, fmt.Sprintf("no significant source bit is cut off by the %d-bit attribute", r.width))
			}
		}
		// rows of the reference that the function no longer writes
		for k, rr := range ref {
			if rr.Fn == fn && !seen[k] {
				c.Check("R2", "reference-missing:"+fn+":"+rr.Const+"["+rr.Guards+"]", e.fns[fn].Pos(), false,
					fmt.Sprintf("reference row %s (case %s, guards %q) is no longer written by %s", rr.Const, rr.Cases, rr.Guards, fn))
			}
		}
		c.Check("R2", "row-count:"+fn, e.fns[fn].Pos(), len(rows) >= refByFn[fn], fmt.Sprintf("%d attribute literals (reference %d)", len(rows), refByFn[fn]))
	}
	c.Extra["attribute_literals"] = nRows
	// sibling agreement
	for _, s := range siblings {
		a, b := e.rows[s[0]], e.rows[s[1]]
		refConsts := map[string]bool{}
		for _, rr := range ref {
			if rr.Fn == s[0] || rr.Fn == s[1] {
				refConsts[rr.Const] = true
			}
		}
		norm := func(rows []attrRow) map[string]string {
			m := map[string]string{}
			for _, r := range rows {
				if r.Const == "PDR_UNIX_SOCKET_PATH" {
					continue // create only: the socket the kernel sends buffered packets to
				}
				if !refConsts[r.Const] {
					continue // attribute outside the transcribed content: observed above, not compared
				}
				cs := strings.Replace(r.Cases, "UpdateForwardingParameters", "ForwardingParameters", 1)
				m[r.Const+"|"+r.Parent+"|"+cs+"|"+r.Guards] = r.Kind + " " + r.Src
			}
			return m
		}
		ma, mb := norm(a), norm(b)
		var diffs []string
		for k, v := range ma {
			if mb[k] != v {
				diffs = append(diffs, k)
			}
		}
		for k := range mb {
			if _, ok := ma[k]; !ok {
				diffs = append(diffs, k)
			}
		}
		sort.Strings(diffs)
		pos := token.NoPos
		if f := e.fns[s[1]]; f != nil {
			pos = f.Pos()
		}
		c.Check("R2", "siblings:"+s[0]+"/"+s[1], pos, len(diffs) == 0, fmt.Sprintf("Create and Update builders translate the same IEs the same way (differences: %v)", diffs))
	}
}

func kindCompatible(r attrRow, reader string) bool {
	if reader == "?" {
		return true
	}
	switch r.Kind {
	case "nest":
		return reader == "nest"
	case "string":
		return reader == "string"
	case "bytes":
		return reader == "bytes" || reader == "u32" // port lists are read word by word
	}
	if strings.HasPrefix(r.Kind, "u") && strings.HasPrefix(reader, "u") {
		// little-endian: the reader takes the low octets of what was written; the value must fit both
		var w, rd int
		fmt.Sscanf(r.Kind, "u%d", &w)
		fmt.Sscanf(reader, "u%d", &rd)
		if w < rd {
			return false
		}
		if w > rd {
			// bits above the reader's width must be zero: provenance string starts with "[w-1..rd]=0"
			return strings.HasPrefix(r.Src, fmt.Sprintf("[%d..%d]=0", w-1, rd))
		}
		return true
	}
	return false
}

// orderIndependence (R4): inside a `for range <IEs> { switch i.Type {...} }` loop a case arm must not
// read a function-level variable that another arm assigns, unless it assigned it itself first or the
// use is a self-append.
func orderIndependence(c *core.Ctx, rule string, fn *ssa.Function) {
	p := c.P
	fd, ok := fn.Syntax().(*ast.FuncDecl)
	if !ok || fd.Body == nil {
		return
	}
	info := p.InfoOf(core.FnPkg(fn))
	nLoops := 0
	ast.Inspect(fd.Body, func(n ast.Node) bool {
		rs, ok := n.(*ast.RangeStmt)
		if !ok {
			return true
		}
		var sw *ast.SwitchStmt
		for _, s := range rs.Body.List {
			if x, ok := s.(*ast.SwitchStmt); ok {
				if sel, ok := x.Tag.(*ast.SelectorExpr); ok && sel.Sel.Name == "Type" {
					sw = x
				}
			}
		}
		if sw == nil {
			return true
		}
		nLoops++
		outer := func(o types.Object) bool {
			v, ok := o.(*types.Var)
			return ok && !v.IsField() && v.Pkg() == core.FnPkg(fn) && v.Pos() < rs.Pos() && v.Pos() >= fd.Pos()
		}
		type arm struct {
			name   string
			writes map[types.Object]token.Pos // first write position
			reads  map[types.Object][]token.Pos
			self   map[token.Pos]bool // read positions that are part of x = append(x, ...)
		}
		var arms []*arm
		for _, cl := range sw.Body.List {
			cc := cl.(*ast.CaseClause)
			a := &arm{writes: map[types.Object]token.Pos{}, reads: map[types.Object][]token.Pos{}, self: map[token.Pos]bool{}}
			var names []string
			for _, e := range cc.List {
				if o := core.ObjOf(info, e); o != nil {
					names = append(names, o.Name())
				}
			}
			a.name = strings.Join(names, ",")
			for _, st := range cc.Body {
				ast.Inspect(st, func(m ast.Node) bool {
					switch y := m.(type) {
					case *ast.FuncLit:
						return false
					case *ast.AssignStmt:
						for i, l := range y.Lhs {
							if id, ok := l.(*ast.Ident); ok {
								if o := info.ObjectOf(id); o != nil && outer(o) && y.Tok != token.DEFINE {
									if _, seen := a.writes[o]; !seen {
										a.writes[o] = id.Pos()
									}
									// self-append
									if i < len(y.Rhs) {
										if call, ok := y.Rhs[i].(*ast.CallExpr); ok {
											if f, ok := call.Fun.(*ast.Ident); ok && f.Name == "append" && len(call.Args) > 0 {
												if a0, ok := call.Args[0].(*ast.Ident); ok && info.ObjectOf(a0) == o {
													a.self[a0.Pos()] = true
												}
											}
										}
									}
								}
							}
						}
					case *ast.UnaryExpr:
						if y.Op == token.AND {
							if id, ok := y.X.(*ast.Ident); ok {
								if o := info.ObjectOf(id); o != nil && outer(o) {
									if _, seen := a.writes[o]; !seen {
										a.writes[o] = id.Pos()
									}
								}
							}
						}
					case *ast.CallExpr:
						// pointer-receiver method on an outer local (t.Unmarshal(b)) writes it
						if sel, ok := y.Fun.(*ast.SelectorExpr); ok {
							if id, ok := sel.X.(*ast.Ident); ok {
								if o := info.ObjectOf(id); o != nil && outer(o) {
									if f, ok := info.ObjectOf(sel.Sel).(*types.Func); ok {
										if sig := f.Type().(*types.Signature); sig.Recv() != nil {
											if _, isPtr := sig.Recv().Type().(*types.Pointer); isPtr {
												if _, isPtrVar := o.Type().(*types.Pointer); !isPtrVar {
													if _, seen := a.writes[o]; !seen {
														a.writes[o] = id.Pos()
													}
												}
											}
										}
									}
								}
							}
						}
					case *ast.Ident:
						if o := info.Uses[y]; o != nil && outer(o) {
							a.reads[o] = append(a.reads[o], y.Pos())
						}
					}
					return true
				})
			}
			arms = append(arms, a)
		}
		for _, a := range arms {
			var objs []types.Object
			for o := range a.reads {
				objs = append(objs, o)
			}
			sort.Slice(objs, func(i, j int) bool { return objs[i].Pos() < objs[j].Pos() })
			for _, o := range objs {
				// written by another arm?
				other := ""
				for _, b := range arms {
					if b != a {
						if _, w := b.writes[o]; w {
							other = b.name
						}
					}
				}
				if other == "" {
					continue
				}
				for _, rp := range a.reads[o] {
					if a.self[rp] {
						continue
					}
					if wp, w := a.writes[o]; w && wp <= rp {
						continue // assigned earlier in this very arm (or this is the assignment itself)
					}
					c.Check(rule, fmt.Sprintf("order-dependent:%s:%s:%s", core.FnName(fn), a.name, o.Name()), rp, false,
						fmt.Sprintf("the %s arm reads %s, which the %s arm assigns: the result depends on the order of the child IEs (must be used after the loop)", a.name, o.Name(), other))
				}
			}
		}
		return true
	})
	c.Check(rule, "order-independent:"+core.FnName(fn), fn.Pos(), true, fmt.Sprintf("%d IE loop(s) examined: no arm reads what another arm assigns", nLoops))
}

// addressing (R5): the OID handed to gtp5gnl.<Verb><Kind>OID is {<first parameter>, <id from the <Kind>ID accessor>}
// and verb/kind agree with the driver method.
func addressing(c *core.Ctx, rule string, fnName string) {
	p := c.P
	fn := fnOf(c, rule, pkgFwd, "Gtp5g", fnName)
	if fn == nil {
		return
	}
	m := ruleMethod.FindStringSubmatch(fnName)
	if m == nil {
		return
	}
	verb, kind := m[1], m[2]
	want := verb + kind + "OID"
	if verb == "Query" {
		return
	}
	n := 0
	x := newExtractor(p, fn)
	core.Instrs(fn, func(in ssa.Instruction) {
		ci, ok := in.(ssa.CallInstruction)
		if !ok {
			return
		}
		f := core.Callee(ci)
		if f == nil || f.Pkg() == nil || f.Pkg().Path() != core.PkgGtp5gnl || !strings.HasSuffix(f.Name(), "OID") || strings.HasPrefix(f.Name(), "Get") {
			return
		}
		n++
		c.Check(rule, "oid-call:"+fnName, ci.Pos(), f.Name() == want, fmt.Sprintf("%s calls gtp5gnl.%s (must be %s)", fnName, f.Name(), want))
		args := ci.Common().Args
		var oid ssa.Value
		for _, a := range args {
			if n, ok := a.Type().(*types.Named); ok && n.Obj().Name() == "OID" {
				oid = a
			}
		}
		vals := sliceLiteralValues(oid)
		okSeid := len(vals) == 2 && core.Unwrap(vals[0]) == ssa.Value(core.Param(fn, 0))
		c.Check(rule, "oid-seid:"+fnName, ci.Pos(), okSeid, "the first OID component is the session's SEID handed in by the caller")
		idOK := false
		if len(vals) == 2 {
			d := x.describeLeaf(vals[1], 0)
			idOK = d == kind+"ID()" || d == "param:urrid"
			c.Check(rule, "oid-id:"+fnName, ci.Pos(), idOK, fmt.Sprintf("the second OID component is the rule id of this request (%s; must be %sID())", d, kind))
		}
		// the attribute list handed over is the accumulated one
		if verb != "Remove" {
			hasAttrs := false
			for _, a := range args {
				if _, ok := a.Type().Underlying().(*types.Slice); ok && strings.Contains(a.Type().String(), "Attr") {
					hasAttrs = true
				}
			}
			c.Check(rule, "oid-attrs:"+fnName, ci.Pos(), hasAttrs, "the attribute list is handed to the netlink request")
		}
	})
	c.Check(rule, "oid-once:"+fnName, fn.Pos(), n == 1, fmt.Sprintf("%d netlink rule requests in %s (want 1)", n, fnName))
}

// sliceLiteralValues returns the element values of a small slice literal ([]T{a, b}).
func sliceLiteralValues(v ssa.Value) []ssa.Value {
	v = core.Unwrap(v)
	sl, ok := v.(*ssa.Slice)
	if !ok {
		return nil
	}
	al, ok := sl.X.(*ssa.Alloc)
	if !ok {
		return nil
	}
	at, ok := al.Type().(*types.Pointer).Elem().Underlying().(*types.Array)
	if !ok {
		return nil
	}
	out := make([]ssa.Value, at.Len())
	for _, r := range *al.Referrers() {
		ia, ok := r.(*ssa.IndexAddr)
		if !ok {
			continue
		}
		i, ok := core.ConstInt(ia.Index)
		if !ok || i < 0 || i >= at.Len() {
			continue
		}
		for _, u := range *ia.Referrers() {
			if st, ok := u.(*ssa.Store); ok {
				out[i] = st.Val
			}
		}
	}
	for _, x := range out {
		if x == nil {
			return nil
		}
	}
	return out
}

func C02(c *core.Ctx) {
	c.Explain = "'Exactly as specified, for every value and IE order' is decided as shape facts of every attribute literal in the PDR/FAR builders (the translation is ~700 lines of " +
		"`case ie.X: v := i.X(); attrs = append(attrs, nl.Attr{Type: gtp5gnl.Y, Value: nl.AttrUnn(v)})`): (R1) the attribute constant belongs to the group the reference reader " +
		"(go-gtp5gnl Decode*) switches on at that nesting level — the groups share numeric values, only object identity tells them apart; nesting is followed on both sides; " +
		"(R2) under `case ie.X` the value comes from the accessor of the same IE, with the exact bit provenance, and the table (IE, attribute, provenance, guards) equals the " +
		"reference table transcribed from TS 29.244 7.5.2.2/7.5.2.3 and the gtp5g attribute names; Create and Update builders agree; (R3) no significant bit is cut off by the " +
		"attribute width and writer and reader widths are compatible; (R4) no case arm reads a variable another arm assigns (IE-order independence; the uplink swap flag is read " +
		"after the PDI loop); (R5) the rule is addressed by OID {caller's SEID, rule id of this request} through the gtp5gnl call matching the driver method."
	c.Undec = []string{"go-gtp5gnl's netlink framing and go-pfcp's IE parsing (trusted)", "attributes the reference reader ignores get R1 (group) and R2 only",
		"the hard-coded TTC/SPI/FL placeholders are outside the IE set the property lists", "SDF flow description -> C16; apply-action decode -> C19"}
	c.Assume = []string{"little-endian host (native byte order of netlink attributes)", "reference table DESIGN Appendix A.1 (checker/internal/rules/reftable.json)"}
	e := newTabEnv(c)
	e.checkTables(pdrFarFns, [][2]string{{"CreatePDR", "UpdatePDR"}, {"CreateFAR", "UpdateFAR"}})
	var bfns []*ssa.Function
	for _, n := range pdrFarFns {
		if fn := e.fns[n]; fn != nil {
			orderIndependence(c, "R4", fn)
			bfns = append(bfns, fn)
		}
	}
	independentIterations(c, "R4", bfns)
	for _, n := range []string{"CreatePDR", "UpdatePDR", "RemovePDR", "CreateFAR", "UpdateFAR", "RemoveFAR"} {
		addressing(c, "R5", n)
	}
	handedOn(c, "R5", []string{"PDR", "FAR"})
	driverHandsOver(c, "R5", []string{"PDR", "FAR"})
	// "no value is truncated": an attribute longer than the 16-bit netlink length is cut by go-nl; the rule is
	// length-checked before it is handed over (C07 P8)
	shareFrom(c, "C07", "R3", func(o *core.Obligation) bool { return o.Rule == "P8" && strings.Contains(o.Key, "/P8/attr-length-checked:") }, 4, "PDR/FAR hand-over sites with datagram-sized attributes")
	handlerDispatch(c, "R5", map[string]bool{"PDR": true, "FAR": true})
	// "id not in this session" excuses an Update from reaching the driver only if the session's id sets are
	// accurate: ids are forgotten only after a successful Remove (C01 R4)
	shareFrom(c, "C01", "R5", func(o *core.Obligation) bool {
		return o.Rule == "R4" && strings.Contains(o.Key, "/R4/forget-") && (strings.Contains(o.Key, ":PDR:") || strings.Contains(o.Key, ":FAR:"))
	}, 2, "places that forget a PDR/FAR id")
	// R7: SDF filter sides: the in-place uplink swap works on an object of its own (shared with C16 R4)
	flowDescOwned(c, "R7")
	// "SDF filters (source and destination swapped for uplink PDRs)": the swap rules of C16 R4 seen from here
	if f16, ok := Registry["C16"]; ok {
		sub, _ := core.NewCtx(c.P, "C16", c.Tier, c.Seed, c.OutDir, "")
		f16(sub)
		n := 0
		for _, o := range sub.Obls {
			if o.Rule == "R4" && strings.Contains(o.Key, "/R4/swap") {
				n++
				c.Check("R7", "sdf-"+o.Key[strings.Index(o.Key, "/R4/")+4:], token.NoPos, o.OK, o.Desc+" (C16 R4)")
			}
			// which side each flow-description attribute is taken from (C16 R3)
			if o.Rule == "R3" {
				n++
				c.Check("R7", "sdf-"+o.Key[strings.Index(o.Key, "/R3/")+4:], token.NoPos, o.OK, o.Desc+" (C16 R3)")
			}
		}
		c.Floor("R7", n, 6, "uplink swap obligations")
	}
	c.Floor("R2", c.Counts["R2"], 40, "PDR/FAR attribute rows compared")
	// R6: the apply-action bits written are those of the IE: the decoder the FAR builders call (shared with C19 R3)
	if m := c.P.Method(pkgReport, "ApplyAction", "Unmarshal"); m != nil {
		renameRule(c, "R3", "R6", func() {
			checkUnmarshal(c, c.P.SSAFn(m), "ApplyAction", c.P.Field(pkgReport, "ApplyAction", "Flags"), 1, 16)
		})
	}
}

// renameRule runs f and files the obligations/findings it produced under another rule name.
func renameRule(c *core.Ctx, from, to string, f func()) {
	no, nf := len(c.Obls), len(c.Findings)
	f()
	pre := c.Prop + "/" + from + "/"
	for _, o := range c.Obls[no:] {
		if o.Rule == from {
			o.Rule = to
			o.Key = c.Prop + "/" + to + "/" + strings.TrimPrefix(o.Key, pre)
			c.Counts[from]--
			c.Counts[to]++
		}
	}
	for _, fd := range c.Findings[nf:] {
		if fd.Rule == from {
			fd.Rule = to
			fd.Key = c.Prop + "/" + to + "/" + strings.TrimPrefix(fd.Key, pre)
		}
	}
}

func C03(c *core.Ctx) {
	c.Explain = "Same engine as C02 on the QER/URR/BAR builders: (R1) namespace and nesting against the reference reader (DecodeQER/MBR/GBR, DecodeURR, decodeVolumeThreshold/Quota, " +
		"DecodeBAR); (R2) reference table + Create/Update agreement — including (R7) the 40-bit MBR/GBR split decided per bit: *_HIGH32 carries bits 8..39 and *_LOW8 bits 0..7 of the " +
		"accessor of the same direction and kind (UL from ...UL(), MBR from MBR...), for every value; threshold/quota volumes are attached to the flag of the same name; (R3) widths, " +
		"including the BAR delay (the IE's octet = duration / 50 ms must fit 8 bits by interval evaluation); (R4) IE-order independence of the builders; (R5) addressing; (R8) periodic " +
		"registration: AddPeriodReportTimer is called only from the driver's Create URR, after the IE loop, exactly under PERIO() of the trigger decoded from this request, with " +
		"(caller's SEID, URR id of this request, measurement period of this request); DelPeriodReportTimer runs on every path of Remove URR before the netlink call; sibling rule: " +
		"Update URR decodes the triggers too and must follow a change of the PERIO bit."
	c.Undec = []string{"what the kernel does with the values", "URR_MEASUREMENT_PERIOD is written as the low 32 bits of a nanosecond duration (observation; the kernel-side period is outside the enumerated content)"}
	c.Assume = []string{"little-endian host", "reference table DESIGN Appendix A.1", "accessor value ranges: MBR/GBR 40 bit, notification delay = k*50ms with k <= 255"}
	e := newTabEnv(c)
	e.checkTables(qerUrrBarFns, [][2]string{{"CreateQER", "UpdateQER"}, {"CreateURR", "UpdateURR"}, {"CreateBAR", "UpdateBAR"}})
	var bfns []*ssa.Function
	for _, n := range qerUrrBarFns {
		if fn := e.fns[n]; fn != nil {
			orderIndependence(c, "R4", fn)
			bfns = append(bfns, fn)
		}
	}
	independentIterations(c, "R4", bfns)
	for _, n := range []string{"CreateQER", "UpdateQER", "RemoveQER", "CreateURR", "UpdateURR", "RemoveURR", "CreateBAR", "UpdateBAR", "RemoveBAR"} {
		addressing(c, "R5", n)
	}
	handedOn(c, "R5", []string{"QER", "URR", "BAR"})
	driverHandsOver(c, "R5", []string{"QER", "URR", "BAR"})
	handlerDispatch(c, "R5", map[string]bool{"QER": true, "URR": true, "BAR": true})
	shareFrom(c, "C01", "R5", func(o *core.Obligation) bool {
		return o.Rule == "R4" && strings.Contains(o.Key, "/R4/forget-") && (strings.Contains(o.Key, ":QER:") || strings.Contains(o.Key, ":URR:") || strings.Contains(o.Key, ":BAR:"))
	}, 3, "places that forget a QER/URR/BAR id")
	c.Floor("R2", c.Counts["R2"], 50, "QER/URR/BAR attribute rows compared")
	if m := c.P.Method(pkgReport, "ReportingTrigger", "Unmarshal"); m != nil {
		renameRule(c, "R3", "R6", func() {
			checkUnmarshal(c, c.P.SSAFn(m), "ReportingTrigger", c.P.Field(pkgReport, "ReportingTrigger", "Flags"), 2, 32)
		})
	}
	c03Periodic(c, "R8", true)
	// "... and a URR without that trigger is not": SEIDs and URR ids are reused, so an unregistration that misses its
	// (SEID, URR) pair leaves an entry behind under which a later URR without the periodic trigger is queried
	// periodically (group-table discipline of the periodic server, C15 R2)
	shareFrom(c, "C15", "R8", func(o *core.Obligation) bool {
		return o.Rule == "R2" && (strings.Contains(o.Key, "/R2/del-removes-pair") || strings.Contains(o.Key, "/R2/drop-iff-group-empty"))
	}, 2, "removal rules of the periodic server")
}

// R8 periodic registration
func c03Periodic(c *core.Ctx, rule string, withUpdateSibling bool) {
	p := c.P
	add := p.Method(pkgPerio, "Server", "AddPeriodReportTimer")
	del := p.Method(pkgPerio, "Server", "DelPeriodReportTimer")
	if add == nil || del == nil {
		c.Anchor(rule, "perio.Server.{Add,Del}PeriodReportTimer")
		return
	}
	create := fnOf(c, rule, pkgFwd, "Gtp5g", "CreateURR")
	remove := fnOf(c, rule, pkgFwd, "Gtp5g", "RemoveURR")
	update := fnOf(c, rule, pkgFwd, "Gtp5g", "UpdateURR")
	if create == nil || remove == nil || update == nil {
		return
	}
	// The periodic server keeps one entry per (SEID, URR, period group) and a removal clears only the first
	// group it finds, so a URR must never be registered twice: registration happens in Create URR, and a
	// re-registration (Update URR) is acceptable only behind an unregistration of the same (SEID, URR).
	nAdd := 0
	for _, fn := range p.OwnFuncs() {
		for _, ci := range core.Calls(fn, add) {
			okCaller := fn == create
			if fn == create {
				nAdd++
			}
			if fn == update {
				for _, dc := range core.Calls(fn, del) {
					da, aa := core.CallArgs(dc), core.CallArgs(ci)
					if core.InstrDominates(dc.(ssa.Instruction), ci.(ssa.Instruction)) && core.Unwrap(da[0]) == core.Unwrap(aa[0]) && core.Unwrap(da[1]) == core.Unwrap(aa[1]) {
						okCaller = true
					}
				}
			}
			c.Check(rule, "add-caller:"+core.FnName(fn), ci.Pos(), okCaller, "periodic reporting is registered by the driver's Create URR (or re-registered by Update URR right after unregistering the same URR): otherwise a second registration survives the URR's removal")
		}
		for _, ci := range core.Calls(fn, del) {
			c.Check(rule, "del-caller:"+core.FnName(fn), ci.Pos(), fn == remove || fn == update, "periodic reporting is unregistered only by the driver's Remove URR / Update URR")
		}
	}
	c.Check(rule, "add-once", create.Pos(), nAdd == 1, fmt.Sprintf("%d registration sites in Create URR (want 1)", nAdd))
	evtCh := p.Field(pkgPerio, "Server", "evtCh")
	losslessPost(c, rule, p.SSAFn(add), evtCh, "registration with the periodic server")
	losslessPost(c, rule, p.SSAFn(del), evtCh, "unregistration from the periodic server")
	x := newExtractor(p, create)
	for _, ci := range core.Calls(create, add) {
		in := ci.(ssa.Instruction)
		// under PERIO() of the locally decoded trigger
		guard := false
		for _, f := range core.FactsAt(in.Block()) {
			if cl, ok := f.V.(*ssa.Call); ok && f.True {
				if cal := core.Callee(cl); cal != nil && cal.Name() == "PERIO" {
					// that local (a variable, or a field of a struct-typed local) is filled from this request's
					// Reporting Triggers IE
					loc := core.CallRecv(cl)
					core.Instrs(create, func(in2 ssa.Instruction) {
						if uc, ok := in2.(*ssa.Call); ok && core.Callee(uc) != nil && core.Callee(uc).Name() == "Unmarshal" && core.CallRecv(uc) != nil && (sameAddr(core.CallRecv(uc), loc) || copiedFrom(loc, core.CallRecv(uc))) {
							if x.describeLeaf(core.CallArgs(uc)[0], 0) == "ReportingTriggers()" {
								guard = true
							}
						}
					})
				}
			}
		}
		c.Check(rule, "add-iff-perio", ci.Pos(), guard, "registration happens exactly under PERIO() of the reporting triggers decoded from this request")
		args := core.CallArgs(ci)
		c.Check(rule, "add-seid", ci.Pos(), core.Unwrap(args[0]) == ssa.Value(core.Param(create, 0)), "registered under the caller's SEID")
		c.Check(rule, "add-urrid", ci.Pos(), x.describeLeaf(args[1], 0) == "URRID()", "registered under the URR id of this request ("+x.describeLeaf(args[1], 0)+")")
		c.Check(rule, "add-period", ci.Pos(), x.describeLeaf(args[2], 0) == "MeasurementPeriod()", "registered with the measurement period of this request, untruncated ("+x.describeLeaf(args[2], 0)+")")
		// after the loop: not inside the IE loop (order independence is R4; here: the call's block is not in a loop)
		c.Check(rule, "add-after-loop", ci.Pos(), loopHeaderOf(in) == in.Block() && !inAnyLoop(in), "registration is decided after all child IEs have been read")
		// every non-PERIO path skips it, and the PERIO path always reaches it or returns an error
	}
	// without PERIO no registration: implied by add-iff-perio + add-once
	// remove: Del on every path before the netlink remove
	dels := core.Calls(remove, del)
	okDel := len(dels) == 1
	if okDel {
		d := dels[0].(ssa.Instruction)
		args := core.CallArgs(dels[0])
		xr := newExtractor(p, remove)
		okDel = core.Unwrap(args[0]) == ssa.Value(core.Param(remove, 0)) && xr.describeLeaf(args[1], 0) == "URRID()"
		for _, ci := range core.CallsMatching(remove, func(f *types.Func) bool { return f.Name() == "RemoveURROID" }) {
			if !core.InstrDominates(d, ci.(ssa.Instruction)) {
				okDel = false
			}
		}
	}
	c.Check(rule, "del-on-remove", remove.Pos(), okDel, "Remove URR always unregisters (caller's SEID, URR id of this request) before the rule is removed")
	if !withUpdateSibling {
		return
	}
	// sibling: Update URR decodes Reporting Triggers as well
	decodes := false
	core.Instrs(update, func(in ssa.Instruction) {
		if cl, ok := in.(*ssa.Call); ok && core.Callee(cl) != nil && core.Callee(cl).Name() == "ReportingTriggers" {
			decodes = true
		}
	})
	if decodes {
		follows := len(core.Calls(update, add)) > 0 || len(core.Calls(update, del)) > 0
		c.Check(rule, "update-follows-perio", update.Pos(), follows,
			"Update URR accepts new Reporting Triggers (and Measurement Period) but never registers/unregisters periodic reporting: adding or removing PERIO by Update URR is not followed")
	}
}

func inAnyLoop(in ssa.Instruction) bool {
	b := in.Block()
	return reachesBlock2(b, b)
}

// reachesBlock2: b can reach itself through at least one edge.
func reachesBlock2(from, to *ssa.BasicBlock) bool {
	seen := map[*ssa.BasicBlock]bool{}
	stack := append([]*ssa.BasicBlock{}, from.Succs...)
	for len(stack) > 0 {
		b := stack[len(stack)-1]
		stack = stack[:len(stack)-1]
		if b == to {
			return true
		}
		if seen[b] {
			continue
		}
		seen[b] = true
		stack = append(stack, b.Succs...)
	}
	return false
}

// handedOn: the session layer hands every Create/Update IE on to the driver, unchanged and under the
// session's own SEID: in Sess.<Verb><Kind> every path from entry to a return passes through the
// Driver.<Verb><Kind> call, except through the failure edge of a parse of the IE itself or (Update)
// the 'rule id not in this session' edge.
func handedOn(c *core.Ctx, rule string, kinds []string) {
	n := 0
	for _, kind := range kinds {
		for _, verb := range []string{"Create", "Update"} {
			name := verb + kind
			fn := fnOf(c, rule, pkgPfcp, "Sess", name)
			if fn == nil {
				continue
			}
			recv, req := core.Recv(fn), core.Param(fn, 0)
			var drv ssa.CallInstruction
			core.Instrs(fn, func(in ssa.Instruction) {
				if ci, ok := in.(ssa.CallInstruction); ok && ci.Common().IsInvoke() && ci.Common().Method.Name() == name {
					drv = ci
				}
			})
			if drv == nil {
				c.Check(rule, "handed-on:"+name, fn.Pos(), false, "Sess."+name+" does not call Driver."+name)
				continue
			}
			n++
			args := drv.Common().Args
			c.Check(rule, "handed-on-args:"+name, drv.Pos(), len(args) == 2 && core.IsPath(args[0], recv, "LocalID") && args[1] == ssa.Value(req),
				"Driver."+name+" receives the session's own SEID and the IE as it arrived")
			// excusing facts
			var parseErrs, missOK []ssa.Value
			core.Instrs(fn, func(in ssa.Instruction) {
				switch x := in.(type) {
				case *ssa.Call:
					if x == drv.(ssa.Instruction) || x.Call.IsInvoke() {
						return
					}
					if r := core.CallRecv(x); r != ssa.Value(req) {
						return
					}
					for _, u := range *x.Referrers() {
						if ex, ok := u.(*ssa.Extract); ok && types.Identical(ex.Type(), types.Universe.Lookup("error").Type()) {
							parseErrs = append(parseErrs, ex)
						}
					}
				case *ssa.Lookup:
					if verb == "Update" && x.CommaOk && core.IsPath(x.X, recv, kind+"IDs") {
						for _, u := range *x.Referrers() {
							if ex, ok := u.(*ssa.Extract); ok && ex.Index == 1 {
								missOK = append(missOK, ex)
							}
						}
					}
				}
			})
			r := returnAvoiding(fn.Blocks[0], func(b *ssa.BasicBlock) bool {
				if blockHas(b, drv.(ssa.Instruction)) {
					return true
				}
				for _, e := range parseErrs {
					if core.NilKnownAt(b, e, false) {
						return true
					}
				}
				for _, o := range missOK {
					if core.KnownAt(b, o, false) {
						return true
					}
				}
				return false
			})
			pos := drv.Pos()
			if r != nil {
				pos = r.Pos()
			}
			c.Check(rule, "handed-on:"+name, pos, r == nil, "every well-formed "+verb+" "+kind+" IE reaches Driver."+name+": the only exits before the call are a parse failure of the IE"+map[bool]string{true: " and 'rule id not in this session'", false: ""}[verb == "Update"])
		}
	}
	c.Floor(rule, n, 2*len(kinds), "Sess Create/Update methods with a driver call")
}

// errOrigins names where an error value can come from: the package of every call that produced it, followed
// through own functions (their returned error values), wrappers (errors.Wrap*/WithMessage*), phis and cells;
// "local" stands for an error constructed on the spot.
func errOrigins(p *core.Program, v ssa.Value, out map[string]bool, seen map[ssa.Value]bool, depth int) {
	if v == nil || seen[v] || depth > 8 {
		return
	}
	seen[v] = true
	switch x := v.(type) {
	case *ssa.Const:
		return
	case *ssa.Phi:
		for _, e := range x.Edges {
			errOrigins(p, e, out, seen, depth)
		}
	case *ssa.MakeInterface:
		out["local"] = true
	case *ssa.ChangeInterface:
		errOrigins(p, x.X, out, seen, depth)
	case *ssa.Extract:
		errOrigins(p, x.Tuple, out, seen, depth)
	case *ssa.UnOp:
		if u := core.Unwrap(x); u != ssa.Value(x) {
			errOrigins(p, u, out, seen, depth)
			return
		}
		// a cell written in several places: every stored value
		if a, ok := x.X.(*ssa.Alloc); ok && a.Referrers() != nil {
			for _, r := range *a.Referrers() {
				if st, ok := r.(*ssa.Store); ok && st.Addr == ssa.Value(a) {
					errOrigins(p, st.Val, out, seen, depth)
				}
			}
			return
		}
		out["memory"] = true
	case *ssa.Call:
		if x.Call.IsInvoke() {
			out["invoke:"+x.Call.Method.Name()] = true
			return
		}
		f := core.Callee(x)
		if f == nil || f.Pkg() == nil {
			out["dynamic"] = true
			return
		}
		path := f.Pkg().Path()
		if strings.HasSuffix(path, "pkg/errors") || path == "errors" || path == "fmt" {
			wrapped := false
			for _, a := range x.Call.Args {
				if isErrorType(a.Type()) {
					wrapped = true
					errOrigins(p, a, out, seen, depth)
				}
			}
			if !wrapped {
				out["local"] = true
			}
			return
		}
		fn := core.StaticFn(x)
		if fn != nil && p.IsOwnFn(fn) && fn.Blocks != nil {
			for _, b := range fn.Blocks {
				if r, ok := b.Instrs[len(b.Instrs)-1].(*ssa.Return); ok && len(r.Results) > 0 {
					last := r.Results[len(r.Results)-1]
					if isErrorType(last.Type()) {
						errOrigins(p, last, out, seen, depth+1)
					}
				}
			}
			return
		}
		out[path] = true
	default:
		out[fmt.Sprintf("%T", v)] = true
	}
}

// driverHandsOver: inside the gtp5g driver a well-formed Create/Update IE always becomes a netlink request.  Between
// the entry of Gtp5g.<Verb><Kind> and its go-gtp5gnl call, a branch may leave the method because the IE cannot be
// decoded or is not supported — never because some OTHER exchange with the data plane failed (reading a rule back,
// flushing buffered packets, arming a timer): those are side tasks, and the rule the SMF specified must still be
// handed over.
func driverHandsOver(c *core.Ctx, rule string, kinds []string) {
	p := c.P
	for _, kind := range kinds {
		for _, verb := range []string{"Create", "Update"} {
			name := verb + kind
			fn := fnOf(c, rule, pkgFwd, "Gtp5g", name)
			if fn == nil {
				continue
			}
			var hand ssa.CallInstruction
			core.Instrs(fn, func(in ssa.Instruction) {
				if ci, ok := in.(ssa.CallInstruction); ok {
					if f := core.Callee(ci); f != nil && f.Pkg() != nil && f.Pkg().Path() == core.PkgGtp5gnl && strings.HasPrefix(f.Name(), name) {
						hand = ci
					}
				}
			})
			if hand == nil {
				continue // reported by the addressing rule
			}
			cb := hand.Block()
			reach := map[*ssa.BasicBlock]bool{}
			var walk func(b *ssa.BasicBlock)
			walk = func(b *ssa.BasicBlock) {
				if reach[b] {
					return
				}
				reach[b] = true
				for _, pr := range b.Preds {
					walk(pr)
				}
			}
			for _, pr := range cb.Preds {
				walk(pr)
			}
			bad := ""
			var badPos token.Pos
			for _, b := range fn.Blocks {
				if !reach[b] {
					continue
				}
				ifi, ok := b.Instrs[len(b.Instrs)-1].(*ssa.If)
				if !ok {
					continue
				}
				exits := false
				for _, s := range b.Succs {
					if returnAvoiding(s, func(x *ssa.BasicBlock) bool { return x == cb }) != nil {
						exits = true
					}
				}
				if !exits {
					continue
				}
				x, _, isNil := core.NilCmp(ifi.Cond)
				if !isNil || !isErrorType(x.Type()) {
					continue
				}
				or := map[string]bool{}
				errOrigins(p, x, or, map[ssa.Value]bool{}, 0)
				for o := range or {
					if o == core.PkgGtp5gnl || o == core.PkgNL || strings.HasPrefix(o, "invoke:") || strings.HasSuffix(o, "/perio") || strings.HasSuffix(o, "/buffnetlink") {
						if bad == "" {
							bad = "an error of " + o + " ends the method before the rule is handed over"
							badPos = ifi.Cond.Pos()
						}
					}
				}
			}
			pos := hand.Pos()
			if bad != "" && badPos.IsValid() {
				pos = badPos
			}
			c.Check(rule, "driver-hands-over:"+name, pos, bad == "", "Gtp5g."+name+" gives up before its netlink request only when the IE cannot be decoded, not when another data-plane exchange failed"+
				map[bool]string{true: "", false: " — " + bad}[bad == ""])
		}
	}
}

// copiedFrom: the local `dst` holds a whole copy of the local `src` (possibly through further whole copies): the
// result of a decode helper that was expanded into this function.
func copiedFrom(dst, src ssa.Value) bool {
	al, ok := dst.(*ssa.Alloc)
	for i := 0; ok && i < 4; i++ {
		sv, has := aggregateSingleStore(al)
		if !has {
			sv, has = soleWholeStore(al)
		}
		if !has {
			return false
		}
		a2 := structCopySource(sv, 0)
		if a2 == nil {
			return false
		}
		if ssa.Value(a2) == src {
			return true
		}
		al = a2
	}
	return false
}
