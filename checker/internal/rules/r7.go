package rules

import (
	"fmt"
	"go/token"
	"go/types"
	"sort"
	"strings"

	"golang.org/x/tools/go/ssa"

	"upfcheck/internal/core"
)

// Rules added after the seventh round of seeded changes (DESIGN.md 8.5 round 7).  Each states a structural
// necessary condition of the property it is filed under; they are attached to the existing rule sets by wrapping
// the registry entries (the c*.go files register first: files of a package are initialised in name order).

func init() {
	wrap := func(id string, extra func(*core.Ctx)) {
		base := Registry[id]
		Registry[id] = func(c *core.Ctx) {
			base(c)
			if c.P == nil {
				return
			}
			extra(c)
		}
	}
	has := func(o *core.Obligation, rule string, parts ...string) bool {
		if o.Rule != rule {
			return false
		}
		for _, p := range parts {
			if strings.Contains(o.Key, p) {
				return true
			}
		}
		return false
	}
	wrap("C01", func(c *core.Ctx) { freshObjects(c, "R10", "Sess") })
	wrap("C02", func(c *core.Ctx) { driverSendsRequest(c, "R5", []string{"PDR", "FAR"}) })
	wrap("C03", func(c *core.Ctx) {
		driverSendsRequest(c, "R5", []string{"QER", "URR", "BAR"})
		shareFrom(c, "C15", "R8", func(o *core.Obligation) bool { return has(o, "R2", "/R2/tick-always-posted") }, 1, "ticker posts")
	})
	wrap("C05", func(c *core.Ctx) {
		freshObjects(c, "R5", "Sess")
		peerChosenKeys(c, "R9")
	})
	wrap("C06", func(c *core.Ctx) { freshObjects(c, "R3", "RxTransaction") })
	wrap("C07", func(c *core.Ctx) {
		shareFrom(c, "C06", "P9", func(o *core.Obligation) bool {
			return has(o, "R4", "/R4/timer-armer", "/R4/timer-started", "/R4/entry-released")
		}, 2, "receive-transaction release rules")
		nilMapWrites(c, "P2")
	})
	wrap("C08", func(c *core.Ctx) {
		shareFrom(c, "C05", "R4", func(o *core.Obligation) bool { return has(o, "R2", "/R2/same-session-field") }, 3, "single-session handler rules")
		nodeIDFromConfig(c, "R3")
	})
	wrap("C09", func(c *core.Ctx) { freshObjects(c, "R4", "TxTransaction") })
	wrap("C10", func(c *core.Ctx) {
		shareFrom(c, "C09", "R4", func(o *core.Obligation) bool { return has(o, "R3", "/R3/table-deleter:txTrans") }, 1, "who may drop a pending report request")
		builderTotal(c, "R2")
		reportBatchProducers(c, "R5")
	})
	wrap("C11", func(c *core.Ctx) { builderTotal(c, "R2") })
	wrap("C12", func(c *core.Ctx) {
		shareFrom(c, "C06", "R8", func(o *core.Obligation) bool {
			return has(o, "R1", "/R1/insert-on-miss", "/R1/request-served", "/R1/recv-true-only-new") || has(o, "R4", "/R4/table-deleter:rxTrans")
		}, 3, "at-most-once execution of a retransmitted request")
	})
	wrap("C13", func(c *core.Ctx) { reportBatchProducers(c, "R2") })
	wrap("C15", func(c *core.Ctx) { batchArgBounded(c, "R3") })
	wrap("C17", func(c *core.Ctx) {
		shareFrom(c, "C15", "R4", func(o *core.Obligation) bool { return has(o, "R2", "/R2/tick-always-posted") }, 1, "ticker posts")
	})
	wrap("C18", func(c *core.Ctx) { lockReentrancy(c, "R4") })
	wrap("C20", func(c *core.Ctx) { nodeIDFromConfig(c, "R5") })
}

// ---- fresh objects ------------------------------------------------------------------------------------------

// freshObjects: every value of type *T that the constructor of T hands out is a new allocation made in that call —
// a recycled object carries whatever its reset forgot (cached responses, id sets left by a failed removal).
func freshObjects(c *core.Ctx, rule, typ string) {
	p := c.P
	named := p.Named(pkgPfcp, typ)
	if named == nil {
		c.Anchor(rule, "pfcp."+typ)
		return
	}
	n := 0
	for _, fn := range p.OwnFuncs() {
		if core.FnPkg(fn) == nil || core.FnPkg(fn).Path() != pkgPfcp || fn.Blocks == nil {
			continue
		}
		res := fn.Signature.Results()
		if res.Len() == 0 || !isPtrTo(res.At(0).Type(), named) || !strings.HasPrefix(fn.Name(), "New") {
			continue
		}
		core.Instrs(fn, func(in ssa.Instruction) {
			r, ok := in.(*ssa.Return)
			if !ok || len(r.Results) == 0 {
				return
			}
			n++
			ok2, why := freshAlloc(r.Results[0], fn, map[ssa.Value]bool{}, 0)
			c.Check(rule, fmt.Sprintf("fresh-object:%s#%d", core.FnName(fn), n), r.Pos(), ok2,
				"the "+typ+" handed out by "+core.FnName(fn)+" is a new allocation of this call"+map[bool]string{true: "", false: " — " + why}[ok2])
		})
	}
	c.Floor(rule, n, 1, "constructor returns of pfcp."+typ)
}

func freshAlloc(v ssa.Value, fn *ssa.Function, seen map[ssa.Value]bool, depth int) (bool, string) {
	if seen[v] || depth > 12 {
		return true, ""
	}
	seen[v] = true
	switch x := v.(type) {
	case *ssa.Alloc:
		return true, ""
	case *ssa.Const:
		return true, "" // nil on an error path
	case *ssa.Phi:
		for _, e := range x.Edges {
			if ok, why := freshAlloc(e, fn, seen, depth+1); !ok {
				return false, why
			}
		}
		return true, ""
	case *ssa.ChangeType:
		return freshAlloc(x.X, fn, seen, depth+1)
	case *ssa.MakeInterface:
		return freshAlloc(x.X, fn, seen, depth+1)
	case *ssa.UnOp:
		if x.Op == token.MUL {
			if al, ok := x.X.(*ssa.Alloc); ok {
				// a local variable cell: every store into it must be fresh
				for _, ref := range *al.Referrers() {
					if st, ok := ref.(*ssa.Store); ok && st.Addr == al {
						if ok2, why := freshAlloc(st.Val, fn, seen, depth+1); !ok2 {
							return false, why
						}
					}
				}
				return true, ""
			}
		}
		return false, "the object is loaded from existing storage (" + x.String() + "): a recycled object"
	case *ssa.Call:
		if callee := x.Call.StaticCallee(); callee != nil && callee.Blocks != nil && core.FnPkg(callee) != nil && core.FnPkg(callee).Path() == pkgPfcp && depth < 4 {
			okAll := true
			why := ""
			core.Instrs(callee, func(in ssa.Instruction) {
				if r, ok := in.(*ssa.Return); ok && len(r.Results) > 0 && okAll {
					if ok2, w := freshAlloc(r.Results[0], callee, seen, depth+1); !ok2 {
						okAll, why = false, w
					}
				}
			})
			return okAll, why
		}
		return false, "the object comes from a call (" + x.String() + ")"
	case *ssa.Extract:
		return false, "the object comes out of a multi-value operation (" + x.Tuple.String() + ")"
	}
	return false, fmt.Sprintf("the object is %s (%T), not a new allocation", v.String(), v)
}

// ---- gtp5g driver: every request is sent --------------------------------------------------------------------

// driverSendsRequest: (a) Gtp5g.<Verb><Kind> reports success only behind its own netlink request (a return with a nil
// error that no go-gtp5gnl <Verb><Kind>OID call dominates means "done" without telling the data plane); (b) the rule
// methods of the gtp5g driver are entered through the Driver interface only — one PFCP IE, one operation of the same
// verb: a Create that falls back to the Update path re-interprets a Create IE with the Update decoder.
func driverSendsRequest(c *core.Ctx, rule string, kinds []string) {
	p := c.P
	n := 0
	for _, kind := range kinds {
		for _, verb := range []string{"Create", "Update", "Remove"} {
			m := p.Method(pkgFwd, "Gtp5g", verb+kind)
			fn := p.SSAFn(m)
			if fn == nil || fn.Blocks == nil {
				c.Anchor(rule, "forwarder.Gtp5g."+verb+kind)
				continue
			}
			var reqs []ssa.CallInstruction
			core.Instrs(fn, func(in ssa.Instruction) {
				ci, ok := in.(ssa.CallInstruction)
				if !ok {
					return
				}
				if f := core.Callee(ci); f != nil && f.Pkg() != nil && strings.HasSuffix(f.Pkg().Path(), "go-gtp5gnl") && strings.HasPrefix(f.Name(), verb+kind) {
					reqs = append(reqs, ci)
				}
			})
			bad := ""
			var badPos token.Pos
			core.Instrs(fn, func(in ssa.Instruction) {
				r, ok := in.(*ssa.Return)
				if !ok || len(r.Results) == 0 || bad != "" {
					return
				}
				last := r.Results[len(r.Results)-1]
				if !core.IsNilConst(last) {
					return
				}
				for _, q := range reqs {
					if core.InstrDominates(q, r) {
						return
					}
				}
				bad, badPos = "success is returned at "+p.Pos(r.Pos())+" on a path that does not pass the netlink request", r.Pos()
			})
			n++
			if badPos == token.NoPos {
				badPos = fn.Pos()
			}
			c.Check(rule, "success-behind-request:"+verb+kind, badPos, bad == "" && len(reqs) > 0,
				"Gtp5g."+verb+kind+" returns success only after gtp5gnl."+verb+kind+"OID was called"+map[bool]string{true: "", false: " — " + bad}[bad == ""])
			// (b) no static caller in own code
			var callers []string
			for _, e := range p.Callers(fn) {
				if e.Site == nil || e.Site.Common().IsInvoke() || !p.IsOwnFn(e.Caller.Func) {
					continue
				}
				if strings.Contains(core.FnPkg(e.Caller.Func).Path(), "/testtools") {
					continue
				}
				callers = append(callers, core.FnName(e.Caller.Func))
			}
			sort.Strings(callers)
			c.Check(rule, "driver-entry:"+verb+kind, fn.Pos(), len(callers) == 0,
				"Gtp5g."+verb+kind+" is entered through the Driver interface only"+map[bool]string{true: "", false: " — called directly by " + strings.Join(callers, ", ") + ": another operation's IE is run through this verb's decoder"}[len(callers) == 0])
		}
	}
	c.Floor(rule, n, 3*len(kinds), "gtp5g driver rule methods")
}

// ---- usage-report IE builders are total ---------------------------------------------------------------------

// builderTotal: the three usage-report builders return an IE on every path: the caller has taken the report's
// sequence number before it calls the builder, so a builder that declines consumes a number without emitting it.
func builderTotal(c *core.Ctx, rule string) {
	p := c.P
	n := 0
	for _, name := range []string{"IEsWithinSessReportReq", "IEsWithinSessModRsp", "IEsWithinSessDelRsp"} {
		fn := fnOf(c, rule, pkgReport, "USAReport", name)
		if fn == nil {
			continue
		}
		bad := ""
		pos := fn.Pos()
		core.Instrs(fn, func(in ssa.Instruction) {
			r, ok := in.(*ssa.Return)
			if !ok || len(r.Results) == 0 || bad != "" {
				return
			}
			if !neverNil(r.Results[0], map[ssa.Value]bool{}) {
				bad, pos = "the return at "+p.Pos(r.Pos())+" can yield no IE", r.Pos()
			}
		})
		n++
		c.Check(rule, "builder-total:"+name, pos, bad == "", "USAReport."+name+" yields a usage-report IE on every path"+map[bool]string{true: "", false: " — " + bad}[bad == ""])
	}
	c.Floor(rule, n, 3, "usage-report IE builders")
}

func neverNil(v ssa.Value, seen map[ssa.Value]bool) bool {
	if seen[v] {
		return true
	}
	seen[v] = true
	switch x := v.(type) {
	case *ssa.Const:
		return !x.IsNil()
	case *ssa.Phi:
		for _, e := range x.Edges {
			if !neverNil(e, seen) {
				return false
			}
		}
		return true
	case *ssa.Call:
		if f := core.Callee(x); f != nil && f.Pkg() != nil && strings.HasSuffix(f.Pkg().Path(), "go-pfcp/ie") && strings.HasPrefix(f.Name(), "New") {
			return true
		}
		if bi, ok := x.Call.Value.(*ssa.Builtin); ok && bi.Name() == "append" {
			// a list: non-empty if something is appended
			return len(x.Call.Args) == 2
		}
		return false
	case *ssa.Slice:
		return true // a literal list
	case *ssa.Alloc, *ssa.MakeSlice:
		return true
	case *ssa.ChangeType:
		return neverNil(x.X, seen)
	case *ssa.UnOp:
		// a local cell (named result, variable captured by a closure): every store into it
		if al, ok := x.X.(*ssa.Alloc); ok && x.Op == token.MUL {
			n := 0
			for _, ref := range *al.Referrers() {
				if st, ok := ref.(*ssa.Store); ok && st.Addr == al {
					n++
					if !neverNil(st.Val, seen) {
						return false
					}
				}
			}
			return n > 0
		}
	}
	return false
}

// ---- report batches ------------------------------------------------------------------------------------------

// reportBatchProducers: ServeReport leaves its loop over sr.Reports in the downlink-data arm; that is sound only while
// every batch with a buffered packet holds exactly one report, which the producers (buffnetlink, perio, the gtp5g
// driver) guarantee by construction.  Nothing inside package pfcp may build or extend a SessReport's report list.
func reportBatchProducers(c *core.Ctx, rule string) {
	p := c.P
	f := p.Field(pkgReport, "SessReport", "Reports")
	if f == nil {
		c.Anchor(rule, "report.SessReport.Reports")
		return
	}
	var offenders []string
	var pos token.Pos
	examined := 0
	for _, fn := range p.OwnFuncs() {
		pk := core.FnPkg(fn)
		if pk == nil || pk.Path() != pkgPfcp || fn.Blocks == nil {
			continue
		}
		core.Instrs(fn, func(in ssa.Instruction) {
			st, ok := in.(*ssa.Store)
			if !ok {
				return
			}
			examined++
			if fa, ok := st.Addr.(*ssa.FieldAddr); ok && core.FieldOfAddr(fa) == f {
				offenders = append(offenders, core.FnName(fn))
				pos = st.Pos()
			}
		})
	}
	c.Check(rule, "report-batch-producers", pos, len(offenders) == 0,
		"no function of package pfcp writes SessReport.Reports: batches reach ServeReport as the data-plane side built them (one report per buffered packet)"+
			map[bool]string{true: "", false: " — written by " + strings.Join(offenders, ", ") + ": ServeReport returns from its loop in the downlink-data arm and drops the rest of a merged batch"}[len(offenders) == 0])
	c.Floor(rule, examined, 50, "stores examined in package pfcp")
}

// ---- multi-URR query: every request is bounded ----------------------------------------------------------------

// batchArgBounded: the OID list handed to a multi-report request is the accumulator itself — grown by one OID per
// append and emptied behind every flush (the other C15 R3 rules) — never an append of a second list, whose length
// the per-message limit does not see.
func batchArgBounded(c *core.Ctx, rule string) {
	p := c.P
	fn := fnOf(c, rule, pkgFwd, "Gtp5g", "queryMultiURR")
	if fn == nil {
		return
	}
	n := 0
	core.Instrs(fn, func(in ssa.Instruction) {
		ci, ok := in.(ssa.CallInstruction)
		if !ok {
			return
		}
		f := core.Callee(ci)
		if f == nil || f.Pkg() == nil || !strings.HasSuffix(f.Pkg().Path(), "go-gtp5gnl") || f.Name() != "GetMultiReportsOID" {
			return
		}
		args := ci.Common().Args
		if len(args) == 0 {
			return
		}
		n++
		ok2, why := oneByOne(args[len(args)-1], map[ssa.Value]bool{}, 0)
		c.Check(rule, fmt.Sprintf("batch-arg-bounded#%d", n), ci.Pos(), ok2,
			"the OID list of this multi-report request grows by single appends only"+map[bool]string{true: "", false: " — " + why + " (" + p.Pos(ci.Pos()) + ")"}[ok2])
	})
	c.Floor(rule, n, 2, "multi-report requests in queryMultiURR")
}

func oneByOne(v ssa.Value, seen map[ssa.Value]bool, depth int) (bool, string) {
	if seen[v] || depth > 20 {
		return true, ""
	}
	seen[v] = true
	switch x := v.(type) {
	case *ssa.Const:
		return true, ""
	case *ssa.Phi:
		for _, e := range x.Edges {
			if ok, why := oneByOne(e, seen, depth+1); !ok {
				return false, why
			}
		}
		return true, ""
	case *ssa.Slice:
		if _, isAlloc := x.X.(*ssa.Alloc); isAlloc {
			return true, "" // literal
		}
		return oneByOne(x.X, seen, depth+1)
	case *ssa.MakeSlice:
		return true, ""
	case *ssa.Call:
		if bi, ok := x.Call.Value.(*ssa.Builtin); ok && bi.Name() == "append" && len(x.Call.Args) == 2 {
			if sl, ok := x.Call.Args[1].(*ssa.Slice); ok {
				if al, ok := sl.X.(*ssa.Alloc); ok {
					if at, ok := al.Type().Underlying().(*types.Pointer).Elem().Underlying().(*types.Array); ok && at.Len() == 1 {
						return oneByOne(x.Call.Args[0], seen, depth+1)
					}
				}
			}
			return false, "a whole list is appended to the batch (" + x.String() + ")"
		}
	case *ssa.UnOp:
		if al, ok := x.X.(*ssa.Alloc); ok && x.Op == token.MUL {
			for _, ref := range *al.Referrers() {
				if st, ok := ref.(*ssa.Store); ok && st.Addr == al {
					if ok2, why := oneByOne(st.Val, seen, depth+1); !ok2 {
						return false, why
					}
				}
			}
			return true, ""
		}
	}
	return false, fmt.Sprintf("the list comes from %s", v.String())
}

// ---- Node ID IE ----------------------------------------------------------------------------------------------

// nodeIDFromConfig: the Node ID the UPF announces is the configured string: every argument of ie.NewNodeID in package
// pfcp that is not the empty string derives from PfcpServer.nodeID, which is stored only from the configuration.
func nodeIDFromConfig(c *core.Ctx, rule string) {
	p := c.P
	nodeF := p.Field(pkgPfcp, "PfcpServer", "nodeID")
	if nodeF == nil {
		c.Anchor(rule, "pfcp.PfcpServer.nodeID")
		return
	}
	cfgF := p.Field(pkgFact, "Pfcp", "NodeID")
	var fromCfg func(v ssa.Value, seen map[ssa.Value]bool, depth int) (bool, string)
	fromCfg = func(v ssa.Value, seen map[ssa.Value]bool, depth int) (bool, string) {
		if seen[v] || depth > 10 {
			return true, ""
		}
		seen[v] = true
		switch x := v.(type) {
		case *ssa.Const:
			return true, ""
		case *ssa.Phi:
			for _, e := range x.Edges {
				if ok, why := fromCfg(e, seen, depth+1); !ok {
					return false, why
				}
			}
			return true, ""
		case *ssa.UnOp:
			if _, f, ok := core.LoadedField(x); ok && (f == nodeF || (cfgF != nil && f == cfgF)) {
				return true, ""
			}
		case *ssa.Parameter:
			fn := x.Parent()
			idx := -1
			for i, q := range fn.Params {
				if q == x {
					idx = i
				}
			}
			edges := p.Callers(fn)
			if len(edges) == 0 {
				return false, "parameter of a function without resolvable callers"
			}
			for _, e := range edges {
				if e.Site == nil || e.Site.Common().IsInvoke() || idx >= len(e.Site.Common().Args) {
					return false, "dynamic call"
				}
				if !p.IsOwnFn(e.Caller.Func) || strings.Contains(core.FnPkg(e.Caller.Func).Path(), "/testtools") {
					continue
				}
				if ok, why := fromCfg(e.Site.Common().Args[idx], seen, depth+1); !ok {
					return false, why
				}
			}
			return true, ""
		}
		return false, "argument " + v.String() + " is not the configured node id"
	}
	n := 0
	for _, fn := range p.OwnFuncs() {
		pk := core.FnPkg(fn)
		if pk == nil || pk.Path() != pkgPfcp || fn.Blocks == nil {
			continue
		}
		core.Instrs(fn, func(in ssa.Instruction) {
			ci, ok := in.(ssa.CallInstruction)
			if !ok {
				return
			}
			f := core.Callee(ci)
			if f == nil || f.Pkg() == nil || !strings.HasSuffix(f.Pkg().Path(), "go-pfcp/ie") || f.Name() != "NewNodeID" {
				return
			}
			for _, a := range ci.Common().Args {
				n++
				ok2, why := fromCfg(a, map[ssa.Value]bool{}, 0)
				c.Check(rule, fmt.Sprintf("node-id-ie-from-config:%s#%d", core.FnName(fn), n), ci.Pos(), ok2,
					"the Node ID IE carries the configured node id as it is"+map[bool]string{true: "", false: " — " + why}[ok2])
			}
		})
	}
	c.Floor(rule, n, 3, "arguments of ie.NewNodeID in package pfcp")
	// who may write the field
	for _, fn := range p.OwnFuncs() {
		if fn.Blocks == nil {
			continue
		}
		core.Instrs(fn, func(in ssa.Instruction) {
			st, ok := in.(*ssa.Store)
			if !ok {
				return
			}
			fa, ok := st.Addr.(*ssa.FieldAddr)
			if !ok || core.FieldOfAddr(fa) != nodeF {
				return
			}
			_, f, isLoad := core.LoadedField(st.Val)
			c.Check(rule, "node-id-stored-from-config:"+core.FnName(fn), st.Pos(), isLoad && cfgF != nil && f == cfgF,
				"PfcpServer.nodeID is set from the configuration's pfcp.nodeID, unchanged")
		})
	}
}

// ---- server-wide tables keyed by a peer-chosen number ----------------------------------------------------------

// peerChosenKeys: a table of the server or the local node (one per UPF) is never keyed by a session's CP SEID alone:
// that number is chosen by the peer, two control-plane nodes may pick the same one, and the entry of one session
// then stands for another's.  CP-SEID sources: the session field RemoteID, and the header SEID of a Session Report
// Request (the only request the UPF sends, addressed by the peer's SEID).
func peerChosenKeys(c *core.Ctx, rule string) {
	p := c.P
	srv := p.Named(pkgPfcp, "PfcpServer")
	ln := p.Named(pkgPfcp, "LocalNode")
	remoteID := p.Field(pkgPfcp, "Sess", "RemoteID")
	if srv == nil || ln == nil || remoteID == nil {
		c.Anchor(rule, "pfcp.PfcpServer / LocalNode / Sess.RemoteID")
		return
	}
	isServerWide := func(fa *ssa.FieldAddr) bool {
		t := fa.X.Type()
		if pt, ok := t.Underlying().(*types.Pointer); ok {
			t = pt.Elem()
		}
		return types.Identical(t, srv) || types.Identical(t, ln)
	}
	var tainted func(v ssa.Value, seen map[ssa.Value]bool, depth int) (cp bool, peer bool)
	tainted = func(v ssa.Value, seen map[ssa.Value]bool, depth int) (bool, bool) {
		if v == nil || seen[v] || depth > 12 {
			return false, false
		}
		seen[v] = true
		cp, peer := false, false
		merge := func(a, b bool) { cp, peer = cp || a, peer || b }
		switch x := v.(type) {
		case *ssa.UnOp:
			if _, f, ok := core.LoadedField(x); ok {
				if f == remoteID {
					return true, false
				}
				if f.Name() == "ID" || f.Name() == "addr" || f.Name() == "raddr" {
					return false, true
				}
			}
			merge(tainted(x.X, seen, depth+1))
		case *ssa.Call:
			if f := core.Callee(x); f != nil {
				if f.Name() == "SEID" && len(x.Call.Args)+boolInt(x.Call.IsInvoke()) >= 1 {
					var recv ssa.Value
					if x.Call.IsInvoke() {
						recv = x.Call.Value
					} else if len(x.Call.Args) > 0 {
						recv = x.Call.Args[0]
					}
					if recv != nil && strings.Contains(recv.Type().String(), "SessionReportRequest") {
						return true, false
					}
				}
				if f.Name() == "String" && x.Call.IsInvoke() && isNetAddrT(x.Call.Value.Type()) {
					return false, true
				}
			}
			for _, a := range x.Call.Args {
				merge(tainted(a, seen, depth+1))
			}
			if x.Call.IsInvoke() {
				merge(tainted(x.Call.Value, seen, depth+1))
			}
		case *ssa.Phi:
			for _, e := range x.Edges {
				merge(tainted(e, seen, depth+1))
			}
		case *ssa.BinOp:
			merge(tainted(x.X, seen, depth+1))
			merge(tainted(x.Y, seen, depth+1))
		case *ssa.Convert:
			merge(tainted(x.X, seen, depth+1))
		case *ssa.ChangeType:
			merge(tainted(x.X, seen, depth+1))
		case *ssa.MakeInterface:
			merge(tainted(x.X, seen, depth+1))
		case *ssa.Slice:
			merge(tainted(x.X, seen, depth+1))
		case *ssa.Alloc:
			for _, ref := range *x.Referrers() {
				switch r := ref.(type) {
				case *ssa.Store:
					if r.Addr == x {
						merge(tainted(r.Val, seen, depth+1))
					}
				case *ssa.IndexAddr:
					for _, rr := range *r.Referrers() {
						if st, ok := rr.(*ssa.Store); ok {
							merge(tainted(st.Val, seen, depth+1))
						}
					}
				case *ssa.FieldAddr:
					for _, rr := range *r.Referrers() {
						if st, ok := rr.(*ssa.Store); ok {
							merge(tainted(st.Val, seen, depth+1))
						}
					}
				}
			}
		case *ssa.Field:
			if x.X.Type() != nil && strings.HasSuffix(x.X.Type().String(), "ie.FSEIDFields") && core.FieldOfField(x) != nil && core.FieldOfField(x).Name() == "SEID" {
				return true, false
			}
			merge(tainted(x.X, seen, depth+1))
		case *ssa.Extract:
			merge(tainted(x.Tuple, seen, depth+1))
		case *ssa.TypeAssert:
			merge(tainted(x.X, seen, depth+1))
		}
		if _, f, ok := core.LoadedField(v); ok && f.Name() == "SEID" {
			// <FSEID fields>.SEID of the peer's F-SEID
			if u, ok := v.(*ssa.UnOp); ok {
				if fa, ok := u.X.(*ssa.FieldAddr); ok && strings.Contains(fa.X.Type().String(), "FSEIDFields") {
					return true, peer
				}
			}
		}
		return cp, peer
	}
	n := 0
	for _, fn := range p.OwnFuncs() {
		pk := core.FnPkg(fn)
		if pk == nil || pk.Path() != pkgPfcp || fn.Blocks == nil {
			continue
		}
		core.Instrs(fn, func(in ssa.Instruction) {
			var m, key ssa.Value
			switch x := in.(type) {
			case *ssa.MapUpdate:
				m, key = x.Map, x.Key
			case *ssa.Lookup:
				if _, isMap := x.X.Type().Underlying().(*types.Map); isMap {
					m, key = x.X, x.Index
				}
			case *ssa.Call:
				if bi, ok := x.Call.Value.(*ssa.Builtin); ok && bi.Name() == "delete" && len(x.Call.Args) == 2 {
					m, key = x.Call.Args[0], x.Call.Args[1]
				}
			}
			if m == nil {
				return
			}
			ld, ok := m.(*ssa.UnOp)
			if !ok {
				return
			}
			fa, ok := ld.X.(*ssa.FieldAddr)
			if !ok || !isServerWide(fa) {
				return
			}
			n++
			cp, peer := tainted(key, map[ssa.Value]bool{}, 0)
			okKey := !cp || peer
			c.Check(rule, fmt.Sprintf("peer-chosen-key:%s.%s:%s", fieldOwnerName(fa), core.FieldOfAddr(fa).Name(), core.FnName(fn)), in.Pos(), okKey,
				"the server-wide table "+core.FieldOfAddr(fa).Name()+" is not keyed by a CP-chosen SEID alone"+
					map[bool]string{true: "", false: " — the key derives from the peer's SEID without the peer's identity: two control-plane nodes using the same SEID share the entry"}[okKey])
		})
	}
	c.Floor(rule, n, 6, "accesses to server-wide tables in package pfcp")
}

func boolInt(b bool) int {
	if b {
		return 1
	}
	return 0
}

func fieldOwnerName(fa *ssa.FieldAddr) string {
	t := fa.X.Type()
	if pt, ok := t.Underlying().(*types.Pointer); ok {
		t = pt.Elem()
	}
	if n, ok := t.(*types.Named); ok {
		return n.Obj().Name()
	}
	return t.String()
}

// ---- nil maps ------------------------------------------------------------------------------------------------

// nilMapWrites: a map held in a field of a per-session record (PDRInfo, URRInfo, Sess) that is written on the request
// path is allocated wherever such a record is built: a record literal that leaves the field out (or sets it only
// under a condition) makes the first write panic under the event loop.
func nilMapWrites(c *core.Ctx, rule string) {
	p := c.P
	n := 0
	for _, tn := range []string{"PDRInfo", "URRInfo", "Sess"} {
		named := p.Named(pkgPfcp, tn)
		if named == nil {
			continue
		}
		st, ok := named.Underlying().(*types.Struct)
		if !ok {
			continue
		}
		for i := 0; i < st.NumFields(); i++ {
			f := st.Field(i)
			if _, isMap := f.Type().Underlying().(*types.Map); !isMap {
				continue
			}
			// is the field's map written anywhere (MapUpdate on a load of the field)?
			written := false
			for _, fn := range p.OwnFuncs() {
				if fn.Blocks == nil {
					continue
				}
				core.Instrs(fn, func(in ssa.Instruction) {
					if mu, ok := in.(*ssa.MapUpdate); ok {
						if _, lf, ok := core.LoadedField(mu.Map); ok && lf == f {
							written = true
						}
					}
				})
			}
			if !written {
				continue
			}
			// every allocation of the record stores a made map into the field before the record escapes the block
			for _, fn := range p.OwnFuncs() {
				if fn.Blocks == nil || core.FnPkg(fn) == nil || core.FnPkg(fn).Path() != pkgPfcp {
					continue
				}
				core.Instrs(fn, func(in ssa.Instruction) {
					al, ok := in.(*ssa.Alloc)
					if !ok || !types.Identical(al.Type().Underlying().(*types.Pointer).Elem(), named) {
						return
					}
					n++
					set := false
					for _, ref := range *al.Referrers() {
						fa, ok := ref.(*ssa.FieldAddr)
						if !ok || core.FieldOfAddr(fa) != f {
							continue
						}
						for _, rr := range *fa.Referrers() {
							if s, ok := rr.(*ssa.Store); ok && s.Addr == fa && s.Block() == al.Block() {
								// a made map, or whatever a helper returns; not nil and not a merge that may carry nil
								set = mapNeverNil(s.Val, map[ssa.Value]bool{})
							}
						}
					}
					c.Check(rule, fmt.Sprintf("map-allocated:%s.%s:%s", tn, f.Name(), core.FnName(fn)), al.Pos(), set,
						"a "+tn+" record is built with its "+f.Name()+" map allocated (the map is written on the request path; a nil map panics under the event loop)")
				})
			}
		}
	}
	c.Floor(rule, n, 2, "per-session records with a written map field")
}

func mapNeverNil(v ssa.Value, seen map[ssa.Value]bool) bool {
	if seen[v] {
		return true
	}
	seen[v] = true
	switch x := v.(type) {
	case *ssa.MakeMap:
		return true
	case *ssa.Const:
		return !x.IsNil()
	case *ssa.Phi:
		for _, e := range x.Edges {
			if !mapNeverNil(e, seen) {
				return false
			}
		}
		return true
	case *ssa.Call:
		if callee := x.Call.StaticCallee(); callee != nil && callee.Blocks != nil {
			ok := true
			core.Instrs(callee, func(in ssa.Instruction) {
				if r, isR := in.(*ssa.Return); isR && len(r.Results) > 0 && !mapNeverNil(r.Results[0], seen) {
					ok = false
				}
			})
			return ok
		}
		return false
	case *ssa.ChangeType:
		return mapNeverNil(x.X, seen)
	}
	return false
}

// ---- mutexes on the event loop ---------------------------------------------------------------------------------

// lockReentrancy: while a mutex of own code is held, nothing is called that can take the same mutex again
// (sync.Mutex is not re-entrant: the goroutine would wait for itself for ever).  Region = instructions reachable from
// the Lock up to the matching Unlock on the same field; a deferred Unlock extends the region to the function's end.
func lockReentrancy(c *core.Ctx, rule string) {
	p := c.P
	type lockSite struct {
		fn    *ssa.Function
		call  ssa.CallInstruction
		field *types.Var
	}
	mutexField := func(ci ssa.CallInstruction, names ...string) *types.Var {
		f := core.Callee(ci)
		if f == nil || f.Pkg() == nil || f.Pkg().Path() != "sync" {
			return nil
		}
		okName := false
		for _, n := range names {
			if f.Name() == n {
				okName = true
			}
		}
		if !okName || len(ci.Common().Args) == 0 {
			return nil
		}
		if fa, ok := ci.Common().Args[0].(*ssa.FieldAddr); ok {
			return core.FieldOfAddr(fa)
		}
		return nil
	}
	var locks []lockSite
	lockers := map[*types.Var]map[*ssa.Function]bool{}
	for _, fn := range p.OwnFuncs() {
		if fn.Blocks == nil {
			continue
		}
		fn := fn
		core.Instrs(fn, func(in ssa.Instruction) {
			ci, ok := in.(ssa.CallInstruction)
			if !ok {
				return
			}
			if _, isDefer := in.(*ssa.Defer); isDefer {
				return
			}
			if f := mutexField(ci, "Lock", "RLock"); f != nil {
				locks = append(locks, lockSite{fn, ci, f})
				if lockers[f] == nil {
					lockers[f] = map[*ssa.Function]bool{}
				}
				lockers[f][fn] = true
			}
		})
	}
	c.Extra["own_mutex_lock_sites"] = len(locks)
	for i, l := range locks {
		// region: forward from the lock until an Unlock of the same field (non-deferred)
		var region []ssa.CallInstruction
		seenB := map[*ssa.BasicBlock]bool{}
		var walk func(b *ssa.BasicBlock, from int)
		walk = func(b *ssa.BasicBlock, from int) {
			for j := from; j < len(b.Instrs); j++ {
				in := b.Instrs[j]
				ci, ok := in.(ssa.CallInstruction)
				if !ok {
					continue
				}
				if _, isDefer := in.(*ssa.Defer); !isDefer {
					if f := mutexField(ci, "Unlock", "RUnlock"); f == l.field {
						return
					}
				}
				if _, isGo := in.(*ssa.Go); isGo {
					continue
				}
				if _, isDefer := in.(*ssa.Defer); isDefer {
					continue
				}
				region = append(region, ci)
			}
			for _, s := range b.Succs {
				if !seenB[s] {
					seenB[s] = true
					walk(s, 0)
				}
			}
		}
		idx := 0
		for j, in := range l.call.Block().Instrs {
			if in == l.call.(ssa.Instruction) {
				idx = j + 1
			}
		}
		walk(l.call.Block(), idx)
		bad := ""
		for _, ci := range region {
			var roots []*ssa.Function
			if n := p.CallGraph().Nodes[l.fn]; n != nil {
				for _, e := range n.Out {
					if e.Site == ci {
						roots = append(roots, e.Callee.Func)
					}
				}
			}
			if len(roots) == 0 {
				continue
			}
			reach := p.ReachFrom(roots, true)
			for g := range lockers[l.field] {
				if _, ok := reach[g]; ok {
					bad = fmt.Sprintf("the call at %s can reach %s, which locks %s again", p.Pos(ci.Pos()), core.FnName(g), l.field.Name())
					break
				}
			}
			if bad != "" {
				break
			}
		}
		c.Check(rule, fmt.Sprintf("lock-not-reentered:%s:%s#%d", l.field.Name(), core.FnName(l.fn), i+1), l.call.Pos(), bad == "",
			"nothing called while "+l.field.Name()+" is held takes it again"+map[bool]string{true: "", false: " — " + bad}[bad == ""])
	}
}
