package rules

import (
	"fmt"
	"go/token"
	"go/types"
	"regexp"
	"sort"
	"strings"

	"golang.org/x/tools/go/ssa"

	"upfcheck/internal/core"
)

func init() {
	Registry["C01"] = C01
	Registry["C05"] = C05
}

var ruleMethod = regexp.MustCompile(`^(Create|Update|Remove|Query)(PDR|FAR|QER|URR|BAR)$`)

type drvCall struct {
	fn         *ssa.Function
	call       ssa.CallInstruction
	verb, kind string
}

// driverCalls lists every call of a rule method of the forwarder.Driver interface in own code.
func driverCalls(c *core.Ctx) ([]drvCall, []string) {
	p := c.P
	drv := p.Named(pkgFwd, "Driver")
	if drv == nil {
		c.Anchor("R1", "forwarder.Driver")
		return nil, nil
	}
	it, ok := drv.Underlying().(*types.Interface)
	if !ok {
		c.Anchor("R1", "forwarder.Driver is not an interface")
		return nil, nil
	}
	methods := map[*types.Func]bool{}
	var names []string
	for i := 0; i < it.NumMethods(); i++ {
		if ruleMethod.MatchString(it.Method(i).Name()) {
			methods[it.Method(i)] = true
			names = append(names, it.Method(i).Name())
		}
	}
	sort.Strings(names)
	var out []drvCall
	for _, fn := range p.OwnFuncs() {
		core.Instrs(fn, func(in ssa.Instruction) {
			ci, ok := in.(ssa.CallInstruction)
			if !ok || !ci.Common().IsInvoke() || !methods[ci.Common().Method] {
				return
			}
			m := ruleMethod.FindStringSubmatch(ci.Common().Method.Name())
			// a session method written as a plain function `f(s *Sess, ...)` is judged as the method it is
			if obj, isF := fn.Object().(*types.Func); isF && fn.Signature.Recv() == nil && fn.Signature.Params().Len() > 0 {
				t := fn.Signature.Params().At(0).Type()
				if pt, isP := t.(*types.Pointer); isP {
					if nn, isN := pt.Elem().(*types.Named); isN && nn.Obj().Name() == "Sess" && nn.Obj().Pkg() != nil && strings.HasSuffix(nn.Obj().Pkg().Path(), pkgPfcp) {
						core.PseudoMethod[obj] = true
					}
				}
			}
			out = append(out, drvCall{fn, ci, m[1], m[2]})
		})
	}
	return out, names
}

// guardLookup finds the comma-ok map lookup whose ok==true edge dominates instruction `at`;
// returns the lookup and the field the map was loaded from.
func guardLookups(at ssa.Instruction) []*ssa.Lookup {
	var out []*ssa.Lookup
	for _, f := range core.FactsAt(at.Block()) {
		if !f.True {
			continue
		}
		ex, ok := f.V.(*ssa.Extract)
		if !ok || ex.Index != 1 {
			continue
		}
		if lk, ok := ex.Tuple.(*ssa.Lookup); ok && lk.CommaOk {
			out = append(out, lk)
		}
	}
	return out
}

// idSets derives, per rule kind, the Sess map field that records the ids (the field looked up before
// Driver.Remove<K> is called).
func idSets(c *core.Ctx, calls []drvCall) map[string]*types.Var {
	sets := map[string]*types.Var{}
	for _, d := range calls {
		if d.verb != "Remove" {
			continue
		}
		recv := core.Recv(d.fn)
		for _, lk := range guardLookups(d.call) {
			if b, f, ok := core.LoadedField(lk.X); ok && recv != nil && core.Unwrap(b) == ssa.Value(recv) {
				sets[d.kind] = f
			}
		}
	}
	for _, k := range []string{"PDR", "FAR", "QER", "URR", "BAR"} {
		if sets[k] == nil {
			c.Undecided("R2", "id-set:"+k, token.NoPos, "cannot derive the per-session id set of "+k+" (no guarded Driver.Remove"+k+" call found)")
		}
	}
	return sets
}

func C01(c *core.Ctx) {
	c.Explain = "A typestate/ownership discipline between the per-session rule-id sets and the data-plane driver, decided on every path of the Sess methods and of the " +
		"three session-end paths, for every request history and every failure position (a failing driver call is just the err != nil edge): (R1) rule methods of " +
		"forwarder.Driver are called only from methods of *Sess, at least once each; (R2) the id is recorded in the session's set before Driver.Create<K> is called, so " +
		"a failed create is still withdrawn later; (R3) Driver.Update/Remove/Query<K> is reachable only through the found edge of a lookup in that set; (R4) an id is " +
		"forgotten only after Driver.Remove<K> succeeded (who-may-delete); (R5) Sess.Close ranges over all five sets, calling the matching Remove<K> for every id, on " +
		"every path; (R6) session deletion, node re-association and the SEID-0 report response all reach Close through RemoteNode.DeleteSess -> LocalNode.DeleteSess; " +
		"the node table is rewritten only after Reset() of the found node; (R7) no rule method is called on a session after its deletion on the same path."
	c.Undec = []string{"that the kernel really removes a rule on Remove*", "id collisions inside one request (two Create PDR with one id overwrite the bookkeeping)",
		"the effect of a node-id takeover on another node's sessions (C05 known finding)"}
	c.Assume = []string{"call graph over-approximates", "confinement to the event loop (C17)"}
	p := c.P
	calls, names := driverCalls(c)
	if calls == nil {
		return
	}
	sessT := p.Named(pkgPfcp, "Sess")

	// R1
	seen := map[string]int{}
	for _, d := range calls {
		m := d.verb + d.kind
		seen[m]++
		onSess := false
		if r := core.Recv(d.fn); r != nil {
			if pt, ok := r.Type().(*types.Pointer); ok && types.Identical(pt.Elem(), sessT) {
				onSess = true
			}
		}
		c.Check("R1", fmt.Sprintf("driver-caller:%s:%s#%d", core.FnName(d.fn), m, seen[m]), d.call.Pos(), onSess,
			"Driver."+m+" is called from a method of *Sess (the session's bookkeeping is the only way to the data plane)")
	}
	for _, n := range names {
		c.Check("R1", "driver-method-used:"+n, token.NoPos, seen[n] >= 1, fmt.Sprintf("Driver.%s has %d call site(s) in *Sess methods", n, seen[n]))
	}
	// no direct (static) calls of concrete driver methods from the PFCP package
	for _, fn := range p.OwnFuncs() {
		if core.FnPkg(fn).Path() != pkgPfcp {
			continue
		}
		core.Instrs(fn, func(in ssa.Instruction) {
			if ci, ok := in.(ssa.CallInstruction); ok && !ci.Common().IsInvoke() {
				if f := core.Callee(ci); f != nil && ruleMethod.MatchString(f.Name()) {
					if n := core.RecvNamed(f); n != nil && n.Obj().Pkg() != nil && n.Obj().Pkg().Path() == pkgFwd {
						c.Check("R1", "direct-driver-call:"+core.FnName(fn)+":"+f.Name(), ci.Pos(), false, "a concrete driver method is called directly, bypassing the session bookkeeping")
					}
				}
			}
		})
	}

	sets := idSets(c, calls)

	// R2, R3, R4
	for _, d := range calls {
		set := sets[d.kind]
		if set == nil {
			continue
		}
		recv := core.Recv(d.fn)
		key := fmt.Sprintf("%s:%s%s", core.FnName(d.fn), d.verb, d.kind)
		switch d.verb {
		case "Create":
			rec := false
			core.Instrs(d.fn, func(in ssa.Instruction) {
				if mu, ok := in.(*ssa.MapUpdate); ok && core.IsPath(mu.Map, recv, set.Name()) && core.InstrDominates(mu, d.call) {
					rec = true
				}
			})
			c.Check("R2", "record-before-create:"+key, d.call.Pos(), rec, "the id is stored in "+set.Name()+" before Driver.Create"+d.kind+" is called (a failed create is still cleaned up at session end)")
		default:
			guarded := false
			for _, lk := range guardLookups(d.call) {
				if core.IsPath(lk.X, recv, set.Name()) {
					guarded = true
				}
			}
			c.Check("R3", "found-before-touch:"+key, d.call.Pos(), guarded, "Driver."+d.verb+d.kind+" is reachable only when the id was found in "+set.Name())
		}
	}
	// R4: who may delete from the sets, and only after a successful driver remove
	emission := map[string]bool{}
	for _, e := range emissionSites {
		if e.fn == "serveUSAReport" {
			continue
		}
		if f, _ := emissionFn(p, e.fn, e.ies); f != nil {
			emission[f.Name()] = true
		}
	}
	for _, fn := range p.OwnFuncs() {
		core.Instrs(fn, func(in ssa.Instruction) {
			dc, ok := in.(*ssa.Call)
			if !ok {
				return
			}
			bi, ok := dc.Call.Value.(*ssa.Builtin)
			if !ok || bi.Name() != "delete" {
				return
			}
			_, f, ok := core.LoadedField(dc.Call.Args[0])
			if !ok {
				return
			}
			for kind, set := range sets {
				if f != set {
					continue
				}
				if kind == "URR" {
					// the URR record is dropped at the emission sites, under its removed mark (C11 R3)
					c.Check("R4", "forget-site:URR:"+core.FnName(fn), dc.Pos(), emission[fn.Name()], "URR records are dropped only where their final report is emitted")
					continue
				}
				var rm ssa.CallInstruction
				for _, d := range calls {
					if d.fn == fn && d.verb == "Remove" && d.kind == kind {
						rm = d.call
					}
				}
				ok := rm != nil && core.InstrDominates(rm.(ssa.Instruction), dc)
				if ok {
					errV := rm.Value()
					if errV != nil {
						if _, isTuple := errV.Type().(*types.Tuple); isTuple {
							ok = false
							for _, r := range *errV.Referrers() {
								if ex, o := r.(*ssa.Extract); o && ex.Index == 1 && core.NilKnownAt(dc.Block(), ex, true) {
									ok = true
								}
							}
						} else {
							ok = core.NilKnownAt(dc.Block(), errV, true)
						}
					}
				}
				c.Check("R4", "forget-after-remove:"+kind+":"+core.FnName(fn), dc.Pos(), ok, "the "+kind+" id is deleted from "+set.Name()+" only after Driver.Remove"+kind+" returned without error")
			}
		})
	}

	c01Close(c, sets)
	c01RemoveForwarded(c, "R9", calls, sets)
	// R3 continued: below the driver interface the request is addressed {SEID, id} as well
	gnlOidForm(c, "R3")
	// R4 continued: the URR record is dropped at an emission site only under its removed mark (C11 R3) - a record
	// dropped for any other reason (a termination report of a URR that merely lost its last PDR) is a rule the
	// session forgets while it is still installed
	shareFrom(c, "C11", "R4", func(o *core.Obligation) bool { return o.Rule == "R3" && strings.Contains(o.Key, "/R3/record-dropped") }, 2, "places that drop a URR record")
	// R5 continued: Close withdraws through Driver.Remove<K>, and the gtp5g driver turns each into the netlink
	// removal of that very kind (C02/C03 R5 oid-call)
	shareFrom(c, "C02", "R5", func(o *core.Obligation) bool { return o.Rule == "R5" && strings.Contains(o.Key, "/R5/oid-call:Remove") }, 2, "PDR/FAR removals of the gtp5g driver")
	shareFrom(c, "C03", "R5", func(o *core.Obligation) bool { return o.Rule == "R5" && strings.Contains(o.Key, "/R5/oid-call:Remove") }, 3, "QER/URR/BAR removals of the gtp5g driver")
	handlerDispatch(c, "R1", nil)
	c01EndPaths(c, "R6", true)
	// R8: periodic queries are data-plane operations too: a URR is registered for them once (by Create URR)
	// and Remove URR always unregisters it, so no query outlives the rule (shared with C03 R8)
	c03Periodic(c, "R8", false)
}

// R5
func c01Close(c *core.Ctx, sets map[string]*types.Var) {
	p := c.P
	fn := fnOf(c, "R5", pkgPfcp, "Sess", "Close")
	if fn == nil {
		return
	}
	recv := core.Recv(fn)
	var rets []*ssa.Return
	core.Instrs(fn, func(in ssa.Instruction) {
		if r, ok := in.(*ssa.Return); ok {
			rets = append(rets, r)
		}
	})
	for _, kind := range []string{"PDR", "FAR", "QER", "URR", "BAR"} {
		set := sets[kind]
		if set == nil {
			continue
		}
		var rng *ssa.Range
		core.Instrs(fn, func(in ssa.Instruction) {
			if r, ok := in.(*ssa.Range); ok && core.IsPath(r.X, recv, set.Name()) {
				rng = r
			}
		})
		if rng == nil {
			c.Check("R5", "close-drains:"+kind, fn.Pos(), false, "Sess.Close has no loop over "+set.Name())
			continue
		}
		onAll := true
		for _, r := range rets {
			if !core.InstrDominates(rng, r) {
				onAll = false
			}
		}
		c.Check("R5", "close-drains:"+kind, rng.Pos(), onAll, "the loop over "+set.Name()+" lies on every path of Sess.Close")
		// the body calls Sess.Remove<K> for the iterated id
		rm := p.Method(pkgPfcp, "Sess", "Remove"+kind)
		called := false
		for _, ci := range core.Calls(fn, rm) {
			if core.CallRecv(ci) != ssa.Value(recv) {
				continue
			}
			for _, f := range core.FactsAt(ci.(ssa.Instruction).Block()) {
				if ex, ok := f.V.(*ssa.Extract); ok && f.True && ex.Index == 0 {
					if nx, ok := ex.Tuple.(*ssa.Next); ok && nx.Iter == ssa.Value(rng) {
						// the IE argument is built from the iteration key
						if derivesFromNextKey(core.CallArgs(ci)[0], nx, 0) {
							called = true
							// every iteration reaches the call: no path from the loop body's entry back to the
							// loop header (continue) or out of the loop avoids it
							hdr := nx.Block()
							var body *ssa.BasicBlock
							if iff, isIf := hdr.Instrs[len(hdr.Instrs)-1].(*ssa.If); isIf {
								body = iff.Block().Succs[0]
							}
							skips := false
							if body != nil {
								cb := ci.(ssa.Instruction).Block()
								seen := map[*ssa.BasicBlock]bool{}
								stack := []*ssa.BasicBlock{body}
								for len(stack) > 0 {
									b := stack[len(stack)-1]
									stack = stack[:len(stack)-1]
									if seen[b] || b == cb {
										continue
									}
									seen[b] = true
									if b == hdr {
										skips = true
										break
									}
									if _, isRet := b.Instrs[len(b.Instrs)-1].(*ssa.Return); isRet {
										skips = true
										break
									}
									stack = append(stack, b.Succs...)
								}
							}
							c.Check("R5", "close-removes-every:"+kind, ci.Pos(), body != nil && !skips, "no iteration of the loop over "+set.Name()+" skips the Remove"+kind+" call")
						}
					}
				}
			}
		}
		c.Check("R5", "close-removes:"+kind, rng.Pos(), called, "for every id in "+set.Name()+" the loop body calls Sess.Remove"+kind+" with an IE built from that id")
	}
}

func derivesFromNextKey(v ssa.Value, nx *ssa.Next, depth int) bool {
	if depth > 5 {
		return false
	}
	switch x := v.(type) {
	case *ssa.Extract:
		return x.Tuple == ssa.Value(nx) && x.Index == 1
	case *ssa.Call:
		for _, a := range x.Call.Args {
			if derivesFromNextKey(a, nx, depth+1) {
				return true
			}
		}
	case *ssa.Slice:
		return derivesFromNextKey(x.X, nx, depth+1)
	case *ssa.Alloc:
		for _, r := range *x.Referrers() {
			if ia, ok := r.(*ssa.IndexAddr); ok {
				for _, u := range *ia.Referrers() {
					if st, ok := u.(*ssa.Store); ok && derivesFromNextKey(st.Val, nx, depth+1) {
						return true
					}
				}
			}
		}
	}
	return false
}

// R6, R7
func c01EndPaths(c *core.Ctx, rule string, withR7 bool) {
	p := c.P
	ok, why := freeListLemma(c, false)
	c.Check(rule, "local-delete-closes", token.NoPos, ok, "LocalNode.DeleteSess closes the session (withdrawing all its rules) before the slot is cleared and the SEID released (C04 R4) "+why)
	c04Ownership(c, rule)
	rDel := p.Method(pkgPfcp, "RemoteNode", "DeleteSess")
	rsess := p.Field(pkgPfcp, "RemoteNode", "sess")
	// RemoteNode.Reset ranges over its own set, deleting each
	if fn := fnOf(c, rule, pkgPfcp, "RemoteNode", "Reset"); fn != nil {
		recv := core.Recv(fn)
		good := false
		core.Instrs(fn, func(in ssa.Instruction) {
			rng, ok := in.(*ssa.Range)
			if !ok || !core.IsPath(rng.X, recv, rsess.Name()) {
				return
			}
			for _, ci := range core.Calls(fn, rDel) {
				if core.CallRecv(ci) != ssa.Value(recv) {
					continue
				}
				if ex, ok := core.CallArgs(ci)[0].(*ssa.Extract); ok && ex.Index == 1 {
					if nx, ok := ex.Tuple.(*ssa.Next); ok && nx.Iter == ssa.Value(rng) {
						good = true
					}
				}
			}
		})
		c.Check(rule, "reset-deletes-own", fn.Pos(), good, "RemoteNode.Reset deletes every session of the node's own SEID set (and only those)")
		// only the association handler resets a node
		reset := p.Method(pkgPfcp, "RemoteNode", "Reset")
		for _, f2 := range p.OwnFuncs() {
			for _, ci := range core.Calls(f2, reset) {
				n := f2.Name()
				c.Check(rule, "reset-caller:"+core.FnName(f2), ci.Pos(), n == "handleAssociationSetupRequest",
					"RemoteNode.Reset (removes every session of a node) runs only on re-association of that node")
			}
		}
	}
	// association handler: found node is Reset before the table entry is replaced
	rnodes := p.Field(pkgPfcp, "PfcpServer", "rnodes")
	if fn := fnOf(c, rule, pkgPfcp, "PfcpServer", "handleAssociationSetupRequest"); fn != nil && rnodes != nil {
		var lk *ssa.Lookup
		core.Instrs(fn, func(in ssa.Instruction) {
			if l, ok := in.(*ssa.Lookup); ok && l.CommaOk {
				if _, f, ok := core.LoadedField(l.X); ok && f == rnodes {
					lk = l
				}
			}
		})
		reset := p.Method(pkgPfcp, "RemoteNode", "Reset")
		var resetCall ssa.CallInstruction
		if lk != nil {
			var okV, node ssa.Value
			for _, r := range *lk.Referrers() {
				if ex, o := r.(*ssa.Extract); o {
					if ex.Index == 0 {
						node = ex
					} else {
						okV = ex
					}
				}
			}
			for _, ci := range core.Calls(fn, reset) {
				if core.CallRecv(ci) == node && okV != nil && core.KnownAt(ci.(ssa.Instruction).Block(), okV, true) {
					resetCall = ci
				}
			}
			// every block on the found edge: the reset call must dominate its exits into the merge
			covered := resetCall != nil
			if covered {
				for _, b := range fn.Blocks {
					if okV != nil && core.KnownAt(b, okV, true) {
						for _, s := range b.Succs {
							if !core.KnownAt(s, okV, true) && !resetCall.(ssa.Instruction).Block().Dominates(b) {
								covered = false
							}
						}
					}
				}
			}
			c.Check(rule, "reassociation-resets", lk.Pos(), covered, "when the node id is already associated, Reset() of that very node runs before its table entry is replaced")
			// writes of the node table in this handler use the same key and come after the lookup
			core.Instrs(fn, func(in ssa.Instruction) {
				if mu, ok := in.(*ssa.MapUpdate); ok {
					if _, f, ok := core.LoadedField(mu.Map); ok && f == rnodes {
						c.Check(rule, "reassociation-store", mu.Pos(), mu.Key == lk.Index && core.InstrDominates(lk, mu), "the new node is stored under the looked-up node id, after the existing entry was handled")
					}
				}
			})
		} else {
			c.Check(rule, "reassociation-resets", fn.Pos(), false, "the association handler does not look the node id up")
		}
	}
	// LocalNode.Reset / RemoteNode.Reset callers
	lreset := p.Method(pkgPfcp, "LocalNode", "Reset")
	for _, fn := range p.OwnFuncs() {
		for _, ci := range core.Calls(fn, lreset) {
			c.Check(rule, "local-reset-caller:"+core.FnName(fn), ci.Pos(), false, "LocalNode.Reset (closes the sessions of ALL nodes) is called from a request path")
		}
	}
	// node table writers
	for _, fn := range p.OwnFuncs() {
		core.Instrs(fn, func(in ssa.Instruction) {
			var m ssa.Value
			switch x := in.(type) {
			case *ssa.MapUpdate:
				m = x.Map
			case *ssa.Call:
				if bi, ok := x.Call.Value.(*ssa.Builtin); ok && bi.Name() == "delete" {
					m = x.Call.Args[0]
				}
			}
			if m == nil {
				return
			}
			if _, f, ok := core.LoadedField(m); ok && f == rnodes {
				n := fn.Name()
				c.Check(rule, "node-table-writer:"+core.FnName(fn), in.Pos(), n == "handleAssociationSetupRequest" || n == "UpdateNodeID",
					"the node table is written only by the association handler and the node-id takeover")
			}
		})
	}
	// node-id takeover: the old key is dropped BEFORE the node is stored under the new one (when both ids are
	// equal - a Modification repeating the current Node ID - delete-after-store removes the node from the table:
	// a later re-association finds nothing to reset)
	if fn := p.SSAFn(p.Method(pkgPfcp, "PfcpServer", "UpdateNodeID")); fn != nil && rnodes != nil {
		var stores, dels []ssa.Instruction
		core.Instrs(fn, func(in ssa.Instruction) {
			switch x := in.(type) {
			case *ssa.MapUpdate:
				if _, f, ok := core.LoadedField(x.Map); ok && f == rnodes {
					stores = append(stores, x)
				}
			case *ssa.Call:
				if bi, ok := x.Call.Value.(*ssa.Builtin); ok && bi.Name() == "delete" {
					if _, f, ok := core.LoadedField(x.Call.Args[0]); ok && f == rnodes {
						dels = append(dels, x)
					}
				}
			}
		})
		// the takeover renames the node object in place: its set of sessions is part of that object, and overwriting the
		// object (or the set) orphans every session of the node — a later Deletion finds no entry and removes nothing
		sessF := p.Field(pkgPfcp, "RemoteNode", "sess")
		keeps := true
		var at token.Pos = fn.Pos()
		core.Instrs(fn, func(in ssa.Instruction) {
			st, ok := in.(*ssa.Store)
			if !ok {
				return
			}
			if core.Unwrap(st.Addr) == ssa.Value(core.Param(fn, 0)) {
				keeps, at = false, st.Pos()
			}
			if fa, ok := st.Addr.(*ssa.FieldAddr); ok && sessF != nil && core.FieldOfAddr(fa) == sessF {
				keeps, at = false, st.Pos()
			}
		})
		c.Check(rule, "takeover-keeps-sessions", at, keeps, "UpdateNodeID renames the node in place: it neither overwrites the node object nor replaces its set of sessions")
		for _, d := range dels {
			for _, st := range stores {
				differ := false // ... unless the delete is guarded by old != new
				dk, sk := d.(*ssa.Call).Call.Args[1], st.(*ssa.MapUpdate).Key
				for _, f := range core.FactsAt(d.Block()) {
					if cmp, ok := f.V.(*ssa.BinOp); ok && ((cmp.Op == token.NEQ && f.True) || (cmp.Op == token.EQL && !f.True)) {
						if (cmp.X == dk && cmp.Y == sk) || (cmp.X == sk && cmp.Y == dk) {
							differ = true
						}
					}
				}
				c.Check(rule, "takeover-order", d.Pos(), !core.Reaches(st, d) || differ, "UpdateNodeID deletes the old table key before it stores the node under the new key (or only when the keys differ)")
			}
		}
	}
	// deletion handler: success path deletes through the owning node before answering
	sendRsp := p.Method(pkgPfcp, "PfcpServer", "sendRspTo")
	if fn := fnOf(c, rule, pkgPfcp, "PfcpServer", "handleSessionDeletionRequest"); fn != nil {
		good := false
		for _, ci := range core.Calls(fn, rDel) {
			sess, path := core.FieldPath(core.CallRecv(ci))
			lkOK := false
			if ex, ok := sess.(*ssa.Extract); ok && ex.Index == 0 {
				if cl, ok := ex.Tuple.(*ssa.Call); ok && core.Callee(cl) == p.Method(pkgPfcp, "LocalNode", "Sess") {
					lkOK = core.CallArgs(cl)[0] == core.CallArgs(ci)[0]
				}
			}
			if lkOK && len(path) == 1 && path[0] == "rnode" {
				// dominates the accepted response
				for _, s := range p.CallsThrough(fn, sendRsp, 2) {
					if core.InstrDominates(ci.(ssa.Instruction), s.Site.(ssa.Instruction)) {
						good = true
					}
				}
			}
		}
		c.Check(rule, "deletion-deletes", fn.Pos(), good, "the deletion handler deletes the looked-up session through its own node, with the looked-up SEID, before the accepted response")
		// on every path: the only way out of the handler without the deletion is the failed lookup
		var dels []ssa.Instruction
		for _, ci := range core.Calls(fn, rDel) {
			dels = append(dels, ci.(ssa.Instruction))
		}
		var lkErr []ssa.Value
		for _, ci := range core.Calls(fn, p.Method(pkgPfcp, "LocalNode", "Sess")) {
			if v := ci.Value(); v != nil {
				for _, r := range *v.Referrers() {
					if ex, ok := r.(*ssa.Extract); ok && ex.Index == 1 {
						lkErr = append(lkErr, ex)
					}
				}
			}
		}
		r := returnAvoiding(fn.Blocks[0], func(b *ssa.BasicBlock) bool {
			for _, d := range dels {
				if blockHas(b, d) {
					return true
				}
			}
			for _, e := range lkErr {
				if core.NilKnownAt(b, e, false) {
					return true
				}
			}
			return false
		})
		pos := fn.Pos()
		if r != nil {
			pos = r.Pos()
		}
		c.Check(rule, "deletion-always-deletes", pos, r == nil, "every path through the deletion handler deletes the addressed session, except when the SEID lookup fails")
	}
	// SEID-0 report response
	if fn := fnOf(c, rule, pkgPfcp, "PfcpServer", "handleSessionReportResponse"); fn != nil {
		good := false
		remoteSess := p.Method(pkgPfcp, "LocalNode", "RemoteSess")
		for _, ci := range core.Calls(fn, rDel) {
			sess, path := core.FieldPath(core.CallRecv(ci))
			ex, ok := sess.(*ssa.Extract)
			if !ok || ex.Index != 0 || len(path) != 1 || path[0] != "rnode" {
				continue
			}
			cl, ok := ex.Tuple.(*ssa.Call)
			if !ok || core.Callee(cl) != remoteSess {
				continue
			}
			if core.IsPath(core.CallArgs(ci)[0], sess, "LocalID") {
				good = true
			}
		}
		c.Check(rule, "seid0-deletes", fn.Pos(), good, "a report response with SEID 0 deletes the session found by (CP SEID, peer), through its node, by that session's own UP SEID")
		seid0Paths(c, rule, fn, rDel, remoteSess)
		// and it happens under SEID == 0
		for _, ci := range core.Calls(fn, rDel) {
			under := false
			for _, eq := range eqFacts(ci.(ssa.Instruction).Block()) {
				if k, ok := core.ConstInt(eq[1]); ok && k == 0 {
					if _, fld, ok := core.LoadedField(eq[0]); ok && fld.Name() == "SEID" {
						under = true
					}
				}
			}
			c.Check(rule, "seid0-guard", ci.Pos(), under, "the local session is deleted only when the response's header SEID is 0")
		}
	}
	if !withR7 {
		return
	}
	// R7: nothing touches the data plane for a session after its deletion in the same handler
	for _, h := range []string{"handleSessionDeletionRequest", "handleSessionReportResponse"} {
		fn := p.SSAFn(p.Method(pkgPfcp, "PfcpServer", h))
		if fn == nil {
			continue
		}
		for _, del := range core.Calls(fn, rDel) {
			core.Instrs(fn, func(in ssa.Instruction) {
				ci, ok := in.(ssa.CallInstruction)
				if !ok {
					return
				}
				f := core.Callee(ci)
				if f == nil || !ruleMethod.MatchString(f.Name()) {
					return
				}
				if n := core.RecvNamed(f); n == nil || n.Obj().Name() != "Sess" {
					return
				}
				c.Check("R7", "use-after-delete:"+h+":"+f.Name(), ci.Pos(), !core.Reaches(del.(ssa.Instruction), in), "a rule method is called on a session after DeleteSess on the same path")
			})
		}
	}
	c.Check("R7", "handlers-examined", token.NoPos, true, "deletion and report-response handlers call no Sess rule method after DeleteSess")
}

func C05(c *core.Ctx) {
	c.Explain = "Isolation is decided as value-identity facts that hold for every pair of sessions in every history: (R1) argument 0 of each of the driver's rule calls is the " +
		"LocalID of the method's own receiver, and LocalID is assigned only by LocalNode.NewSess; (R2) in each session handler every *Sess method call and field use " +
		"goes to the single session value produced by the lookup keyed by the request's SEID (or by NewSess); report serving uses the session looked up by the " +
		"report's own SEID and passes the same PDR id on; (R3) RemoteNode.Reset and DeleteSess are confined to the node's own SEID set; (R4) the SEID-0 match " +
		"returns a session only under a condition that involves both the CP-SEID and the peer address, and the handler passes the request's SEID and the response's " +
		"source address; (R5) Push/Pop/Len index the receiver's own queue map with their PDR-id parameter and NewSess allocates fresh maps; (R6) every store into the " +
		"node table is preceded by handling of an existing entry under that key."
	c.Undec = []string{"kernel-side isolation between sessions", "sequence-number independence of reports (C11)"}
	c.Assume = []string{"confinement to the event loop (C17)"}
	p := c.P
	calls, _ := driverCalls(c)
	if calls == nil {
		return
	}
	// R1
	n := map[string]int{}
	for _, d := range calls {
		recv := core.Recv(d.fn)
		arg0 := d.call.Common().Args[0]
		k := d.verb + d.kind
		n[k]++
		c.Check("R1", fmt.Sprintf("own-seid:%s:%s#%d", core.FnName(d.fn), k, n[k]), d.call.Pos(), recv != nil && core.IsPath(arg0, recv, "LocalID"),
			"Driver."+k+" is tagged with the receiver session's own UP SEID (LocalID)")
	}
	c.Floor("R1", len(calls), 16, "driver rule calls")
	gnlOidForm(c, "R1")

	// R2 handlers
	sessT := p.Named(pkgPfcp, "Sess")
	isSessPtr := func(t types.Type) bool {
		pt, ok := t.(*types.Pointer)
		return ok && types.Identical(pt.Elem(), sessT)
	}
	for _, h := range []struct{ name, source string }{
		{"handleSessionEstablishmentRequest", "NewSess"},
		{"handleSessionModificationRequest", "Sess"},
		{"handleSessionDeletionRequest", "Sess"},
		{"PopBufPkt", "Sess"},
		{"serveUSAReport", "Sess"},
		{"serveDLDReport", "Sess"},
		{"ServeReport", "Sess"},
	} {
		fn := fnOf(c, "R2", pkgPfcp, "PfcpServer", h.name)
		if fn == nil {
			continue
		}
		// session-producing calls in the handler
		var producers []ssa.Value
		core.Instrs(fn, func(in ssa.Instruction) {
			cl, ok := in.(*ssa.Call)
			if !ok {
				return
			}
			f := core.Callee(cl)
			if f == nil || !p.IsOwn(f.Pkg()) {
				return
			}
			res := f.Type().(*types.Signature).Results()
			if res.Len() >= 1 && isSessPtr(res.At(0).Type()) {
				if res.Len() == 1 {
					producers = append(producers, cl)
				} else {
					for _, r := range *cl.Referrers() {
						if ex, ok := r.(*ssa.Extract); ok && ex.Index == 0 {
							producers = append(producers, ex)
						}
					}
				}
				// key of the lookup
				if f.Name() == "Sess" || f.Name() == "RemoteSess" {
					arg := core.CallArgs(cl)[0]
					c.Check("R2", "lookup-key:"+h.name, cl.Pos(), seidOfRequest(arg, fn), "the session is looked up by the SEID carried by this very request/report")
				}
			}
		})
		c.Check("R2", "one-session:"+h.name, fn.Pos(), len(producers) == 1, fmt.Sprintf("%d session-producing calls in the handler (want exactly 1)", len(producers)))
		if len(producers) != 1 {
			continue
		}
		sess := producers[0]
		k := 0
		core.Instrs(fn, func(in ssa.Instruction) {
			if ci, ok := in.(ssa.CallInstruction); ok {
				if f := core.Callee(ci); f != nil {
					if nmd := core.RecvNamed(f); nmd != nil && nmd.Obj() == sessT.Obj() {
						k++
						c.Check("R2", fmt.Sprintf("same-session:%s:%s#%d", h.name, f.Name(), k), ci.Pos(), core.Unwrap(core.CallRecv(ci)) == core.Unwrap(sess),
							"Sess."+f.Name()+" is invoked on the one session this request addresses")
					}
				}
			}
			if fa, ok := in.(*ssa.FieldAddr); ok && isSessPtr(fa.X.Type()) {
				c.Check("R2", fmt.Sprintf("same-session-field:%s:%s", h.name, core.FieldOfAddr(fa).Name()), fa.Pos(), core.Unwrap(fa.X) == core.Unwrap(sess),
					"field "+core.FieldOfAddr(fa).Name()+" is read from the one session this request addresses")
			}
		})
	}
	// PopBufPkt passes its PDR id through
	if fn := p.SSAFn(p.Method(pkgPfcp, "PfcpServer", "PopBufPkt")); fn != nil {
		for _, ci := range core.Calls(fn, p.Method(pkgPfcp, "Sess", "Pop")) {
			c.Check("R2", "pop-pdr", ci.Pos(), core.CallArgs(ci)[0] == ssa.Value(core.Param(fn, 1)), "PopBufPkt pops the queue of the PDR id it was asked for")
		}
	}

	// R3: node-local reset, membership-guarded delete, re-association resets exactly the found node, SEID-0 deletes exactly the matched session
	c01EndPaths(c, "R3", false)

	// R4
	if fn := fnOf(c, "R4", pkgPfcp, "LocalNode", "RemoteSess"); fn != nil {
		rSeid, addr := core.Param(fn, 0), core.Param(fn, 1)
		nRet := 0
		core.Instrs(fn, func(in ssa.Instruction) {
			r, ok := in.(*ssa.Return)
			if !ok || len(r.Results) != 2 || core.IsNilConst(r.Results[0]) {
				return
			}
			nRet++
			usesSeid, usesAddr := false, false
			for _, eq := range eqFacts(r.Block()) {
				cmp := struct{ X, Y ssa.Value }{eq[0], eq[1]}
				for _, side := range []ssa.Value{cmp.X, cmp.Y} {
					if side == ssa.Value(rSeid) {
						// the other side must be the candidate's RemoteID
						other := cmp.X
						if other == side {
							other = cmp.Y
						}
						if core.IsPath(other, r.Results[0], "RemoteID") {
							usesSeid = true
						}
					}
					if derivesFrom(side, addr, 0) {
						other := cmp.X
						if other == side {
							other = cmp.Y
						}
						// the WHOLE address (IP and port) is compared: the value itself or its net.Addr String(),
						// not a projection such as the IP alone (several CP nodes may share an IP)
						whole := func(v ssa.Value, isBase func(ssa.Value) bool) bool {
							if isBase(v) {
								return true
							}
							cl, ok := v.(*ssa.Call)
							return ok && cl.Call.IsInvoke() && cl.Call.Method.Name() == "String" && isBase(cl.Call.Value)
						}
						if whole(side, func(v ssa.Value) bool { return v == ssa.Value(addr) }) &&
							whole(other, func(v ssa.Value) bool { return core.IsPath(v, r.Results[0], "rnode", "addr") }) {
							usesAddr = true
						}
					}
				}
			}
			c.Check("R4", fmt.Sprintf("two-key-match#%d", nRet), r.Pos(), usesSeid && usesAddr,
				"a session is returned only when its RemoteID equals the CP SEID AND its node's address equals the peer address")
		})
		c.Floor("R4", nRet, 1, "successful returns of RemoteSess")
	}
	if fn := p.SSAFn(p.Method(pkgPfcp, "PfcpServer", "handleSessionReportResponse")); fn != nil {
		for _, ci := range core.Calls(fn, p.Method(pkgPfcp, "LocalNode", "RemoteSess")) {
			args := core.CallArgs(ci)
			seidOK := false
			if cl, ok := args[0].(*ssa.Call); ok && cl.Common().IsInvoke() && cl.Common().Method.Name() == "SEID" && cl.Common().Value == ssa.Value(core.Param(fn, 2)) {
				seidOK = true
			}
			c.Check("R4", "seid0-keys", ci.Pos(), seidOK && args[1] == ssa.Value(core.Param(fn, 1)), "the match is made on the SEID of the report request being answered and the response's source address")
		}
	}

	// R5 queues
	qF := p.Field(pkgPfcp, "Sess", "q")
	for _, m := range []string{"Push", "Pop", "Len"} {
		fn := fnOf(c, "R5", pkgPfcp, "Sess", m)
		if fn == nil || qF == nil {
			continue
		}
		recv, pdr := core.Recv(fn), core.Param(fn, 0)
		k := 0
		core.Instrs(fn, func(in ssa.Instruction) {
			var mp, key ssa.Value
			switch x := in.(type) {
			case *ssa.Lookup:
				mp, key = x.X, x.Index
			case *ssa.MapUpdate:
				mp, key = x.Map, x.Key
			default:
				return
			}
			if _, f, ok := core.LoadedField(mp); !ok || f != qF {
				return
			}
			k++
			c.Check("R5", fmt.Sprintf("own-queue:%s#%d", m, k), in.Pos(), core.IsPath(mp, recv, "q") && key == ssa.Value(pdr), "Sess."+m+" uses the receiver's own queue map, keyed by its PDR-id parameter")
		})
		c.Floor("R5", k, 1, "queue map accesses in Sess."+m)
	}
	if fn := p.SSAFn(p.Method(pkgPfcp, "LocalNode", "NewSess")); fn != nil {
		for _, st := range storesToField(fn, qF) {
			_, mk := st.Val.(*ssa.MakeMap)
			_, fresh := st.Addr.(*ssa.FieldAddr).X.(*ssa.Alloc)
			c.Check("R5", "fresh-queues", st.Pos(), mk && fresh, "every new session (also on a re-used SEID) starts with a fresh, empty queue map")
		}
	}
	for _, fn := range p.OwnFuncs() {
		for _, st := range storesToField(fn, qF) {
			c.Check("R5", "queue-map-writer:"+core.FnName(fn), st.Pos(), fn.Name() == "NewSess", "the queue map is assigned only at session creation")
		}
	}

	// R6 node-table overwrite
	rnodes := p.Field(pkgPfcp, "PfcpServer", "rnodes")
	nMu := 0
	for _, fn := range p.OwnFuncs() {
		core.Instrs(fn, func(in ssa.Instruction) {
			mu, ok := in.(*ssa.MapUpdate)
			if !ok {
				return
			}
			if _, f, ok := core.LoadedField(mu.Map); !ok || f != rnodes {
				return
			}
			nMu++
			handled := false
			core.Instrs(fn, func(i2 ssa.Instruction) {
				if lk, ok := i2.(*ssa.Lookup); ok && lk.Index == mu.Key && core.InstrDominates(lk, mu) {
					if _, f, ok := core.LoadedField(lk.X); ok && f == rnodes {
						handled = true
					}
				}
			})
			c.Check("R6", "node-overwrite:"+core.FnName(fn), mu.Pos(), handled,
				"a node-table entry is stored only after an existing entry under the same node id was looked up and handled (otherwise the existing node and its sessions are orphaned)")
		})
	}
	c.Floor("R6", nMu, 2, "stores into the node table")
	// R7: removing one session's periodic URR leaves the periodic reporting of every other session alone:
	// the group-table discipline of the periodic server (C15 R2) seen from this property
	if fn15, ok := Registry["C15"]; ok {
		sub, _ := core.NewCtx(c.P, "C15", c.Tier, c.Seed, c.OutDir, "")
		fn15(sub)
		for _, key := range []string{"drop-iff-group-empty", "del-removes-pair", "ticker-stopped-before-drop", "stop-arm"} {
			bad := ""
			n := 0
			for _, o := range sub.Obls {
				if strings.Contains(o.Key, "/R2/"+key) {
					n++
					if !o.OK {
						bad = o.Desc
					}
				}
			}
			c.Check("R7", "periodic-removal-confined:"+key, token.NoPos, bad == "" && n > 0, "periodic server, removal of one (SEID, URR): "+key+" (C15 R2) "+bad)
		}
		okOnce := true
		for _, f := range sub.Findings {
			if strings.Contains(f.Key, "/R4/registered-once") {
				okOnce = false
			}
		}
		c.Check("R7", "periodic-registration-single", token.NoPos, okOnce, "a URR is registered for periodic querying once, so that ending its session removes every registration: a left-over (SEID, URR) entry is inherited by the next session that is given the SEID (C15 R4 / C03 R8)")
	}
	// R8: a request acts once: a retransmission that arrives after the addressed session was deleted and its SEID given
	// to another node's session must still be recognised as a retransmission — the response is retained for the whole
	// time in which the peer retransmits (C06 R1/R4)
	shareFrom(c, "C06", "R8", func(o *core.Obligation) bool {
		return (o.Rule == "R4" && strings.Contains(o.Key, "/R4/retention-")) || (o.Rule == "R1" && strings.Contains(o.Key, "/R1/dispatch-iff-new"))
	}, 2, "retransmission rules")
}

// seidOfRequest: v is <param>.SEID() / a field named SEID of a parameter / a parameter named like a SEID.
func seidOfRequest(v ssa.Value, fn *ssa.Function) bool {
	v = core.Unwrap(v)
	if cl, ok := v.(*ssa.Call); ok {
		f := core.Callee(cl)
		if f != nil && f.Name() == "SEID" {
			var recv ssa.Value
			if cl.Common().IsInvoke() {
				recv = cl.Common().Value
			} else {
				recv = core.CallRecv(cl)
			}
			for _, p := range fn.Params {
				if rootIsParam(recv, p) {
					return true
				}
			}
		}
		return false
	}
	if b, f, ok := core.LoadedField(v); ok && f.Name() == "SEID" {
		for _, p := range fn.Params {
			if rootIsParam(b, p) || core.Unwrap(b) == ssa.Value(p) {
				return true
			}
		}
	}
	for _, p := range fn.Params {
		if v == ssa.Value(p) && types.Identical(p.Type(), types.Typ[types.Uint64]) {
			return true
		}
	}
	return isInputOfType(fn, v, isUint64T)
}

// derivesFrom: v is computed from src by method calls on it (addr.String()).
func derivesFrom(v, src ssa.Value, depth int) bool {
	if depth > 4 {
		return false
	}
	if core.Unwrap(v) == core.Unwrap(src) {
		return true
	}
	if cl, ok := v.(*ssa.Call); ok {
		if cl.Common().IsInvoke() && derivesFrom(cl.Common().Value, src, depth+1) {
			return true
		}
		for _, a := range cl.Common().Args {
			if derivesFrom(a, src, depth+1) {
				return true
			}
		}
	}
	return false
}

// mentionsPath: v is computed from root.f1...fn by method calls.
func mentionsPath(v ssa.Value, root ssa.Value, names ...string) bool {
	if core.IsPath(v, root, names...) {
		return true
	}
	if cl, ok := v.(*ssa.Call); ok {
		if cl.Common().IsInvoke() && mentionsPath(cl.Common().Value, root, names...) {
			return true
		}
		for _, a := range cl.Common().Args {
			if mentionsPath(a, root, names...) {
				return true
			}
		}
	}
	return false
}

// seid0Paths: in the report-response handler the SEID test is evaluated on every path before the
// handler returns, and once SEID == 0 is established every path to a return passes through the
// deletion or through the failure edge of the (CP SEID, peer) lookup.
func seid0Paths(c *core.Ctx, rule string, fn *ssa.Function, rDel, remoteSess *types.Func) {
	var test *ssa.If
	var cmp *ssa.BinOp
	core.Instrs(fn, func(in ssa.Instruction) {
		iff, ok := in.(*ssa.If)
		if !ok {
			return
		}
		if b, ok := iff.Cond.(*ssa.BinOp); ok && (b.Op == token.EQL || b.Op == token.NEQ) {
			if k, ok := core.ConstInt(b.Y); ok && k == 0 {
				if _, fld, ok := core.LoadedField(b.X); ok && fld.Name() == "SEID" && test == nil {
					test, cmp = iff, b
				}
			}
		}
	})
	if test == nil {
		c.Check(rule, "seid0-tested", fn.Pos(), false, "the report-response handler has no test of the header SEID against 0")
		return
	}
	ok, where := dominatesReturns(test)
	if !ok {
		c.Check(rule, "seid0-tested", where, false, "the handler returns on some path before the header SEID was tested: a SEID-0 response on that path does not remove the local session")
	} else {
		c.Check(rule, "seid0-tested", test.Pos(), true, "every exit of the handler lies behind the header-SEID test")
	}
	zero := test.Block().Succs[0]
	if cmp.Op == token.NEQ {
		zero = test.Block().Succs[1]
	}
	var dels []ssa.Instruction
	for _, ci := range core.Calls(fn, rDel) {
		dels = append(dels, ci.(ssa.Instruction))
	}
	var lkErr []ssa.Value
	for _, ci := range core.Calls(fn, remoteSess) {
		if v := ci.Value(); v != nil {
			for _, r := range *v.Referrers() {
				if ex, ok := r.(*ssa.Extract); ok && ex.Index == 1 {
					lkErr = append(lkErr, ex)
				}
			}
		}
	}
	r := returnAvoiding(zero, func(b *ssa.BasicBlock) bool {
		for _, d := range dels {
			if blockHas(b, d) {
				return true
			}
		}
		for _, e := range lkErr {
			if core.NilKnownAt(b, e, false) {
				return true
			}
		}
		// a defensive guard: a parameter the handler goes on to call methods on is nil (the call would have
		// panicked; no message can take this path)
		for _, prm := range fn.Params {
			switch prm.Type().Underlying().(type) {
			case *types.Pointer, *types.Interface:
				if core.NilKnownAt(b, prm, true) {
					return true
				}
			}
		}
		return false
	})
	pos := test.Pos()
	if r != nil {
		pos = r.Pos()
	}
	c.Check(rule, "seid0-always-deletes", pos, r == nil, "with header SEID 0 every path to a return deletes the session, except when the (CP SEID, peer) lookup fails")
}

// handlerDispatch: in the session handlers every rule IE is handed to the session method of its own kind:
// a call sess.<Verb><Kind>(i) takes its IE from the request field named <Verb><Kind> (the per-IE loops are
// copies of each other: `for _, i := range req.UpdateURR { sess.CreateURR(i) }` would silently re-create).
func handlerDispatch(c *core.Ctx, rule string, kinds map[string]bool) {
	p := c.P
	n := 0
	for _, fn := range handlerFns(p) {
		for _, f := range core.WithAnon(fn) {
			core.Instrs(f, func(in ssa.Instruction) {
				ci, ok := in.(ssa.CallInstruction)
				if !ok {
					return
				}
				m := core.Callee(ci)
				if m == nil || !ruleMethod.MatchString(m.Name()) {
					return
				}
				if nn := core.RecvNamed(m); nn == nil || nn.Obj().Name() != "Sess" {
					return
				}
				mm := ruleMethod.FindStringSubmatch(m.Name())
				if kinds != nil && !kinds[mm[2]] {
					return
				}
				args := core.CallArgs(ci)
				if len(args) == 0 {
					return
				}
				// the IE: element of a slice loaded from a field of the request
				field := ""
				if ld, ok := core.Unwrap(args[0]).(*ssa.UnOp); ok && ld.Op == token.MUL {
					if ia, ok := ld.X.(*ssa.IndexAddr); ok {
						if _, fld, ok := core.LoadedField(ia.X); ok {
							field = fld.Name()
						}
					}
				}
				if field == "" {
					return // built locally (Sess.Close) or passed on: not a request field
				}
				n++
				c.Check(rule, "dispatch:"+core.FnName(f)+":"+m.Name(), ci.Pos(), field == m.Name(),
					"Sess."+m.Name()+" is given the IEs of the request's "+field+" list (must be "+m.Name()+")")
			})
		}
	}
	c.Floor(rule, n, 5, "rule IEs dispatched from request fields")
}

// R9 (C01), shared: a removal request for a known id always reaches the data plane.  Between the entry of a
// Sess.Remove<K> method and its Driver.Remove<K> call, a branch may leave the method only because the request
// cannot be decoded (an error of a library accessor) or because the id is not in the session's set; any other
// reason (a mark, a counter, a cached state) lets a rule stay installed that the session still records — and since
// Close() withdraws the rules through the same methods, it would stay installed after the session ended.
func c01RemoveForwarded(c *core.Ctx, rule string, calls []drvCall, sets map[string]*types.Var) {
	p := c.P
	for _, d := range calls {
		if d.verb != "Remove" {
			continue
		}
		set := sets[d.kind]
		if set == nil {
			continue
		}
		fn := d.fn
		recv := core.Recv(fn)
		cb := d.call.Block()
		reach := map[*ssa.BasicBlock]bool{}
		var walk func(b *ssa.BasicBlock)
		walk = func(b *ssa.BasicBlock) {
			if reach[b] {
				return
			}
			reach[b] = true
			for _, pr := range b.Preds {
				walk(pr)
			}
		}
		for _, pr := range cb.Preds {
			walk(pr)
		}
		bad := ""
		var badPos token.Pos
		for _, b := range fn.Blocks {
			if !reach[b] || b == cb && !blockInLoop(cb) {
				continue
			}
			ifi, ok := b.Instrs[len(b.Instrs)-1].(*ssa.If)
			if !ok {
				continue
			}
			exits := false
			for _, s := range b.Succs {
				if returnAvoiding(s, func(x *ssa.BasicBlock) bool { return x == cb }) != nil {
					exits = true
				}
			}
			if !exits {
				continue
			}
			cond := ifi.Cond
			for {
				if u, ok := cond.(*ssa.UnOp); ok && u.Op == token.NOT {
					cond = u.X
					continue
				}
				break
			}
			allowed := false
			if x, _, ok := core.NilCmp(cond); ok {
				x = core.Unwrap(x)
				if ex, ok := x.(*ssa.Extract); ok {
					if cl, ok := ex.Tuple.(*ssa.Call); ok {
						if f := core.StaticFn(cl); f == nil || !p.IsOwnFn(f) {
							allowed = true // decode error of a library accessor
						}
					}
				}
			}
			if ex, ok := cond.(*ssa.Extract); ok && ex.Index == 1 {
				if lk, ok := ex.Tuple.(*ssa.Lookup); ok && lk.CommaOk && core.IsPath(lk.X, recv, set.Name()) {
					allowed = true
				}
			}
			if !allowed && bad == "" {
				bad = "the method can return before Driver.Remove" + d.kind + " under a condition that is neither a decode error nor 'id not in " + set.Name() + "'"
				badPos = ifi.Cond.Pos()
				if !badPos.IsValid() {
					badPos = d.call.Pos()
				}
			}
		}
		pos := d.call.Pos()
		if bad != "" {
			pos = badPos
		}
		c.Check(rule, "remove-forwarded:"+core.FnName(fn)+":"+d.kind, pos, bad == "",
			"a Remove "+d.kind+" for an id the session records always reaches Driver.Remove"+d.kind+map[bool]string{true: "", false: " — " + bad}[bad == ""])
	}
}

// gnlOidForm: go-upf addresses every rule in the data plane as OID{SEID, id}.  go-gtp5gnl also exports positional
// forms of its requests (CreatePDR(c, link, pdrid, attrs), GetReport(c, link, urrid, seid), ...) that carry no SEID
// or assemble the pair in the library's own order; a request sent through one of them is not tagged with the
// session's SEID in go-upf's convention, so it reaches another session's rule.  Every own call of a go-gtp5gnl
// function that takes the link and identifies a rule therefore passes an OID (or a list of them).
func gnlOidForm(c *core.Ctx, rule string) {
	p := c.P
	n := 0
	seen := map[string]int{}
	for _, fn := range p.OwnFuncs() {
		core.Instrs(fn, func(in ssa.Instruction) {
			ci, ok := in.(ssa.CallInstruction)
			if !ok {
				return
			}
			f := core.Callee(ci)
			if f == nil || f.Pkg() == nil || f.Pkg().Path() != core.PkgGtp5gnl {
				return
			}
			sig := f.Type().(*types.Signature)
			hasLink, hasOID, hasInt := false, false, false
			for i := 0; i < sig.Params().Len(); i++ {
				t := sig.Params().At(i).Type()
				if pt, ok := t.(*types.Pointer); ok {
					if nn, ok := pt.Elem().(*types.Named); ok && nn.Obj().Name() == "Link" {
						hasLink = true
					}
				}
				if sl, ok := t.(*types.Slice); ok {
					t = sl.Elem()
				}
				if nn, ok := t.(*types.Named); ok && nn.Obj().Name() == "OID" {
					hasOID = true
				}
				if bt, ok := t.Underlying().(*types.Basic); ok && bt.Info()&types.IsInteger != 0 {
					hasInt = true
				}
			}
			if !hasLink || (!hasOID && !hasInt) {
				return
			}
			n++
			k := core.FnName(fn) + ":" + f.Name()
			seen[k]++
			if seen[k] > 1 {
				k += fmt.Sprintf("#%d", seen[k])
			}
			c.Check(rule, "oid-form:"+k, ci.Pos(), hasOID, "the data-plane request identifies its rule by an OID {SEID, id} built by go-upf (gtp5gnl."+f.Name()+
				map[bool]string{true: "", false: " takes bare numbers: no SEID, or the pair in the library's order"}[hasOID]+")")
		})
	}
	c.Floor(rule, n, 10, "go-gtp5gnl requests that identify a rule")
}
