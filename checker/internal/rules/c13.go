package rules

import (
	"fmt"
	"go/constant"
	"go/token"
	"go/types"
	"strings"

	"golang.org/x/tools/go/ssa"

	"upfcheck/internal/core"
)

func init() { Registry["C13"] = C13 }

func C13(c *core.Ctx) {
	c.Explain = "Exactly-once, in-order release at the UDP socket is a run-time sequence property and is not decided. Decided are the structural necessary conditions of the queue " +
		"discipline, on every path: (R1) Push sends a freshly made copy of the packet in a select whose default arm receives nothing from the queue (newest dropped, never an older one " +
		"displaced), on a channel of the capacity fixed at session creation; Pop is a non-blocking receive (FIFO by channel semantics); (R2) a packet is queued exactly under " +
		"(action has BUFF and payload non-empty) — not additionally gated by NOCP — and the downlink-data report is raised only under NOCP; (R3) on a FAR update the queues are touched " +
		"only when the FAR currently buffers; for DROP every PDR queue of the FAR is popped until empty, for FORW every popped packet goes to exactly one WritePacket call and is " +
		"never re-queued; nothing inside the per-PDR loops leaves the function; Pop is called with the function's own SEID and a PDR id of the FAR's list; the QER chosen for a PDR " +
		"does not leak into the next PDR; (R4) WritePacket takes peer, port and TEID from the FAR and the QFI from the QER (C14 R3); (R5) Sess.Close closes every queue on every path; a " +
		"closed session is unreachable afterwards (C04 R4) and a new session starts with fresh queues (C05 R5); (R6) the release is decided after all child IEs of Update FAR were read."
	c.Undec = []string{"exactly-once and order at the UDP socket", "whether the old or the updated forwarding parameters should address the release (the code reads the FAR before updating it)"}
	c.Assume = []string{"Go channel FIFO semantics", "confinement to the event loop (C17)"}
	p := c.P
	qF := p.Field(pkgPfcp, "Sess", "q")
	qlenF := p.Field(pkgPfcp, "Sess", "qlen")
	if qF == nil || qlenF == nil {
		c.Anchor("R1", "pfcp.Sess.{q,qlen}")
		return
	}

	// R1 Push / Pop
	if fn := fnOf(c, "R1", pkgPfcp, "Sess", "Push"); fn != nil {
		par := core.Param(fn, 1)
		var sel *ssa.Select
		var plainSend *ssa.Send
		nRecv := 0
		core.Instrs(fn, func(in ssa.Instruction) {
			switch x := in.(type) {
			case *ssa.Select:
				sel = x
			case *ssa.Send:
				plainSend = x
			case *ssa.UnOp:
				if x.Op == token.ARROW {
					nRecv++
				}
			}
		})
		okSel := sel != nil && !sel.Blocking && len(sel.States) == 1 && sel.States[0].Dir == types.SendOnly && plainSend == nil
		c.Check("R1", "push-nonblocking", fn.Pos(), okSel, "Push offers the packet in a select with default (never blocks the event loop, drops the NEWEST packet when full)")
		c.Check("R1", "push-no-displacement", fn.Pos(), nRecv == 0 && (sel == nil || len(sel.States) == 1), "Push never receives from the queue (no older packet is displaced)")
		if okSel {
			ms, fresh := sel.States[0].Send.(*ssa.MakeSlice)
			copied := false
			if fresh {
				for _, r := range *ms.Referrers() {
					if cl, ok := r.(*ssa.Call); ok {
						if bi, ok := cl.Call.Value.(*ssa.Builtin); ok && bi.Name() == "copy" && cl.Call.Args[0] == ssa.Value(ms) && cl.Call.Args[1] == ssa.Value(par) && core.InstrDominates(cl, sel) {
							copied = true
						}
					}
				}
				ln, isLen := ms.Len.(*ssa.Call)
				if !isLen || len(ln.Call.Args) != 1 || ln.Call.Args[0] != ssa.Value(par) {
					copied = false
				}
			}
			c.Check("R1", "push-copies", sel.Pos(), fresh && copied, "what is queued is a fresh copy of the whole packet (the netlink read buffer is reused by the caller)")
		}
		// the channel the packet is offered on is this PDR's queue on every path: the one found in the map,
		// or the one just created and entered in the map (never the nil channel of a failed lookup: a send
		// on nil is never ready, so select/default would drop the packet although the queue is empty)
		if okSel {
			pdr := core.Param(fn, 0)
			var qV, okV ssa.Value
			core.Instrs(fn, func(in ssa.Instruction) {
				if lk, isLk := in.(*ssa.Lookup); isLk && lk.CommaOk && core.IsPath(lk.X, core.Recv(fn), "q") && lk.Index == ssa.Value(pdr) {
					for _, r := range *lk.Referrers() {
						if ex, isEx := r.(*ssa.Extract); isEx {
							if ex.Index == 0 && qV == nil {
								qV = ex
							} else if ex.Index == 1 && okV == nil {
								okV = ex
							}
						}
					}
				}
			})
			entered := func(v ssa.Value) bool { // a channel that is (also) stored under s.q[pdrid]
				switch x := v.(type) {
				case *ssa.MakeChan:
					for _, r := range *x.Referrers() {
						if mu, isMu := r.(*ssa.MapUpdate); isMu && mu.Value == ssa.Value(x) && mu.Key == ssa.Value(pdr) && core.IsPath(mu.Map, core.Recv(fn), "q") {
							return true
						}
					}
				case *ssa.Lookup: // q = s.q[pdrid] re-read after the store
					if !x.CommaOk && core.IsPath(x.X, core.Recv(fn), "q") && x.Index == ssa.Value(pdr) {
						stored := false
						core.Instrs(fn, func(in ssa.Instruction) {
							if mu, isMu := in.(*ssa.MapUpdate); isMu && mu.Key == ssa.Value(pdr) && core.IsPath(mu.Map, core.Recv(fn), "q") && core.InstrDominates(mu, x) {
								if _, isMk := mu.Value.(*ssa.MakeChan); isMk {
									stored = true
								}
							}
						})
						return stored
					}
				}
				return false
			}
			good := false
			ch := sel.States[0].Chan
			switch x := ch.(type) {
			case *ssa.Phi:
				good = true
				for i, e := range x.Edges {
					pred := x.Block().Preds[i]
					if e == qV && okV != nil && edgeKnown(pred, x.Block(), okV, true) {
						continue
					}
					if entered(e) {
						continue
					}
					good = false
				}
			default:
				good = (ch == qV && okV != nil && core.KnownAt(sel.Block(), okV, true)) || entered(ch)
			}
			c.Check("R1", "push-own-queue", sel.Pos(), good && qV != nil, "on every path the packet is offered on the PDR's own queue: the one found under s.q[pdrid], or the one just created and entered there")
		}
		// capacity
		core.Instrs(fn, func(in ssa.Instruction) {
			if mk, ok := in.(*ssa.MakeChan); ok {
				c.Check("R1", "queue-capacity", mk.Pos(), core.IsPath(mk.Size, core.Recv(fn), "qlen"), "a PDR's queue is created with the session's fixed capacity")
			}
		})
	}
	for _, fn := range p.OwnFuncs() {
		for _, st := range storesToField(fn, qlenF) {
			c.Check("R1", "capacity-writer:"+core.FnName(fn), st.Pos(), fn.Name() == "NewSess" && st.Val == ssa.Value(core.Param(fn, 1)), "the capacity is set once, at session creation, from the caller's argument")
		}
	}
	if fn := p.SSAFn(p.Method(pkgPfcp, "RemoteNode", "NewSess")); fn != nil {
		for _, ci := range core.Calls(fn, p.Method(pkgPfcp, "LocalNode", "NewSess")) {
			n, ok := core.ConstInt(core.CallArgs(ci)[1])
			c.Check("R1", "capacity-constant", ci.Pos(), ok && n > 0, fmt.Sprintf("sessions are created with the constant queue capacity %d", n))
		}
	}
	if fn := fnOf(c, "R1", pkgPfcp, "Sess", "Pop"); fn != nil {
		var sel *ssa.Select
		blockingRecv := false
		core.Instrs(fn, func(in ssa.Instruction) {
			switch x := in.(type) {
			case *ssa.Select:
				sel = x
			case *ssa.UnOp:
				if x.Op == token.ARROW {
					blockingRecv = true
				}
			}
		})
		c.Check("R1", "pop-nonblocking", fn.Pos(), sel != nil && !sel.Blocking && len(sel.States) == 1 && sel.States[0].Dir == types.RecvOnly && !blockingRecv,
			"Pop is a non-blocking receive of the oldest packet")
	}
	popVerdict(c, "R1")

	// R2 gating in ServeReport
	if fn := fnOf(c, "R2", pkgPfcp, "PfcpServer", "ServeReport"); fn != nil {
		const buff, nocp = 4, 8
		actionFacts := func(b *ssa.BasicBlock) (hasBuff, hasNocp, nocpSet bool, nonEmpty bool) {
			for _, f := range core.FactsAt(b) {
				cmp, ok := f.V.(*ssa.BinOp)
				if !ok {
					continue
				}
				if and, ok := cmp.X.(*ssa.BinOp); ok && and.Op == token.AND {
					if _, fld, ok := core.LoadedField(and.X); ok && fld.Name() == "Action" {
						k, _ := core.ConstInt(and.Y)
						z, isZ := core.ConstInt(cmp.Y)
						if !isZ || z != 0 {
							continue
						}
						set := (cmp.Op == token.NEQ) == f.True // the bit is known set
						switch k {
						case buff:
							hasBuff = hasBuff || set
						case nocp:
							hasNocp = true
							nocpSet = set
						}
					}
				}
				if lc, ok := cmp.X.(*ssa.Call); ok {
					if bi, ok := lc.Call.Value.(*ssa.Builtin); ok && bi.Name() == "len" {
						if _, fld, ok := core.LoadedField(lc.Call.Args[0]); ok && fld.Name() == "BufPkt" {
							if z, ok := core.ConstInt(cmp.Y); ok && z == 0 && ((cmp.Op == token.GTR && f.True) || (cmp.Op == token.NEQ && f.True) || (cmp.Op == token.EQL && !f.True) || (cmp.Op == token.LEQ && !f.True)) {
								nonEmpty = true
							}
						}
					}
				}
			}
			return
		}
		pushes := core.Calls(fn, p.Method(pkgPfcp, "Sess", "Push"))
		c.Check("R2", "push-once", fn.Pos(), len(pushes) == 1, fmt.Sprintf("%d Push call sites in ServeReport (want 1)", len(pushes)))
		for _, ci := range pushes {
			hb, hn, _, ne := actionFacts(ci.(ssa.Instruction).Block())
			c.Check("R2", "push-gate", ci.Pos(), hb && ne && !hn, fmt.Sprintf("a packet is queued exactly when the action has BUFF and the payload is non-empty (BUFF known: %v, non-empty known: %v, additionally gated by NOCP: %v)", hb, ne, hn))
			args := core.CallArgs(ci)
			_, p0 := core.FieldPath(args[0])
			_, p1 := core.FieldPath(args[1])
			c.Check("R2", "push-args", ci.Pos(), len(p0) >= 1 && p0[len(p0)-1] == "PDRID" && len(p1) >= 1 && p1[len(p1)-1] == "BufPkt", "queued under the report's own PDR id, with the report's own payload")
		}
		for _, ci := range core.Calls(fn, p.Method(pkgPfcp, "PfcpServer", "serveDLDReport")) {
			_, hn, set, _ := actionFacts(ci.(ssa.Instruction).Block())
			c.Check("R2", "notify-gate", ci.Pos(), hn && set, "the downlink-data report is raised only when the action has NOCP")
			args := core.CallArgs(ci)
			var p2 []string
			if len(args) > 0 {
				_, p2 = core.FieldPath(args[len(args)-1]) // the PDR id is the last argument
			}
			c.Check("R2", "notify-pdr", ci.Pos(), len(p2) >= 1 && p2[len(p2)-1] == "PDRID", "the notification names the PDR of the buffered packet")
		}
	}

	// R2: the notification goes towards the SMF that owns the session now (shared with C10 R4)
	reportDestination(c, "R2")
	// every buffered-packet notification reaches the event loop (back-pressure, not loss: the per-PDR queue,
	// not this bridge, decides what is dropped)
	losslessPost(c, "R2", p.SSAFn(p.Method(pkgPfcp, "PfcpServer", "NotifySessReport")), p.Field(pkgPfcp, "PfcpServer", "srCh"), "a buffered-packet notification")
	// R3: per-PDR state of the release loops does not leak into the next PDR
	independentIterations(c, "R3", []*ssa.Function{p.SSAFn(p.Method(pkgFwd, "Gtp5g", "applyAction"))})
	// R4: the last hop writes the encoded datagram as it is (shared with C14 R3)
	linkPassThrough(c, "R4")
	// R7 extent of the buffered packet handed up by the data plane
	c13PacketExtent(c)

	applyActionLookups(c, "R3")

	// R3 drain loops
	if fn := fnOf(c, "R3", pkgFwd, "Gtp5g", "applyAction"); fn != nil {
		pop := p.Method(pkgBuff, "Server", "Pop")
		write := p.Method(pkgFwd, "Gtp5g", "WritePacket")
		pops := core.Calls(fn, pop)
		// Pop sites are grouped by the per-PDR loop they belong to (a `for v, ok := Pop(); ok; v, ok = Pop()` loop
		// has two sites feeding one phi); every PDR loop must drain
		pdrHdrs := loopHeaderOfRange(fn, "PDRIDs")
		armOfPop := func(in ssa.Instruction) *ssa.BasicBlock {
			for _, h := range pdrHdrs {
				if inNaturalLoop(in.Block(), h) {
					return h
				}
			}
			return nil
		}
		byArm := map[*ssa.BasicBlock][]ssa.CallInstruction{}
		for _, ci := range pops {
			byArm[armOfPop(ci.(ssa.Instruction))] = append(byArm[armOfPop(ci.(ssa.Instruction))], ci)
		}
		c.Check("R3", "pop-sites", fn.Pos(), len(byArm) == 2 && byArm[nil] == nil, fmt.Sprintf("%d Pop call sites in %d per-PDR loops of applyAction (DROP and FORW)", len(pops), len(byArm)))
		// gate: FAR currently buffers
		for _, ci := range pops {
			in := ci.(ssa.Instruction)
			buffers := false
			for _, f := range core.FactsAt(in.Block()) {
				if cmp, ok := f.V.(*ssa.BinOp); ok {
					if and, ok := cmp.X.(*ssa.BinOp); ok && and.Op == token.AND {
						if _, fld, ok := core.LoadedField(and.X); ok && fld.Name() == "Action" {
							if k, ok := core.ConstInt(and.Y); ok && k == 4 {
								if z, ok := core.ConstInt(cmp.Y); ok && z == 0 && ((cmp.Op == token.EQL && !f.True) || (cmp.Op == token.NEQ && f.True)) {
									buffers = true
								}
							}
						}
					}
				}
			}
			args := core.CallArgs(ci)
			pdrOK := false
			if ld, ok := args[1].(*ssa.UnOp); ok {
				if ia, ok := ld.X.(*ssa.IndexAddr); ok {
					_, path := core.FieldPath(ia.X)
					pdrOK = len(path) == 1 && path[0] == "PDRIDs"
				}
			}
			arm := "DROP"
			isForw := false
			myArm := armOfPop(in)
			for _, w := range core.Calls(fn, write) {
				if core.InstrDominates(in, w.(ssa.Instruction)) || (myArm != nil && inNaturalLoop(w.(ssa.Instruction).Block(), myArm)) {
					isForw = true
				}
			}
			if isForw {
				arm = "FORW"
			}
			c.Check("R3", "drain-gate:"+arm, ci.Pos(), buffers, "queues are drained only when the FAR currently has BUFF")
			c.Check("R3", "drain-own-session:"+arm, ci.Pos(), args[0] == ssa.Value(core.Param(fn, 0)) && pdrOK, "Pop is called with the function's own SEID and a PDR id taken from the FAR's PDR list")
			// the pop loop ends only on !ok: the only edges leaving the pop loop come from the block testing ok
			hdr := loopHeaderOf(in)
			if hdr == myArm || hdr == in.Block() && !inAnyLoop(in) {
				// the priming Pop of a three-clause loop sits in front of the drain loop: judged with the
				// Pop inside that loop
				inner := false
				for _, o := range byArm[myArm] {
					if oh := loopHeaderOf(o.(ssa.Instruction)); oh != myArm && o != ci {
						inner = true
					}
				}
				if inner {
					continue
				}
			}
			var okVs []ssa.Value
			for _, o := range byArm[myArm] {
				for _, r := range *o.Value().Referrers() {
					if ex, isEx := r.(*ssa.Extract); isEx && ex.Index == 1 {
						okVs = append(okVs, ex)
					}
				}
			}
			var okV ssa.Value
			if len(okVs) > 0 {
				okV = okVs[0]
			}
			isOk := func(cond ssa.Value) bool {
				for _, v := range okVs {
					if isOkOrPhiOf(cond, v) {
						return true
					}
				}
				// a phi of the ok results of this arm's Pop calls only (priming call + call in the post statement)
				if ph, isPhi := cond.(*ssa.Phi); isPhi {
					for _, e := range ph.Edges {
						found := false
						for _, v := range okVs {
							if e == v {
								found = true
							}
						}
						if !found {
							return false
						}
					}
					return len(ph.Edges) > 0
				}
				return false
			}
			exitsOK := okV != nil
			for _, b := range fn.Blocks {
				if b != hdr && (!hdr.Dominates(b) || !reachesAvoiding(b, hdr, nil)) {
					continue
				}
				inLoop := b == hdr || reachesBlock(b, hdr)
				if !inLoop || !hdr.Dominates(b) {
					continue
				}
				for _, s := range b.Succs {
					if !hdr.Dominates(s) || !reachesBlock(s, hdr) {
						// leaving the pop loop: must be the !ok edge
						iff, isIf := b.Instrs[len(b.Instrs)-1].(*ssa.If)
						if !isIf || !isOk(iff.Cond) {
							exitsOK = false
						}
					}
				}
			}
			c.Check("R3", "drain-until-empty:"+arm, ci.Pos(), exitsOK, "the pop loop of a PDR ends only when its queue is empty")
		}
		// nothing inside the per-PDR loops returns from the function: a return dominated by the header of a
		// range over the FAR's PDR list may only be entered from that header (the loop's own exit)
		hdrs := loopHeaderOfRange(fn, "PDRIDs")
		c.Check("R3", "pdr-loops", fn.Pos(), len(hdrs) == 2, fmt.Sprintf("%d loops over the FAR's PDR list (DROP and FORW)", len(hdrs)))
		nr := 0
		core.Instrs(fn, func(in ssa.Instruction) {
			r, ok := in.(*ssa.Return)
			if !ok {
				return
			}
			for _, h := range hdrs {
				if !h.Dominates(r.Block()) || h == r.Block() {
					continue
				}
				nr++
				fromBody := false
				for _, pr := range r.Block().Preds {
					if pr != h && h.Dominates(pr) && reachesBlock(pr, h) {
						fromBody = true
					}
				}
				c.Check("R3", fmt.Sprintf("no-return-in-pdr-loop#%d", nr), r.Pos(), !fromBody, "no path inside a per-PDR loop returns from applyAction (the remaining PDRs of the FAR would keep their packets)")
			}
		})
		// FORW: each popped packet goes to exactly one WritePacket, never re-queued
		ws := core.Calls(fn, write)
		c.Check("R3", "write-once", fn.Pos(), len(ws) == 1, fmt.Sprintf("%d WritePacket call sites", len(ws)))
		for _, w := range ws {
			args := core.CallArgs(w)
			good := false
			isPopped := func(v ssa.Value) bool {
				pk, okP := v.(*ssa.Extract)
				if !okP || pk.Index != 0 {
					return false
				}
				cl, ok := pk.Tuple.(*ssa.Call)
				return ok && core.Callee(cl) == pop
			}
			switch pv := args[2].(type) {
			case *ssa.Extract:
				if isPopped(pv) {
					good = core.InstrDominates(pv.Tuple.(*ssa.Call), w.(ssa.Instruction))
				}
			case *ssa.Phi: // for pkt, ok := Pop(); ok; pkt, ok = Pop()
				good = len(pv.Edges) > 0
				for _, e := range pv.Edges {
					if !isPopped(e) {
						good = false
					}
				}
			}
			c.Check("R3", "write-popped", w.Pos(), good, "the packet written is the one just popped")
			// the FAR used is the one looked up for this action
			farOK := false
			if ex, ok := args[0].(*ssa.Extract); ok && ex.Index == 0 {
				if cl, ok := ex.Tuple.(*ssa.Call); ok && core.Callee(cl) != nil && core.Callee(cl).Name() == "GetFAROID" {
					farOK = true
				}
			}
			c.Check("R3", "write-far", w.Pos(), farOK, "the packet is encapsulated with the FAR fetched for (SEID, FAR id) of this update")
			qerPerPDR(c, "R3", fn, w)
		}
		// no re-queue
		core.Instrs(fn, func(in ssa.Instruction) {
			if ci, ok := in.(ssa.CallInstruction); ok {
				if f := core.Callee(ci); f != nil && (f.Name() == "Push" || f.Name() == "NotifySessReport") {
					c.Check("R3", "no-requeue", ci.Pos(), false, "applyAction re-queues / re-notifies a popped packet")
				}
			}
		})
	}
	// the release is driven only from UpdateFAR, with own SEID / FAR id of the request
	for _, fn := range p.OwnFuncs() {
		for _, ci := range core.Calls(fn, p.Method(pkgFwd, "Gtp5g", "applyAction")) {
			isUpd := fn.Name() == "UpdateFAR"
			c.Check("R3", "release-caller:"+core.FnName(fn), ci.Pos(), isUpd, "buffered packets are released only from the driver's Update FAR")
			if isUpd {
				x := newExtractor(p, fn)
				args := core.CallArgs(ci)
				c.Check("R3", "release-addressing", ci.Pos(), core.Unwrap(args[0]) == ssa.Value(core.Param(fn, 0)) && x.describeLeaf(args[1], 0) == "FARID()",
					"the release is addressed with the caller's SEID and the FAR id of this Update FAR ("+x.describeLeaf(args[1], 0)+")")
			}
		}
	}

	// R4 = C14 R3
	sub, _ := core.NewCtx(c.P, "C14", c.Tier, c.Seed, c.OutDir, "")
	if full, ok := Registry["C14"]; ok {
		full(sub) // call site AND emitted layout: the payload a peer extracts is the buffered packet only if flags, length and offsets are right
	} else {
		c14CallSite(sub)
	}
	okCS := true
	var bad []string
	for _, f := range sub.Findings {
		okCS = false
		bad = append(bad, strings.TrimPrefix(f.Key, "C14/"))
	}
	c.Check("R4", "encapsulation-sources", token.NoPos, okCS, fmt.Sprintf("WritePacket takes peer address, port and TEID from the FAR's outer header creation and the QFI from the QER, and the emitted G-PDU has the layout of C14 (R1-R3) %v", bad))

	// R5 lifetime
	if fn := fnOf(c, "R5", pkgPfcp, "Sess", "Close"); fn != nil {
		var rng *ssa.Range
		core.Instrs(fn, func(in ssa.Instruction) {
			if r, ok := in.(*ssa.Range); ok && core.IsPath(r.X, core.Recv(fn), "q") {
				rng = r
			}
		})
		closes := false
		onAll := rng != nil
		if rng != nil {
			core.Instrs(fn, func(in ssa.Instruction) {
				switch x := in.(type) {
				case *ssa.Call:
					if bi, ok := x.Call.Value.(*ssa.Builtin); ok && bi.Name() == "close" {
						if ex, ok := x.Call.Args[0].(*ssa.Extract); ok && ex.Index == 2 {
							if nx, ok := ex.Tuple.(*ssa.Next); ok && nx.Iter == ssa.Value(rng) {
								closes = true
							}
						}
					}
				case *ssa.Return:
					if !core.InstrDominates(rng, x) {
						onAll = false
					}
				}
			})
		}
		c.Check("R5", "close-closes-queues", fn.Pos(), closes && onAll, "Sess.Close closes every per-PDR queue, on every path")
	}
	okFL, why := freeListLemma(c, false)
	c.Check("R5", "closed-session-unreachable", token.NoPos, okFL, "after Close the session's slot is cleared before the SEID can be looked up or re-issued (C04 R4) "+why)
	// "never emitted ... after its session has ended": every way a session ends reaches Close (session-end rules
	// shared with C01 R6)
	c01EndPaths(c, "R5", false)
	if fn := p.SSAFn(p.Method(pkgPfcp, "LocalNode", "NewSess")); fn != nil {
		for _, st := range storesToField(fn, qF) {
			_, mk := st.Val.(*ssa.MakeMap)
			c.Check("R5", "fresh-queues", st.Pos(), mk, "a new session (also on a re-used SEID) starts with an empty queue map")
		}
	}

	// R6
	if fn := p.SSAFn(p.Method(pkgFwd, "Gtp5g", "UpdateFAR")); fn != nil {
		orderIndependence(c, "R6", fn)
		// key matching the recorded fix
		for _, f := range c.Findings {
			if f.Rule == "R6" && strings.Contains(f.Key, "order-dependent") {
				f.Key = "C13/R6/order-dependent:(*forwarder.Gtp5g).UpdateFAR"
			}
		}
	}
}

func blockName(b *ssa.BasicBlock) string { return fmt.Sprintf("%s.%d", b.Comment, b.Index) }

// loopHeaderOfRange: headers of rangeindex loops over a slice loaded from a field called `field`.
func loopHeaderOfRange(fn *ssa.Function, field string) []*ssa.BasicBlock {
	var out []*ssa.BasicBlock
	core.Instrs(fn, func(in ssa.Instruction) {
		ia, ok := in.(*ssa.IndexAddr)
		if !ok {
			return
		}
		_, path := core.FieldPath(ia.X)
		if len(path) == 0 || path[len(path)-1] != field {
			return
		}
		// the index is k+1 of the range phi: its block is the loop header
		if add, ok := ia.Index.(*ssa.BinOp); ok && add.Op == token.ADD {
			if ph, ok := add.X.(*ssa.Phi); ok {
				out = append(out, ph.Block())
			}
		}
	})
	return out
}

// isOkOrPhiOf: cond is v, or a loop-carried phi of v and the constant true (for ok := true; ok; {...}).
func isOkOrPhiOf(cond, v ssa.Value) bool {
	if cond == v {
		return true
	}
	if ph, ok := cond.(*ssa.Phi); ok {
		for _, e := range ph.Edges {
			if e == v {
				continue
			}
			if k, ok := e.(*ssa.Const); ok && k.Value != nil && k.Value.String() == "true" {
				continue
			}
			return false
		}
		return true
	}
	return false
}

// qerPerPDR: the QER handed to WritePacket is selected within the iteration of the PDR whose packets are
// written; it is not carried over from the previous PDR of the FAR.
func qerPerPDR(c *core.Ctx, rule string, fn *ssa.Function, w ssa.CallInstruction) {
	args := core.CallArgs(w)
	leak := false
	outer := loopHeaderOfRange(fn, "PDRIDs")
	seen := map[ssa.Value]bool{}
	var walk func(v ssa.Value, d int)
	walk = func(v ssa.Value, d int) {
		if v == nil || seen[v] || d > 20 {
			return
		}
		seen[v] = true
		if ph, ok := v.(*ssa.Phi); ok {
			for _, h := range outer {
				if ph.Block() == h {
					leak = true
				}
			}
			for _, e := range ph.Edges {
				walk(e, d+1)
			}
		}
	}
	walk(args[1], 0)
	c.Check(rule, "qer-per-pdr", w.Pos(), !leak && len(outer) > 0, "the QER (QFI) used for a PDR's packets is selected within that PDR's iteration and not carried over from the previous PDR")
}

// c13PacketExtent: in buffnetlink.decodbuffer the packet result is, on every path that sets it, the
// attribute's value bytes b[n : hdr.Len] of the attribute header just decoded: the low bound is the
// header size returned by DecodeAttrHdr and the high bound is the header's own (unaligned) length —
// netlink pads attributes to 4 bytes and the padding is not part of the packet.
func c13PacketExtent(c *core.Ctx) {
	p := c.P
	fn := fnOf(c, "R7", pkgBuff, "", "decodbuffer")
	if fn == nil {
		return
	}
	n := 0
	core.Instrs(fn, func(in ssa.Instruction) {
		r, ok := in.(*ssa.Return)
		if !ok || len(r.Results) == 0 {
			return
		}
		// the packet result: the []byte among several results, or the []byte field of a result struct
		var starts []ssa.Value
		for _, res := range r.Results {
			if sl, isSl := res.Type().Underlying().(*types.Slice); isSl {
				if b, isB := sl.Elem().Underlying().(*types.Basic); isB && b.Kind() == types.Uint8 {
					starts = append(starts, res)
				}
			}
			if ld, isLd := res.(*ssa.UnOp); isLd && ld.Op == token.MUL {
				if al, isAl := ld.X.(*ssa.Alloc); isAl {
					for _, rr := range *al.Referrers() {
						fa, isFA := rr.(*ssa.FieldAddr)
						if !isFA {
							continue
						}
						sl, isSl := core.FieldOfAddr(fa).Type().Underlying().(*types.Slice)
						if !isSl {
							continue
						}
						if b, isB := sl.Elem().Underlying().(*types.Basic); !isB || b.Kind() != types.Uint8 {
							continue
						}
						for _, u := range *fa.Referrers() {
							if st, isSt := u.(*ssa.Store); isSt && st.Addr == ssa.Value(fa) {
								starts = append(starts, st.Val)
							}
						}
					}
				}
			}
		}
		if len(starts) == 0 {
			return
		}
		seen := map[ssa.Value]bool{}
		var walk func(v ssa.Value)
		walk = func(v ssa.Value) {
			if seen[v] {
				return
			}
			seen[v] = true
			switch x := v.(type) {
			case *ssa.Const:
			case *ssa.Phi:
				for _, e := range x.Edges {
					walk(e)
				}
			case *ssa.Slice:
				n++
				var hdrCall *ssa.Call
				lowOK := false
				if ex, ok := x.Low.(*ssa.Extract); ok && ex.Index == 1 {
					if cl, ok := ex.Tuple.(*ssa.Call); ok && core.Callee(cl) != nil && core.Callee(cl).Name() == "DecodeAttrHdr" {
						hdrCall, lowOK = cl, true
					}
				}
				highOK, why := false, "no upper bound (the rest of the message, padding and later attributes included)"
				if x.High != nil {
					h := x.High
					why = "upper bound is not the attribute header's Len"
					for {
						if cv, ok := h.(*ssa.Convert); ok {
							h = cv.X
							continue
						}
						if ct, ok := h.(*ssa.ChangeType); ok {
							h = ct.X
							continue
						}
						break
					}
					var base ssa.Value
					fname := ""
					switch y := h.(type) {
					case *ssa.Field:
						base, fname = y.X, core.FieldOfField(y).Name()
					case *ssa.UnOp:
						if fa, ok := y.X.(*ssa.FieldAddr); ok {
							base, fname = fa.X, core.FieldOfAddr(fa).Name()
							if al, ok := fa.X.(*ssa.Alloc); ok {
								if sv, ok := aggregateSingleStore(al); ok {
									base = sv
								}
							}
						}
					case *ssa.Call:
						why = "upper bound goes through " + core.FnName(core.StaticFn(y)) + " (aligned length: includes the netlink padding)"
					}
					if fname == "Len" && base != nil {
						if ex, ok := base.(*ssa.Extract); ok && ex.Index == 0 && ex.Tuple == ssa.Value(hdrCall) {
							highOK = true
						}
					}
				}
				c.Check("R7", fmt.Sprintf("packet-extent#%d", n), x.Pos(), lowOK && highOK, "the packet handed up is b[header size : header Len] of the attribute just decoded ("+map[bool]string{true: "ok", false: why}[lowOK && highOK]+")")
			default:
				n++
				c.Check("R7", fmt.Sprintf("packet-extent#%d", n), r.Pos(), false, fmt.Sprintf("packet result has an unrecognised origin %T", v))
			}
		}
		for _, st := range starts {
			walk(st)
		}
	})
	c.Floor("R7", n, 1, "packet slices in decodbuffer")
	_ = p
}

// applyActionLookups: see the comment at its call in C13.
func applyActionLookups(c *core.Ctx, rule string) {
	// R3 rule look-ups of the release: each object is fetched under (this session, its own id) - the FAR under
	// the FAR id handed in, each PDR under an id of that FAR's PDR list, each QER under an id of that PDR's
	// QER list (the three look-ups are copies of one line; a left-over id fetches another rule's QFI)
	if fn := fnOf(c, rule, pkgFwd, "Gtp5g", "applyAction"); fn != nil {
		want := map[string]string{"GetFAROID": "param", "GetPDROID": "PDRIDs", "GetQEROID": "QERID"}
		n := 0
		core.Instrs(fn, func(in ssa.Instruction) {
			cl, ok := in.(*ssa.Call)
			if !ok {
				return
			}
			f := core.Callee(cl)
			if f == nil || f.Pkg() == nil || f.Pkg().Path() != core.PkgGtp5gnl || want[f.Name()] == "" {
				return
			}
			n++
			var oid ssa.Value
			for _, a := range cl.Call.Args {
				if nn, ok := a.Type().(*types.Named); ok && nn.Obj().Name() == "OID" {
					oid = a
				}
			}
			vals := sliceLiteralValues(oid)
			good, got := false, "?"
			if len(vals) == 2 && core.Unwrap(vals[0]) == ssa.Value(core.Param(fn, 0)) {
				id := core.Unwrap(vals[1])
				// conversions on the way to the 64-bit OID component may widen, never narrow below the id's own width
				minBits := 64
				for {
					if cv, ok := id.(*ssa.Convert); ok {
						if bt, isB := cv.Type().Underlying().(*types.Basic); isB {
							if w := intBits(bt); w > 0 && w < minBits {
								minBits = w
							}
						}
						id = core.Unwrap(cv.X)
						continue
					}
					break
				}
				narrowed := false
				if bt, isB := id.Type().Underlying().(*types.Basic); isB {
					if w := intBits(bt); w > 0 && minBits < w {
						narrowed = true
					}
				}
				if narrowed {
					got = fmt.Sprintf("an id narrowed to %d bits on the way", minBits)
					id = nil
				}
				switch y := id.(type) {
				case *ssa.Parameter:
					got = "param"
					good = want[f.Name()] == "param" && y == core.Param(fn, 1)
				case *ssa.UnOp:
					if ia, ok := y.X.(*ssa.IndexAddr); ok {
						if _, path := core.FieldPath(ia.X); len(path) > 0 {
							got = path[len(path)-1]
							good = got == want[f.Name()]
						}
					}
				}
			}
			c.Check(rule, fmt.Sprintf("lookup-id:%s#%d", f.Name(), n), cl.Pos(), good,
				fmt.Sprintf("%s is addressed with (the function's SEID, %s) - got %s", f.Name(), map[string]string{"param": "the FAR id parameter", "PDRIDs": "an element of the FAR's PDRIDs", "QERID": "an element of the PDR's QERID list"}[want[f.Name()]], got))
		})
		c.Floor(rule, n, 3, "rule look-ups in applyAction")
	}

}

// popVerdict: the drain loops of the driver (`for { pkt, ok := Pop(); if !ok { break } ... }`) run on the event loop and
// end only because Pop answers false for an empty queue.  In Sess.Pop every return reached through the `default` arm
// of the non-blocking select (nothing received) therefore yields false as its verdict — a constant, or a value known
// to be false on that arm.
func popVerdict(c *core.Ctx, rule string) {
	fn := fnOf(c, rule, pkgPfcp, "Sess", "Pop")
	if fn == nil {
		return
	}
	var sel *ssa.Select
	core.Instrs(fn, func(in ssa.Instruction) {
		if x, ok := in.(*ssa.Select); ok {
			sel = x
		}
	})
	if sel == nil || sel.Blocking {
		return // pop-nonblocking reports it
	}
	// the arm test: index == 0 (received); the other successor is the default arm
	var idx ssa.Value
	for _, r := range *sel.Referrers() {
		if ex, ok := r.(*ssa.Extract); ok && ex.Index == 0 {
			idx = ex
		}
	}
	var dflt *ssa.BasicBlock
	for _, b := range fn.Blocks {
		ifi, ok := b.Instrs[len(b.Instrs)-1].(*ssa.If)
		if !ok {
			continue
		}
		bo, ok := ifi.Cond.(*ssa.BinOp)
		if !ok || bo.Op != token.EQL || bo.X != idx {
			continue
		}
		if k, isK := core.ConstInt(bo.Y); isK && k == 0 {
			dflt = b.Succs[1]
		}
	}
	if dflt == nil {
		c.Undecided(rule, "pop-empty-false", fn.Pos(), "cannot find the default arm of the non-blocking receive in Sess.Pop")
		return
	}
	bad := ""
	var badPos token.Pos
	// walk every path from the default arm to a return, resolving the phis met on the way by the edge taken
	var visit func(b, prev *ssa.BasicBlock, env map[ssa.Value]ssa.Value, depth int)
	resolve := func(env map[ssa.Value]ssa.Value, v ssa.Value) ssa.Value {
		for i := 0; i < 8; i++ {
			r, ok := env[v]
			if !ok {
				return v
			}
			v = r
		}
		return v
	}
	visit = func(b, prev *ssa.BasicBlock, env map[ssa.Value]ssa.Value, depth int) {
		if depth > 24 {
			return
		}
		if prev != nil {
			for _, in := range b.Instrs {
				ph, ok := in.(*ssa.Phi)
				if !ok {
					break
				}
				for i, pr := range b.Preds {
					if pr == prev {
						env[ph] = resolve(env, ph.Edges[i])
					}
				}
			}
		}
		if r, ok := b.Instrs[len(b.Instrs)-1].(*ssa.Return); ok && len(r.Results) == 2 {
			v := resolve(env, r.Results[1])
			isFalse := false
			if k, ok := v.(*ssa.Const); ok && k.Value != nil && k.Value.String() == "false" {
				isFalse = true
			}
			if !isFalse && core.KnownAt(dflt, v, false) {
				isFalse = true
			}
			if !isFalse && bad == "" {
				bad = "on the empty-queue arm Pop does not answer false"
				badPos = r.Pos()
			}
			return
		}
		// a branch on a value the path has fixed is followed on its taken side only
		if ifi, ok := b.Instrs[len(b.Instrs)-1].(*ssa.If); ok {
			if k, ok := resolve(env, ifi.Cond).(*ssa.Const); ok && k.Value != nil && k.Value.Kind() == constant.Bool {
				s := b.Succs[1]
				if constant.BoolVal(k.Value) {
					s = b.Succs[0]
				}
				visit(s, b, env, depth+1)
				return
			}
		}
		for _, s := range b.Succs {
			e2 := map[ssa.Value]ssa.Value{}
			for k, v := range env {
				e2[k] = v
			}
			visit(s, b, e2, depth+1)
		}
	}
	visit(dflt, nil, map[ssa.Value]ssa.Value{}, 0)
	pos := fn.Pos()
	if bad != "" {
		pos = badPos
	}
	c.Check(rule, "pop-empty-false", pos, bad == "", "Pop answers false when the queue is empty: the driver's drain loops on the event loop end there"+map[bool]string{true: "", false: " — " + bad}[bad == ""])
}

// intBits: the width of a sized integer type (0 for anything else; int/uint count as 64).
func intBits(b *types.Basic) int {
	switch b.Kind() {
	case types.Int8, types.Uint8:
		return 8
	case types.Int16, types.Uint16:
		return 16
	case types.Int32, types.Uint32:
		return 32
	case types.Int64, types.Uint64, types.Int, types.Uint, types.Uintptr:
		return 64
	}
	return 0
}
