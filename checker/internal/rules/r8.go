package rules

import (
	"fmt"
	"go/token"
	"go/types"
	"strings"

	"golang.org/x/tools/go/ssa"

	"upfcheck/internal/core"
)

// Rules added after the eighth round of seeded changes (features that work in their ordinary case and break a
// property in a corner; DESIGN.md 8.5 round 8).  Attached like r7.go, after it (file name order).

func init() {
	wrap := func(id string, extra func(*core.Ctx)) {
		base := Registry[id]
		Registry[id] = func(c *core.Ctx) {
			base(c)
			if c.P == nil {
				return
			}
			extra(c)
		}
	}
	has := func(o *core.Obligation, rule string, parts ...string) bool {
		if o.Rule != rule {
			return false
		}
		for _, p := range parts {
			if strings.Contains(o.Key, p) {
				return true
			}
		}
		return false
	}
	wrap("C01", func(c *core.Ctx) {
		shareFrom(c, "C10", "R6", func(o *core.Obligation) bool { return has(o, "R4", "/R4/report-node") }, 2, "report destination rules (the SEID-0 answer comes back from where the report went)")
	})
	wrap("C02", func(c *core.Ctx) { driverNoValueRejection(c, "R5", []string{"PDR", "FAR"}) })
	wrap("C03", func(c *core.Ctx) {
		driverNoValueRejection(c, "R5", []string{"QER", "URR", "BAR"})
		rspSessionLookup(c, "R5")
		shareFrom(c, "C15", "R8", func(o *core.Obligation) bool {
			return has(o, "R2", "/R2/drop-sites", "/R2/stop-arm", "/R2/ticker-stopped-before-drop", "/R2/drop-iff-group-empty", "/R2/del-removes-pair")
		}, 3, "period-group life cycle")
	})
	wrap("C07", func(c *core.Ctx) {
		queueOpsConfined(c, "P5")
		ieListsNotPresized(c, "P2")
	})
	wrap("C16", func(c *core.Ctx) {
		shareFrom(c, "C02", "R3", func(o *core.Obligation) bool { return has(o, "R5", "/R5/handed-on-args:CreatePDR", "/R5/handed-on-args:UpdatePDR") }, 2, "the PDR IE reaches the driver as the peer sent it")
	})
	wrap("C05", func(c *core.Ctx) { rspSessionLookup(c, "R2") })
	wrap("C08", func(c *core.Ctx) { responseSeidAnywhere(c, "R1") })
	wrap("C09", func(c *core.Ctx) { txSendArms(c, "R4") })
	wrap("C11", func(c *core.Ctx) { seqThenSent(c, "R2") })
	wrap("C10", func(c *core.Ctx) {
		shareFrom(c, "C01", "R4", func(o *core.Obligation) bool { return has(o, "R6", "/R6/reset-caller") }, 1, "who may release a node's sessions")
	})
	wrap("C12", func(c *core.Ctx) { refcountCommitted(c, "R1") })
	wrap("C13", func(c *core.Ctx) {
		rspSessionLookup(c, "R5")
		queueOpsConfined(c, "R1")
	})
	wrap("C17", func(c *core.Ctx) {
		untrackedTimers(c, "R4")
		// "Stop stops": a goroutine that posts to a bounded queue only it drains never gets to its stop event
		shareFrom(c, "C18", "R4", func(o *core.Obligation) bool { return has(o, "R1", "/R1/self-wait") }, 0, "self-waits")
	})
	wrap("C19", func(c *core.Ctx) { flagsNeverRefused(c, "R3") })
	wrap("C20", func(c *core.Ctx) { configDecodedPlainly(c, "R3") })
}

// rspSessionLookup: a Session Report Response names the session by the UP SEID in its header, a number that may have
// been released and re-issued to another peer's session since the request went out.  The handler may therefore reach a
// session only through the two-key lookup (CP SEID of the request that was sent, peer address), or through a lookup by
// the header SEID whose result is compared with that CP SEID.
func rspSessionLookup(c *core.Ctx, rule string) {
	p := c.P
	fn := fnOf(c, rule, pkgPfcp, "PfcpServer", "handleSessionReportResponse")
	if fn == nil {
		return
	}
	sessLookup := p.Method(pkgPfcp, "LocalNode", "Sess")
	remoteSess := p.Method(pkgPfcp, "LocalNode", "RemoteSess")
	if sessLookup == nil || remoteSess == nil {
		c.Anchor(rule, "LocalNode.Sess / LocalNode.RemoteSess")
		return
	}
	byUp := core.Calls(fn, sessLookup)
	by2 := core.Calls(fn, remoteSess)
	// a comparison of a session's RemoteID in the handler
	compares := false
	core.Instrs(fn, func(in ssa.Instruction) {
		if b, ok := in.(*ssa.BinOp); ok && (b.Op == token.EQL || b.Op == token.NEQ) {
			for _, v := range []ssa.Value{b.X, b.Y} {
				if _, f, ok := core.LoadedField(v); ok && f.Name() == "RemoteID" {
					compares = true
				}
			}
		}
	})
	// a session found under the header's UP SEID may be looked at (logged); what counts is handing it to own code
	pos := fn.Pos()
	used := false
	for _, ci := range byUp {
		v := ci.Value()
		if v == nil {
			continue
		}
		for _, r := range *v.Referrers() {
			ex, ok := r.(*ssa.Extract)
			if !ok || ex.Index != 0 {
				continue
			}
			for _, u := range *ex.Referrers() {
				switch x := u.(type) {
				case ssa.CallInstruction:
					if f := core.Callee(x); f != nil && f.Pkg() != nil && p.IsOwn(f.Pkg()) {
						used, pos = true, x.Pos()
					}
				case *ssa.FieldAddr:
					for _, fr := range *x.Referrers() {
						if _, isStore := fr.(*ssa.Store); isStore {
							used, pos = true, fr.Pos()
						}
						if ld, isLoad := fr.(*ssa.UnOp); isLoad {
							// a field of the session handed on to own code (sess.rnode.DeleteSess, sess.q ...)
							for _, lr := range *ld.Referrers() {
								if cc, isCall := lr.(ssa.CallInstruction); isCall {
									if f := core.Callee(cc); f != nil && f.Pkg() != nil && p.IsOwn(f.Pkg()) {
										used, pos = true, cc.Pos()
									}
								}
							}
						}
					}
				}
			}
		}
	}
	c.Check(rule, "response-session-by-two-keys", pos, !used || compares,
		fmt.Sprintf("the Session Report Response handler reaches a session through the (CP SEID of the request, peer address) lookup (%d such call(s)), or checks the session found under the header's UP SEID against that CP SEID — the UP SEID alone may have been re-issued to another peer's session while the request was outstanding", len(by2)))
	c.Floor(rule, len(by2), 1, "two-key lookups in the Session Report Response handler")
}

// responseSeidAnywhere: wherever package pfcp builds a response with a header SEID (not only in the five handlers of
// C08 R1), that SEID is the peer's: the RemoteID of a session, or 0.
func responseSeidAnywhere(c *core.Ctx, rule string) {
	p := c.P
	handlers := map[string]bool{"handleHeartbeatRequest": true, "handleAssociationSetupRequest": true, "handleSessionEstablishmentRequest": true,
		"handleSessionModificationRequest": true, "handleSessionDeletionRequest": true}
	n := 0
	for _, fn := range p.OwnFuncs() {
		pk := core.FnPkg(fn)
		if pk == nil || pk.Path() != pkgPfcp || fn.Blocks == nil || handlers[fn.Name()] {
			continue
		}
		k := 0
		for _, ci := range core.CallsMatching(fn, func(f *types.Func) bool {
			return f.Pkg() != nil && f.Pkg().Path() == core.PkgMessage && rspCtor.MatchString(f.Name())
		}) {
			seid := argByName(ci, "seid")
			if seid == nil {
				continue
			}
			n++
			k++
			zero := false
			if v, ok := core.ConstInt(seid); ok && v == 0 {
				zero = true
			}
			_, f, isLoad := core.LoadedField(seid)
			remote := isLoad && f.Name() == "RemoteID"
			c.Check(rule, fmt.Sprintf("response-seid:%s#%d", core.FnName(fn), k), ci.Pos(), zero || remote,
				"a response built outside the five request handlers carries the peer's SEID (a session's RemoteID) or 0 in its header, never the SEID the request was addressed with")
		}
	}
	c.Extra["responses_built_outside_handlers"] = n
}

// flagsNeverRefused: the four flag types are pure codecs: apart from Unmarshal's length test no method of theirs
// returns an error, so no bit pattern a peer may legally send is refused on the way to the data plane.
func flagsNeverRefused(c *core.Ctx, rule string) {
	p := c.P
	n := 0
	for _, tn := range []string{"ApplyAction", "ReportingTrigger", "UsageReportTrigger", "MeasureMethod", "MeasureInformation", "VolumeMeasure"} {
		named := p.Named(pkgReport, tn)
		if named == nil {
			continue
		}
		for _, m := range core.Methods(named) {
			n++
			sig := m.Type().(*types.Signature)
			retErr := false
			for i := 0; i < sig.Results().Len(); i++ {
				if sig.Results().At(i).Type().String() == "error" {
					retErr = true
				}
			}
			if !retErr {
				continue
			}
			c.Check(rule, "flags-never-refused:"+tn+"."+m.Name(), m.Pos(), m.Name() == "Unmarshal",
				"only the decoder of a flag type can fail (too few octets); "+tn+"."+m.Name()+" returns an error, i.e. a value-dependent refusal of flag combinations")
		}
	}
	c.Floor(rule, n, 20, "methods of the flag types examined")
}

// configDecodedPlainly: the accepted configuration is what the file says: the configuration types do not decode
// themselves (no Unmarshal* methods: a hook cannot tell an explicit zero from an absent key), and package factory
// does not rewrite decoded values through reflection or environment expansion.
func configDecodedPlainly(c *core.Ctx, rule string) {
	p := c.P
	n := 0
	for _, fn := range p.OwnFuncs() {
		pk := core.FnPkg(fn)
		if pk == nil || pk.Path() != pkgFact || fn.Blocks == nil {
			continue
		}
		n++
		if fn.Signature.Recv() != nil && strings.HasPrefix(fn.Name(), "Unmarshal") {
			c.Fail(rule, "config-custom-decoder:"+core.FnName(fn), fn.Pos(),
				"a configuration type decodes itself ("+core.FnName(fn)+"): defaults applied there replace values the file states explicitly (an explicit 0 cannot be told from an absent key)")
		}
		core.Instrs(fn, func(in ssa.Instruction) {
			ci, ok := in.(ssa.CallInstruction)
			if !ok {
				return
			}
			f := core.Callee(ci)
			if f == nil || f.Pkg() == nil {
				return
			}
			switch {
			case f.Pkg().Path() == "reflect" && strings.HasPrefix(f.Name(), "Set"):
				c.Fail(rule, "config-rewritten-by-reflection:"+core.FnName(fn), ci.Pos(),
					"package factory writes values through reflect."+f.Name()+": decoded configuration values are replaced after the file was read")
			case f.Pkg().Path() == "os" && (f.Name() == "Expand" || f.Name() == "ExpandEnv"):
				c.Fail(rule, "config-expanded:"+core.FnName(fn), ci.Pos(),
					"package factory runs os."+f.Name()+" over configuration text: a literal '$' in an accepted value does not survive")
			}
		})
	}
	c.Floor(rule, n, 5, "functions of package factory examined")
}

// refcountCommitted: once a function has counted a URR reference for a PDR it also records the PDR's URR list: no path
// from the increment leaves the function before the list is stored (a refusal in between leaves the count too high
// for ever, and the final report of that URR is lost).
func refcountCommitted(c *core.Ctx, rule string) {
	p := c.P
	refF := p.Field(pkgPfcp, "URRInfo", "refPdrNum")
	relF := p.Field(pkgPfcp, "PDRInfo", "RelatedURRIDs")
	pdrids := p.Field(pkgPfcp, "Sess", "PDRIDs")
	if refF == nil || relF == nil || pdrids == nil {
		c.Anchor(rule, "URRInfo.refPdrNum / PDRInfo.RelatedURRIDs / Sess.PDRIDs")
		return
	}
	n := 0
	for _, fn := range p.OwnFuncs() {
		pk := core.FnPkg(fn)
		if pk == nil || pk.Path() != pkgPfcp || fn.Blocks == nil {
			continue
		}
		var incs []*ssa.Store
		for _, st := range storesToField(fn, refF) {
			if b, ok := st.Val.(*ssa.BinOp); ok && b.Op == token.ADD {
				incs = append(incs, st)
			}
		}
		if len(incs) == 0 {
			continue
		}
		commits := func(b *ssa.BasicBlock) bool {
			for _, in := range b.Instrs {
				switch x := in.(type) {
				case *ssa.MapUpdate:
					if _, f, ok := core.LoadedField(x.Map); ok && f == pdrids {
						return true
					}
				case *ssa.Store:
					if fa, ok := x.Addr.(*ssa.FieldAddr); ok && core.FieldOfAddr(fa) == relF {
						if _, isAlloc := fa.X.(*ssa.Alloc); !isAlloc {
							return true
						}
					}
				}
			}
			return false
		}
		for i, st := range incs {
			n++
			r := returnAvoiding(st.Block(), commits)
			pos := st.Pos()
			if r != nil {
				pos = r.Pos()
			}
			c.Check(rule, fmt.Sprintf("refcount-committed:%s#%d", core.FnName(fn), i+1), pos, r == nil,
				"after a URR reference was counted every path records the PDR's URR list before it returns")
		}
	}
	c.Floor(rule, n, 2, "reference-count increments")
}

// untrackedTimers: every timer package pfcp starts belongs to a transaction (armed in the transaction's startTimer and
// kept in its timer field), because those are the timers the event loop stops when it ends; a timer kept anywhere else
// can fire into the closed timeout channel after Stop.
func untrackedTimers(c *core.Ctx, rule string) {
	p := c.P
	n := 0
	for _, fn := range p.OwnFuncs() {
		pk := core.FnPkg(fn)
		if pk == nil || pk.Path() != pkgPfcp || fn.Blocks == nil {
			continue
		}
		core.Instrs(fn, func(in ssa.Instruction) {
			ci, ok := in.(*ssa.Call)
			if !ok {
				return
			}
			f := core.Callee(ci)
			if f == nil || !(core.IsPkgFunc(f, "time", "AfterFunc") || core.IsPkgFunc(f, "time", "NewTimer") || core.IsPkgFunc(f, "time", "NewTicker")) {
				return
			}
			n++
			// tracked: the result is returned by a method of a transaction type (startTimer), or stored into a
			// transaction's timer field
			tracked := false
			outer := fn
			for outer.Parent() != nil {
				outer = outer.Parent()
			}
			if rt := outer.Signature.Recv(); rt != nil {
				ts := rt.Type().String()
				if strings.HasSuffix(ts, "TxTransaction") || strings.HasSuffix(ts, "RxTransaction") {
					tracked = true
				}
			}
			for _, r := range *ci.Referrers() {
				if st, ok := r.(*ssa.Store); ok {
					if fa, ok := st.Addr.(*ssa.FieldAddr); ok {
						owner := fieldOwnerName(fa)
						if owner == "TxTransaction" || owner == "RxTransaction" {
							tracked = true
						}
					}
				}
			}
			c.Check(rule, fmt.Sprintf("timer-tracked:%s#%d", core.FnName(fn), n), ci.Pos(), tracked,
				"a timer started in package pfcp is a transaction's timer (the event loop stops exactly those when it ends; any other can fire into the closed timeout channel after Stop)")
		})
	}
	c.Floor(rule, n, 2, "timers started in package pfcp")
}

// txSendArms: a transmit transaction that sendReqTo has entered in the table is armed: TxTransaction.send leaves before
// it stores the retransmission timer only when the request cannot be encoded (an error that comes out of go-pfcp).
// Any other early exit leaves a table entry without bytes and without a timer that nothing ever releases, and whose
// sequence number still matches a stray response.
func txSendArms(c *core.Ctx, rule string) {
	p := c.P
	fn := fnOf(c, rule, pkgPfcp, "TxTransaction", "send")
	timerF := p.Field(pkgPfcp, "TxTransaction", "timer")
	if fn == nil || timerF == nil {
		c.Anchor(rule, "TxTransaction.send / TxTransaction.timer")
		return
	}
	arms := storesToField(fn, timerF)
	c.Check(rule, "tx-send-arms:timer-stored", fn.Pos(), len(arms) >= 1, "TxTransaction.send stores the retransmission timer")
	n := 0
	armedAt := func(in ssa.Instruction) bool {
		for _, a := range arms {
			if core.InstrDominates(a, in) {
				return true
			}
		}
		return false
	}
	marshalOnly := func(v ssa.Value) (bool, []string) {
		origins := map[string]bool{}
		errOrigins(p, v, origins, map[ssa.Value]bool{}, 0)
		okO := len(origins) > 0
		var os []string
		for o := range origins {
			os = append(os, o)
			// the request is a go-pfcp message value: its MarshalTo / MarshalLen are invoked through the interface
			if !strings.Contains(o, "go-pfcp") && !strings.HasPrefix(o, "invoke:Marshal") {
				okO = false
			}
		}
		return okO, os
	}
	// the error values that can leave the function before the timer is stored, one by one (a helper that was expanded
	// into send merges its returns: the merge is taken apart edge by edge / store by store)
	var early func(v ssa.Value, at ssa.Instruction, seen map[ssa.Value]bool) (bool, []string)
	early = func(v ssa.Value, at ssa.Instruction, seen map[ssa.Value]bool) (bool, []string) {
		if seen[v] || core.IsNilConst(v) {
			return true, nil
		}
		seen[v] = true
		switch x := v.(type) {
		case *ssa.Phi:
			for i, e := range x.Edges {
				pb := x.Block().Preds[i]
				last := pb.Instrs[len(pb.Instrs)-1]
				if armedAt(last) {
					continue
				}
				if ok, os := early(e, last, seen); !ok {
					return false, os
				}
			}
			return true, nil
		case *ssa.UnOp:
			if al, ok := x.X.(*ssa.Alloc); ok && x.Op == token.MUL {
				for _, ref := range *al.Referrers() {
					if st, ok := ref.(*ssa.Store); ok && st.Addr == al {
						if armedAt(st) {
							continue
						}
						if ok2, os := early(st.Val, st, seen); !ok2 {
							return false, os
						}
					}
				}
				return true, nil
			}
		}
		return marshalOnly(v)
	}
	core.Instrs(fn, func(in ssa.Instruction) {
		r, ok := in.(*ssa.Return)
		if !ok || len(r.Results) == 0 || armedAt(r) {
			return
		}
		n++
		okO, os := early(r.Results[len(r.Results)-1], r, map[ssa.Value]bool{})
		c.Check(rule, fmt.Sprintf("tx-send-arms:early-exit#%d", n), r.Pos(), okO,
			fmt.Sprintf("TxTransaction.send returns before arming the timer only for an encoding error of go-pfcp (error origins here: %v)", os))
	})
}

// seqThenSent: in serveUSAReport a sequence number that was taken is sent: from the URRSeq call every path to a return
// passes sendReqTo (an unknown URR is skipped before its number is taken).
func seqThenSent(c *core.Ctx, rule string) {
	p := c.P
	fn := fnOf(c, rule, pkgPfcp, "PfcpServer", "serveUSAReport")
	urrSeq := p.Method(pkgPfcp, "Sess", "URRSeq")
	sendReq := p.Method(pkgPfcp, "PfcpServer", "sendReqTo")
	if fn == nil || urrSeq == nil || sendReq == nil {
		c.Anchor(rule, "serveUSAReport / Sess.URRSeq / PfcpServer.sendReqTo")
		return
	}
	seqs := core.Calls(fn, urrSeq)
	sends := core.Calls(fn, sendReq)
	c.Floor(rule, len(seqs), 1, "URRSeq calls in serveUSAReport")
	for i, sq := range seqs {
		r := returnAvoiding(sq.Block(), func(b *ssa.BasicBlock) bool {
			for _, sd := range sends {
				if blockHas(b, sd.(ssa.Instruction)) {
					return true
				}
			}
			return false
		})
		pos := sq.Pos()
		if r != nil {
			pos = r.Pos()
		}
		c.Check(rule, fmt.Sprintf("seq-then-sent#%d", i+1), pos, r == nil,
			"once a usage report got its UR-SEQN, every path of serveUSAReport sends the Session Report Request (a number that is taken and then not sent is a gap the peer can never close)")
	}
}

// driverNoValueRejection: before its netlink request a method of the gtp5g driver gives up for IEs it cannot decode, not
// for values it does not like: an error return guarded by a comparison of a decoded IE value (the non-error result of a
// go-pfcp accessor) with a constant refuses rules the peer may legally send (rule id 0, an unusual flag word ...).
func driverNoValueRejection(c *core.Ctx, rule string, kinds []string) {
	p := c.P
	n := 0
	var fromAccessor func(v ssa.Value, d int) bool
	fromAccessor = func(v ssa.Value, d int) bool {
		if v == nil || d > 6 {
			return false
		}
		switch x := v.(type) {
		case *ssa.Extract:
			if cl, ok := x.Tuple.(*ssa.Call); ok && x.Index == 0 {
				if f := core.Callee(cl); f != nil && f.Pkg() != nil && strings.HasSuffix(f.Pkg().Path(), "go-pfcp/ie") {
					// only scalar results: lists of child IEs are tested for emptiness legitimately
					if b, isB := x.Type().Underlying().(*types.Basic); isB && b.Info()&types.IsNumeric != 0 {
						return true
					}
				}
			}
		case *ssa.Convert:
			return fromAccessor(x.X, d+1)
		case *ssa.Phi:
			for _, e := range x.Edges {
				if fromAccessor(e, d+1) {
					return true
				}
			}
		}
		return false
	}
	for _, kind := range kinds {
		for _, verb := range []string{"Create", "Update", "Remove"} {
			fn := p.SSAFn(p.Method(pkgFwd, "Gtp5g", verb+kind))
			if fn == nil || fn.Blocks == nil {
				continue
			}
			n++
			bad := ""
			pos := fn.Pos()
			core.Instrs(fn, func(in ssa.Instruction) {
				r, ok := in.(*ssa.Return)
				if !ok || len(r.Results) == 0 || bad != "" || core.IsNilConst(r.Results[len(r.Results)-1]) {
					return
				}
				for _, f := range core.FactsAt(r.Block()) {
					cmp, ok := f.V.(*ssa.BinOp)
					if !ok {
						continue
					}
					switch cmp.Op {
					case token.EQL, token.NEQ:
						// identity tests (id == 0, flags == X); ordering tests are range validations (a period <= 0)
					default:
						continue
					}
					_, kx := cmp.X.(*ssa.Const)
					_, ky := cmp.Y.(*ssa.Const)
					if (ky && fromAccessor(cmp.X, 0)) || (kx && fromAccessor(cmp.Y, 0)) {
						bad, pos = "the error return at "+p.Pos(r.Pos())+" depends on the value of a decoded IE ("+cmp.String()+")", r.Pos()
					}
				}
			})
			c.Check(rule, "driver-no-value-rejection:"+verb+kind, pos, bad == "",
				"Gtp5g."+verb+kind+" refuses a rule only when an IE cannot be decoded, never for the value it carries"+map[bool]string{true: "", false: " — " + bad}[bad == ""])
		}
	}
	c.Floor(rule, n, 3*len(kinds), "gtp5g driver rule methods")
}

// queueOpsConfined: the per-PDR packet queues (channels held in Sess.q) are operated on only by Sess.Push (non-blocking
// send), Sess.Pop (non-blocking receive) and Sess.Close (close): any other send or receive on them — a carry-over
// loop, a trimming receive — either blocks the event loop or takes packets out of order.
func queueOpsConfined(c *core.Ctx, rule string) {
	p := c.P
	qF := p.Field(pkgPfcp, "Sess", "q")
	if qF == nil {
		c.Anchor(rule, "pfcp.Sess.q")
		return
	}
	fromQ := func(v ssa.Value) bool {
		seen := map[ssa.Value]bool{}
		var walk func(v ssa.Value, d int) bool
		walk = func(v ssa.Value, d int) bool {
			if v == nil || seen[v] || d > 8 {
				return false
			}
			seen[v] = true
			switch x := v.(type) {
			case *ssa.Lookup:
				_, f, ok := core.LoadedField(x.X)
				return ok && f == qF
			case *ssa.Extract:
				if lk, ok := x.Tuple.(*ssa.Lookup); ok {
					return walk(lk, d+1)
				}
				if nx, ok := x.Tuple.(*ssa.Next); ok {
					if rg, ok := nx.Iter.(*ssa.Range); ok {
						_, f, ok := core.LoadedField(rg.X)
						return ok && f == qF
					}
				}
			case *ssa.Phi:
				for _, e := range x.Edges {
					if walk(e, d+1) {
						return true
					}
				}
			case *ssa.MakeChan:
				// a queue made to be entered in the map
				for _, r := range *x.Referrers() {
					if mu, ok := r.(*ssa.MapUpdate); ok {
						if _, f, ok := core.LoadedField(mu.Map); ok && f == qF {
							return true
						}
					}
				}
			}
			return false
		}
		return walk(v, 0)
	}
	allowed := map[string]bool{"Push": true, "Pop": true, "Close": true}
	n := 0
	for _, fn := range p.OwnFuncs() {
		pk := core.FnPkg(fn)
		if pk == nil || pk.Path() != pkgPfcp || fn.Blocks == nil {
			continue
		}
		outer := fn
		for outer.Parent() != nil {
			outer = outer.Parent()
		}
		isSessMethod := outer.Signature.Recv() != nil && strings.HasSuffix(outer.Signature.Recv().Type().String(), "pfcp.Sess")
		core.Instrs(fn, func(in ssa.Instruction) {
			var ch ssa.Value
			what := ""
			switch x := in.(type) {
			case *ssa.Send:
				ch, what = x.Chan, "send"
			case *ssa.UnOp:
				if x.Op == token.ARROW {
					ch, what = x.X, "receive"
				}
			case *ssa.Select:
				for _, st := range x.States {
					if fromQ(st.Chan) {
						ch, what = st.Chan, "select"
					}
				}
			}
			if ch == nil || !fromQ(ch) {
				return
			}
			n++
			ok := isSessMethod && allowed[outer.Name()]
			if what != "select" {
				ok = false // Push and Pop use select with default; a plain send / receive on a queue blocks
			}
			c.Check(rule, fmt.Sprintf("queue-ops-confined:%s#%d", core.FnName(fn), n), in.Pos(), ok,
				"the packet queues are touched only by the non-blocking select of Sess.Push / Sess.Pop"+map[bool]string{true: "", false: " — a " + what + " on a packet queue in " + core.FnName(fn)}[ok])
		})
	}
	c.Floor(rule, n, 2, "operations on the packet queues")
}

// ieListsNotPresized: a list of IEs that goes into a message is grown by append: a list made with a non-zero length
// starts out as nil entries, and a position that is filled only under a condition reaches go-pfcp's encoder as a nil
// IE (nil dereference under the event loop).  make([]*ie.IE, 0, n) is fine.
func ieListsNotPresized(c *core.Ctx, rule string) {
	p := c.P
	ieT := p.Named(core.PkgIE, "IE")
	if ieT == nil {
		c.Anchor(rule, "ie.IE")
		return
	}
	n, examined := 0, 0
	for _, fn := range p.OwnFuncs() {
		pk := core.FnPkg(fn)
		if pk == nil || fn.Blocks == nil || !(pk.Path() == pkgPfcp || pk.Path() == pkgReport) {
			continue
		}
		core.Instrs(fn, func(in ssa.Instruction) {
			ms, ok := in.(*ssa.MakeSlice)
			if !ok {
				return
			}
			examined++
			sl, ok := ms.Type().Underlying().(*types.Slice)
			if !ok || !isPtrTo(sl.Elem(), ieT) {
				return
			}
			n++
			zero := false
			if k, ok := core.ConstInt(ms.Len); ok && k == 0 {
				zero = true
			}
			c.Check(rule, fmt.Sprintf("ie-list-not-presized:%s#%d", core.FnName(fn), n), ms.Pos(), zero,
				"an IE list is made empty and grown by append (a pre-sized list holds nil IEs until every position is filled; go-pfcp dereferences them when the message is encoded)")
		})
	}
	c.Extra["ie_lists_made"] = n
	c.Floor(rule, examined, 1, "make() calls examined in packages pfcp and report")
}
