package rules

import (
	"fmt"
	"go/token"
	"go/types"

	"golang.org/x/tools/go/ssa"

	"upfcheck/internal/core"
)

func init() { Registry["C14"] = C14 }

func C14(c *core.Ctx) {
	c.Explain = "The GTP-U encoder (gtpv1.Message.Len/Encode, PDUSessionContainer.Len/Encode) is evaluated abstractly over its SSA form with the " +
		"header flags fixed to the constant the only call site uses (0x34), every other input symbolic: ints are affine in the payload length L " +
		"(c + k*L), octets carry bit provenance (each bit is 0, 1 or bit i of TEID/Type/PDUType/QFI). All branch conditions fold to constants, " +
		"so the result is ONE abstract output buffer per extension-list shape (with / without PDU Session Container) that is compared octet by octet " +
		"and bit by bit with the G-PDU layout of TS 29.281 5.1/5.2 + TS 38.415 (DESIGN Appendix A.3): this covers every TEID, QFI 0..63, " +
		"PDU type 0..15 and every payload length at once. Every index/slice in the encoder is shown to lie inside a buffer of Len() octets. " +
		"(R3) the call site in Gtp5g.WritePacket builds the message with flags 0x34, type 255, TEID/peer/port from the FAR's outer header creation, " +
		"QFI from the QER, payload = the popped packet, buffer = make(Len())."
	c.Undec = []string{"header forms other than flags 0x34 (the property restricts itself to the emitted form)",
		"that the kernel/peer accepts the G-PDU; UDP transmission"}
	c.Assume = []string{"encoding/binary BigEndian.PutUintNN semantics", "builtin copy semantics", "G-PDU layout as transcribed in DESIGN Appendix A.3"}
	p := c.P

	msgT := p.Named(pkgGtpv1, "Message")
	pscT := p.Named(pkgGtpv1, "PDUSessionContainer")
	lenM := p.SSAFn(p.Method(pkgGtpv1, "Message", "Len"))
	encM := p.SSAFn(p.Method(pkgGtpv1, "Message", "Encode"))
	if msgT == nil || pscT == nil || lenM == nil || encM == nil {
		c.Anchor("R2", "gtpv1.Message / PDUSessionContainer / Len / Encode")
		return
	}
	flagsConst, site := c14CallSite(c)
	if site == nil {
		return
	}
	// the QFI given to the encoder is the one of the packet's own PDR (shared with C13 R3)
	if aa := p.SSAFn(p.Method(pkgFwd, "Gtp5g", "applyAction")); aa != nil {
		for _, w := range core.Calls(aa, p.Method(pkgFwd, "Gtp5g", "WritePacket")) {
			qerPerPDR(c, "R3", aa, w)
		}
		independentIterations(c, "R3", []*ssa.Function{aa})
		applyActionLookups(c, "R3")
	}

	for _, withExt := range []bool{true, false} {
		shape := "without-ext"
		if withExt {
			shape = "with-ext"
		}
		it := &interp{prog: p.SSA, fuel: 5000}
		msg := c14Message(msgT, pscT, flagsConst, withExt)
		if msg == nil {
			c.Undecided("R2", "message-shape", msgT.Obj().Pos(), "gtpv1.Message / PDUSessionContainer no longer have the expected fields")
			return
		}
		total, ok := it.call(lenM, []any{msg}).(aff)
		if !ok || len(it.errs) > 0 {
			c.Undecided("R2", "Len:"+shape, lenM.Pos(), fmt.Sprint("abstract evaluation of Message.Len failed: ", it.errs))
			continue
		}
		hdr := int64(12)
		if withExt {
			hdr = 16
		}
		c.Check("R2", "total-length:"+shape, lenM.Pos(), total == aff{hdr, 1},
			fmt.Sprintf("Len() = %v, layout needs %d+L", total, hdr))

		out := &aArr{name: "out", length: total, cells: map[int64]any{}, fresh: true}
		it2 := &interp{prog: p.SSA, fuel: 5000}
		res := it2.call(encM, []any{msg, aSlice{arr: out, len: total}})
		if len(it2.errs) > 0 {
			c.Undecided("R2", "Encode:"+shape, encM.Pos(), fmt.Sprint("abstract evaluation of Message.Encode failed: ", it2.errs))
			continue
		}
		c.Check("R2", "in-bounds:"+shape, encM.Pos(), len(it2.oob) == 0,
			fmt.Sprintf("every index/slice/copy of the encoder stays inside a buffer of Len() octets %v", it2.oob))
		if t, ok := res.(aTuple); ok && len(t) == 2 {
			n, _ := t[0].(aff)
			_, errNil := t[1].(aNil)
			c.Check("R2", "encode-result:"+shape, encM.Pos(), n == total && errNil, fmt.Sprintf("Encode returns (%v, nil) = (Len(), nil)", n))
		}
		c14Compare(c, shape, out, withExt, total)
	}
	// "the payload unchanged at the end": the payload of a re-injected packet is the packet the data plane handed up,
	// which is exactly the value octets of the BUFFER_PACKET attribute — without the netlink padding (C13 R7)
	renameRule(c, "R7", "R3", func() { c13PacketExtent(c) })
	qerScanTotal(c, "R3")
}

// c14Message builds the abstract gtpv1.Message: Flags constant, everything else symbolic.
func c14Message(msgT, pscT *types.Named, flags uint64, withExt bool) *aStruct {
	st := msgT.Underlying().(*types.Struct)
	m := &aStruct{f: make([]any, st.NumFields())}
	seen := 0
	for i := 0; i < st.NumFields(); i++ {
		f := st.Field(i)
		switch f.Name() {
		case "Flags":
			m.f[i] = aBits{core.ConstBits(flags, 8)}
			seen++
		case "Type", "TEID", "SequenceNumber", "NPDUNumber":
			w, _ := core.WidthOf(f.Type())
			m.f[i] = aBits{core.SrcBits(f.Name(), w)}
			seen++
		case "Exts":
			arr := &aArr{name: "exts", cells: map[int64]any{}, elems: []any{}}
			if withExt {
				ps := pscT.Underlying().(*types.Struct)
				e := &aStruct{f: make([]any, ps.NumFields())}
				for j := 0; j < ps.NumFields(); j++ {
					w, _ := core.WidthOf(ps.Field(j).Type())
					e.f[j] = aBits{core.SrcBits(ps.Field(j).Name(), w)}
				}
				arr.elems = append(arr.elems, aIface{typ: pscT, v: e})
			}
			n := aff{c: int64(len(arr.elems))}
			arr.length = n
			m.f[i] = aSlice{arr: arr, len: n}
			seen++
		case "Payload":
			m.f[i] = aSlice{arr: &aArr{name: "Payload", length: aff{k: 1}, cells: map[int64]any{}}, len: aff{k: 1}}
			seen++
		default:
			m.f[i] = zeroOf(f.Type())
		}
	}
	if seen != 7 {
		return nil
	}
	return m
}

func c14Compare(c *core.Ctx, shape string, out *aArr, withExt bool, total aff) {
	cell := func(i int64) any {
		if v, ok := out.cells[i]; ok {
			return v
		}
		return aBits{core.ConstBits(0, 8)} // fresh buffer
	}
	bits := func(i int64) core.BitVec {
		if b, ok := cell(i).(aBits); ok {
			return b.v
		}
		return nil
	}
	pos := c.P.Method(pkgGtpv1, "Message", "Encode").Pos()
	chk := func(name string, ok bool, desc string) { c.Check("R2", "octet:"+name+":"+shape, pos, ok, desc) }
	constIs := func(i int64, want uint64) bool {
		b := bits(i)
		if b == nil {
			return false
		}
		v, ok := b.Const()
		return ok && v == want
	}
	show := func(i int64) string {
		switch v := cell(i).(type) {
		case aBits:
			return v.v.String()
		case affByte:
			return fmt.Sprintf("byte%d(uint%d(%v))", v.idx, v.width, v.a)
		}
		return fmt.Sprintf("%T", cell(i))
	}
	// octet 0: version 1, PT=1, E=1 (0x34) — the constant propagated from the call site's Flags
	chk("0-flags", constIs(0, 0x34), "octet 0 = "+show(0)+" (version 1, PT, E = 0x34)")
	b1 := bits(1)
	chk("1-type", b1 != nil && b1.IsField(0, 8, "Type", 0), "octet 1 = "+show(1)+" (message type field)")
	// length field: big-endian 16 bit of total-8
	wantLen := total.sub(aff{c: 8})
	hi, ok1 := cell(2).(affByte)
	lo, ok2 := cell(3).(affByte)
	chk("2-3-length", ok1 && ok2 && hi.a == wantLen && lo.a == wantLen && hi.idx == 1 && lo.idx == 0 && hi.width == 16 && lo.width == 16,
		fmt.Sprintf("octets 2..3 = %s,%s (big-endian uint16 of Len()-8 = %v)", show(2), show(3), wantLen))
	okTeid := true
	for i := int64(0); i < 4; i++ {
		b := bits(4 + i)
		if b == nil || !b.IsField(0, 8, "TEID", int(8*(3-i))) {
			okTeid = false
		}
	}
	chk("4-7-teid", okTeid, fmt.Sprintf("octets 4..7 = %s | %s | %s | %s (TEID big-endian)", show(4), show(5), show(6), show(7)))
	chk("8-10-optional", constIs(8, 0) && constIs(9, 0) && constIs(10, 0), "octets 8..10 (sequence number, N-PDU number: present because E=1, unused) are zero")
	payloadAt := int64(12)
	if withExt {
		payloadAt = 16
		chk("11-next-ext", constIs(11, 0x85), "octet 11 = "+show(11)+" (next extension header type 0x85 = PDU Session Container)")
		chk("12-ext-len", constIs(12, 1), "octet 12 = "+show(12)+" (extension length: one 4-octet unit)")
		b13 := bits(13)
		chk("13-pdu-type", b13 != nil && b13.IsField(4, 4, "PDUType", 0) && b13.IsZero(0, 4),
			"octet 13 = "+show(13)+" (PDU type in bits 7..4, spare 3..0 zero)")
		b14 := bits(14)
		chk("14-qfi", b14 != nil && b14.IsField(0, 6, "QoSFlowID", 0) && b14.IsZero(6, 2),
			"octet 14 = "+show(14)+" (bits 5..0 = all six QFI bits, bits 7..6 zero)")
		chk("15-terminator", constIs(15, 0), "octet 15 = "+show(15)+" (next extension header type 0: no more extension headers)")
	} else {
		chk("11-next-ext", constIs(11, 0), "octet 11 = "+show(11)+" (no extension header follows)")
	}
	// payload: exactly one copy of Payload, L octets, at payloadAt, and nothing written beyond the header
	okCopy := len(out.copies) == 1 && out.copies[0].src == "Payload" && out.copies[0].off == aff{c: payloadAt} && out.copies[0].n == aff{k: 1}
	chk("payload", okCopy, fmt.Sprintf("payload copied unchanged: %+v (want the L payload octets at offset %d)", out.copies, payloadAt))
	maxCell := int64(-1)
	for i := range out.cells {
		if i > maxCell {
			maxCell = i
		}
	}
	chk("no-overlap", maxCell < payloadAt, fmt.Sprintf("highest header octet written individually is %d, payload starts at %d", maxCell, payloadAt))
}

// c14CallSite checks R3 on Gtp5g.WritePacket and returns the constant Flags value used there.
func c14CallSite(c *core.Ctx) (uint64, ssa.Instruction) {
	p := c.P
	wp := p.Method(pkgFwd, "Gtp5g", "WritePacket")
	fn := p.SSAFn(wp)
	msgT := p.Named(pkgGtpv1, "Message")
	if fn == nil || msgT == nil {
		c.Anchor("R3", "forwarder.Gtp5g.WritePacket")
		return 0, nil
	}
	// who constructs gtpv1.Message values in own non-test code?
	for _, f := range p.OwnFuncs() {
		if f == fn || core.FnPkg(f).Path() == pkgGtpv1 {
			continue
		}
		core.Instrs(f, func(in ssa.Instruction) {
			if a, ok := in.(*ssa.Alloc); ok {
				if types.Identical(a.Type().(*types.Pointer).Elem(), msgT) {
					c.Fail("R3", "other-constructor:"+core.FnName(f), a.Pos(), "gtpv1.Message is built outside Gtp5g.WritePacket; the emitted header form is no longer the single one analysed")
				}
			}
		})
	}
	// the message local
	var msgAlloc *ssa.Alloc
	core.Instrs(fn, func(in ssa.Instruction) {
		if a, ok := in.(*ssa.Alloc); ok && types.Identical(a.Type().(*types.Pointer).Elem(), msgT) {
			if msgAlloc == nil {
				msgAlloc = a
			}
		}
	})
	if msgAlloc == nil {
		c.Undecided("R3", "callsite", fn.Pos(), "no local gtpv1.Message in WritePacket")
		return 0, nil
	}
	far, qer, pkt := core.Param(fn, 0), core.Param(fn, 1), core.Param(fn, 2)
	stores := map[string][]*ssa.Store{}
	core.Instrs(fn, func(in ssa.Instruction) {
		if st, ok := in.(*ssa.Store); ok {
			if fa, ok := st.Addr.(*ssa.FieldAddr); ok && fa.X == ssa.Value(msgAlloc) {
				n := core.FieldOfAddr(fa).Name()
				stores[n] = append(stores[n], st)
			}
		}
	})
	one := func(name string) *ssa.Store {
		if len(stores[name]) != 1 {
			c.Undecided("R3", "callsite-field:"+name, fn.Pos(), fmt.Sprintf("expected exactly one assignment of msg.%s, found %d", name, len(stores[name])))
			return nil
		}
		return stores[name][0]
	}
	var flags uint64
	if st := one("Flags"); st != nil {
		n, ok := core.ConstInt(st.Val)
		flags = uint64(n)
		c.Check("R3", "callsite-flags", st.Pos(), ok && n == 0x34, fmt.Sprintf("Flags = %#x at the call site (the analysed emitted form is 0x34: version 1, PT, E)", n))
		if !ok {
			return 0, nil
		}
	} else {
		return 0, nil
	}
	if st := one("Type"); st != nil {
		n, ok := core.ConstInt(st.Val)
		c.Check("R3", "callsite-type", st.Pos(), ok && n == 255, fmt.Sprintf("message type = %d (G-PDU = 255)", n))
	}
	// hc := far.Param.Creation
	isHC := func(v ssa.Value, field string) bool {
		b, f, ok := core.LoadedField(v)
		if !ok || f.Name() != field {
			return false
		}
		b2, f2, ok := core.LoadedField(b) // hc = load far.Param.Creation
		if !ok || f2.Name() != "Creation" {
			return false
		}
		b3, f3, ok := core.LoadedField(b2)
		return ok && f3.Name() == "Param" && b3 == ssa.Value(far)
	}
	if st := one("TEID"); st != nil {
		c.Check("R3", "callsite-teid", st.Pos(), isHC(st.Val, "TEID"), "TEID = far.Param.Creation.TEID (the FAR's outer header creation)")
	}
	if st := one("Payload"); st != nil {
		c.Check("R3", "callsite-payload", st.Pos(), st.Val == ssa.Value(pkt), "payload = the packet handed in (unchanged slice)")
	}
	// Exts: only under qer != nil, one PDUSessionContainer with QoSFlowID = qer.QFI, PDUType constant 0
	pscT := p.Named(pkgGtpv1, "PDUSessionContainer")
	for _, st := range stores["Exts"] {
		c.Check("R3", "callsite-ext-guard", st.Pos(), core.NilKnownAt(st.Block(), qer, false), "extension header attached only when a QER was found (qer != nil)")
	}
	c.Check("R3", "callsite-ext-once", fn.Pos(), len(stores["Exts"]) == 1, fmt.Sprintf("%d assignments of msg.Exts (want 1)", len(stores["Exts"])))
	nPSC := 0
	core.Instrs(fn, func(in ssa.Instruction) {
		a, ok := in.(*ssa.Alloc)
		if !ok || !types.Identical(a.Type().(*types.Pointer).Elem(), pscT) {
			return
		}
		nPSC++
		if refs := a.Referrers(); refs != nil {
			for _, r := range *refs {
				fa, ok := r.(*ssa.FieldAddr)
				if !ok {
					continue
				}
				for _, u := range *fa.Referrers() {
					st, ok := u.(*ssa.Store)
					if !ok {
						continue
					}
					switch core.FieldOfAddr(fa).Name() {
					case "QoSFlowID":
						b, f, ok := core.LoadedField(st.Val)
						c.Check("R3", "callsite-qfi", st.Pos(), ok && f.Name() == "QFI" && b == ssa.Value(qer), "QoSFlowID = qer.QFI (uint8, all bits)")
					case "PDUType":
						n, ok := core.ConstInt(st.Val)
						c.Check("R3", "callsite-pdutype", st.Pos(), ok && n == 0, "PDU type 0 (DL PDU SESSION INFORMATION)")
					}
				}
			}
		}
	})
	c.Check("R3", "callsite-one-container", fn.Pos(), nPSC == 1, fmt.Sprintf("%d PDUSessionContainer values built (want 1)", nPSC))
	// buffer = make([]byte, msg.Len()) and Encode(buffer); WriteTo(buffer, addr)
	lenF, encF := p.Method(pkgGtpv1, "Message", "Len"), p.Method(pkgGtpv1, "Message", "Encode")
	var lenCall, encCall, wr ssa.CallInstruction
	for _, cl := range core.Calls(fn, lenF) {
		lenCall = cl
	}
	for _, cl := range core.Calls(fn, encF) {
		encCall = cl
	}
	for _, cl := range core.Calls(fn, p.Method(pkgFwd, "Gtp5gLink", "WriteTo")) {
		wr = cl
	}
	if lenCall == nil || encCall == nil || wr == nil {
		c.Undecided("R3", "callsite-buffer", fn.Pos(), "WritePacket does not call Message.Len, Message.Encode and Gtp5gLink.WriteTo")
		return flags, fn.Blocks[0].Instrs[0]
	}
	buf := core.CallArgs(encCall)[0]
	ms, ok := buf.(*ssa.MakeSlice)
	c.Check("R3", "callsite-buffer", encCall.Pos(), ok && ms.Len == lenCall.Value() && core.InstrDominates(lenCall, encCall),
		"Encode writes into make([]byte, msg.Len()) — a fresh zeroed buffer of exactly Len() octets")
	wargs := core.CallArgs(wr)
	c.Check("R3", "callsite-written", wr.Pos(), len(wargs) == 2 && wargs[0] == buf && core.InstrDominates(encCall, wr),
		"the encoded buffer (whole) is what is written to the socket, after Encode")
	linkPassThrough(c, "R3")
	// destination addr: &net.UDPAddr{IP: hc.PeerAddr, Port: int(hc.Port)}
	if len(wargs) == 2 {
		okIP, okPort := false, false
		if mi, ok := wargs[1].(*ssa.MakeInterface); ok {
			if al, ok := mi.X.(*ssa.Alloc); ok {
				for _, r := range *al.Referrers() {
					fa, ok := r.(*ssa.FieldAddr)
					if !ok {
						continue
					}
					for _, u := range *fa.Referrers() {
						if st, ok := u.(*ssa.Store); ok {
							v := st.Val
							if cv, ok := v.(*ssa.Convert); ok {
								v = cv.X
							}
							if cv, ok := v.(*ssa.ChangeType); ok {
								v = cv.X
							}
							switch core.FieldOfAddr(fa).Name() {
							case "IP":
								okIP = isHC(v, "PeerAddr")
							case "Port":
								okPort = isHC(v, "Port")
							}
						}
					}
				}
			}
		}
		c.Check("R3", "callsite-peer", wr.Pos(), okIP && okPort, "destination = (far.Param.Creation.PeerAddr, far.Param.Creation.Port)")
	}
	_ = token.NoPos
	return flags, fn.Blocks[0].Instrs[0]
}

// linkPassThrough: Gtp5gLink.WriteTo hands exactly the bytes and the address it was given to the socket
// (it is the last hop of every re-injected packet; a re-sliced or substituted buffer changes the datagram
// although the encoder was right).
func linkPassThrough(c *core.Ctx, rule string) {
	fn := fnOf(c, rule, pkgFwd, "Gtp5gLink", "WriteTo")
	if fn == nil {
		return
	}
	n := 0
	core.Instrs(fn, func(in ssa.Instruction) {
		ci, ok := in.(ssa.CallInstruction)
		if !ok {
			return
		}
		f := core.Callee(ci)
		if f == nil || f.Name() != "WriteTo" {
			return
		}
		n++
		args := core.CallArgs(ci)
		c.Check(rule, "link-writes-what-it-got", ci.Pos(), len(args) == 2 && args[0] == ssa.Value(core.Param(fn, 0)) && args[1] == ssa.Value(core.Param(fn, 1)),
			"the socket write of Gtp5gLink.WriteTo is given the caller's buffer and address unchanged")
		all, _ := dominatesReturns(in)
		c.Check(rule, "link-always-writes", ci.Pos(), all, "every call of Gtp5gLink.WriteTo reaches the socket write")
	})
	c.Check(rule, "link-write-once", fn.Pos(), n == 1, fmt.Sprintf("%d socket writes in Gtp5gLink.WriteTo (want 1)", n))
}

// qerScanTotal: "when a QoS flow applies" — applyAction picks the first QER of the PDR that carries a QFI.  The scan
// over the PDR's QER ids leaves its loop only when the list is exhausted or a QER with QFI != 0 was found: a QER that
// cannot be read (or carries no QFI) is skipped, not the end of the search — otherwise the flow's packets go out
// without their PDU Session Container although a later QER of the list names the flow.
func qerScanTotal(c *core.Ctx, rule string) {
	fn := fnOf(c, rule, pkgFwd, "Gtp5g", "applyAction")
	if fn == nil {
		return
	}
	n := 0
	core.Instrs(fn, func(in ssa.Instruction) {
		cl, ok := in.(*ssa.Call)
		if !ok || core.Callee(cl) == nil || core.Callee(cl).Name() != "GetQEROID" {
			return
		}
		if !inAnyLoop(cl) {
			return
		}
		n++
		hdr := loopHeaderOf(cl)
		bad := ""
		var badPos token.Pos
		for _, b := range fn.Blocks {
			if !inNaturalLoop(b, hdr) || b == hdr {
				continue
			}
			for _, s := range b.Succs {
				if inNaturalLoop(s, hdr) {
					continue
				}
				found := false
				facts := append(core.FactsAt(b), core.FactsAt(s)...)
				if ifi, ok := b.Instrs[len(b.Instrs)-1].(*ssa.If); ok && len(b.Succs) == 2 && b.Succs[0] != b.Succs[1] {
					facts = append(facts, core.ExpandFact(ifi.Cond, b.Succs[0] == s)...)
				}
				for _, f := range facts {
					cmp, ok := f.V.(*ssa.BinOp)
					if !ok {
						continue
					}
					for _, side := range [][2]ssa.Value{{cmp.X, cmp.Y}, {cmp.Y, cmp.X}} {
						_, path := core.FieldPath(side[0])
						k, isK := core.ConstInt(side[1])
						if len(path) > 0 && path[len(path)-1] == "QFI" && isK && k == 0 {
							if (cmp.Op == token.NEQ && f.True) || (cmp.Op == token.EQL && !f.True) || (cmp.Op == token.GTR && f.True) {
								found = true
							}
						}
					}
				}
				if !found && bad == "" {
					bad = "the scan of the PDR's QERs is left on a path where no QER with a QFI was found"
					badPos = b.Instrs[len(b.Instrs)-1].Pos()
					if !badPos.IsValid() {
						badPos = cl.Pos()
					}
				}
			}
		}
		pos := cl.Pos()
		if bad != "" {
			pos = badPos
		}
		c.Check(rule, fmt.Sprintf("qer-scan-total#%d", n), pos, bad == "", "the search for the PDR's QoS flow ends only when the QER list is exhausted or a QER carrying a QFI is found"+map[bool]string{true: "", false: " — " + bad}[bad == ""])
	})
	c.Floor(rule, n, 1, "QER look-ups inside the scan loop of applyAction")
}
