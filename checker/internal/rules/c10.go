package rules

import (
	"fmt"
	"go/constant"
	"go/token"
	"go/types"
	"os"
	"sort"
	"strings"

	"golang.org/x/tools/go/ssa"

	"upfcheck/internal/core"
)

func init() { Registry["C10"] = C10 }

// structAssigns collects, for a local struct, the value assigned to every (nested) field path,
// following whole-struct copies from composite-literal temporaries.
func structAssigns(root ssa.Value, prefix string, out map[string][]ssa.Value, depth int) {
	if depth > 6 {
		return
	}
	refs := root.Referrers()
	if refs == nil {
		return
	}
	for _, r := range *refs {
		switch x := r.(type) {
		case *ssa.Store:
			if x.Addr != root {
				continue
			}
			if ld, ok := x.Val.(*ssa.UnOp); ok && ld.Op == token.MUL {
				if al, ok := ld.X.(*ssa.Alloc); ok {
					structAssigns(al, prefix, out, depth+1)
					continue
				}
			}
			out[prefix] = append(out[prefix], x.Val)
		case *ssa.FieldAddr:
			if x.X != root {
				continue
			}
			name := core.FieldOfAddr(x).Name()
			if prefix != "" {
				name = prefix + "." + name
			}
			structAssigns(x, name, out, depth+1)
		}
	}
}

// frozen name map: destination path in report.USAReport -> source path in gtp5gnl.USAReport
var usarFieldMap = map[string]string{
	"URRID": "URRID", "QueryUrrRef": "QueryUrrRef", "StartTime": "StartTime", "EndTime": "EndTime",
	"VolumMeasure.TotalVolume": "VolMeasurement.TotalVolume", "VolumMeasure.UplinkVolume": "VolMeasurement.UplinkVolume",
	"VolumMeasure.DownlinkVolume": "VolMeasurement.DownlinkVolume", "VolumMeasure.TotalPktNum": "VolMeasurement.TotalPktNum",
	"VolumMeasure.UplinkPktNum": "VolMeasurement.UplinkPktNum", "VolumMeasure.DownlinkPktNum": "VolMeasurement.DownlinkPktNum",
	"USARTrigger.Flags": "USARTrigger",
}

func C10(c *core.Ctx) {
	c.Explain = "Field-by-field preservation is decided as agreement of tables extracted from the code, valid for every counter value and batch: (R1) each of the sites that turn a " +
		"gtp5gnl.USAReport into a report.USAReport initialises URRID, QueryUrrRef, StartTime, EndTime and all six volume/packet counters from the same-named field of the same " +
		"source value (name agreement, sibling agreement between all sites) and groups by that value's SEID; (R2) the three IE builders (report request / modification response / " +
		"deletion response) are structurally equal and pass URRID, URSEQN, trigger, start/end time and the measurement IEs of the method/information profile; VolumeMeasure.IE " +
		"passes its fields in the order of ie.NewVolumeMeasurement's parameters; (R3) the per-URR profile is filled flag by flag from the accessor of the same name, and the " +
		"emission sites pass the profile of the URR whose id is in the report; (R4) the report request is addressed with the RemoteID of the session looked up by the report's SEID " +
		"and sent to that session's node; (R5) in the emission loops an unknown URR only skips that report (no exit from the loop), and every notification towards the event loop " +
		"carries its own freshly built report list."
	c.Undec = []string{"netlink report decoding inside go-gtp5gnl", "what the kernel puts into the trigger field on update/remove", "go-pfcp IE encoding"}
	c.Assume = []string{"go-gtp5gnl.USAReport field meanings", "ie.NewVolumeMeasurement parameter names (flags,tvol,uvol,dvol,tpkt,upkt,dpkt)"}
	p := c.P
	srcT := p.Named(core.PkgGtp5gnl, "USAReport")
	dstT := p.Named(pkgReport, "USAReport")
	if srcT == nil || dstT == nil {
		c.Anchor("R1", "gtp5gnl.USAReport / report.USAReport")
		return
	}

	// R1 conversion sites
	type site struct {
		fn     *ssa.Function
		table  map[string]string
		hasTrg bool
	}
	var sites []site
	for _, fn := range p.OwnFuncs() {
		// candidate destinations in three tiers: the local named usar; any other non-literal local of the
		// destination type; the literal itself (the converted value built in one expression, e.g. by an expanded
		// helper). A later tier is consulted only when the earlier ones yielded no conversion in this function.
		var tiers [3][]*ssa.Alloc
		core.Instrs(fn, func(in ssa.Instruction) {
			al, ok := in.(*ssa.Alloc)
			if !ok || !types.Identical(al.Type().(*types.Pointer).Elem(), dstT) {
				return
			}
			switch {
			case !al.Heap && al.Comment == "usar":
				tiers[0] = append(tiers[0], al)
			case al.Comment == "complit":
				tiers[2] = append(tiers[2], al)
			case al.Comment != "r":
				tiers[1] = append(tiers[1], al)
			}
		})
		if len(tiers[0]) > 0 {
			tiers[1] = nil
		}
		sitesBefore := len(sites)
		for _, dst := range tiers {
			if len(sites) > sitesBefore {
				break
			}
			for _, d := range dst {
				as := map[string][]ssa.Value{}
				structAssigns(d, "", as, 0)
				tbl := map[string]string{}
				fromSrc := false
				hasTrg := false
				var srcRoot ssa.Value
				// a field filled by an own helper that returns a struct literal built from its parameter
				// (e.g. usar.VolumMeasure = newVolumeMeasure(r.VolMeasurement)): expand it field by field,
				// composing the helper's parameter paths with the argument's path
				type srcRef struct {
					root  ssa.Value
					names []string
				}
				composed := map[ssa.Value]srcRef{}
				for path, vals := range as {
					if len(vals) != 1 {
						continue
					}
					cl, ok := vals[0].(*ssa.Call)
					if !ok {
						continue
					}
					sf := core.StaticFn(cl)
					if sf == nil || sf.Blocks == nil || !p.IsOwnFn(sf) || cl.Call.IsInvoke() {
						continue
					}
					var lit *ssa.Alloc
					nRet := 0
					core.Instrs(sf, func(in ssa.Instruction) {
						if r, isR := in.(*ssa.Return); isR && len(r.Results) == 1 {
							nRet++
							if ld, isLd := r.Results[0].(*ssa.UnOp); isLd && ld.Op == token.MUL {
								lit, _ = ld.X.(*ssa.Alloc)
							}
						}
					})
					if nRet != 1 || lit == nil {
						continue
					}
					sub := map[string][]ssa.Value{}
					structAssigns(lit, "", sub, 0)
					okAll := len(sub) > 0
					exp := map[string]ssa.Value{}
					for sp, svs := range sub {
						if len(svs) != 1 {
							okAll = false
							break
						}
						r2, n2 := core.FieldPath(svs[0])
						if al, isAl := r2.(*ssa.Alloc); isAl { // a struct parameter spilled to a local
							if sv, ok := aggregateSingleStore(al); ok {
								r2 = sv
							}
						}
						par, isPar := r2.(*ssa.Parameter)
						if !isPar {
							okAll = false
							break
						}
						idx := -1
						for i, pp := range sf.Params {
							if pp == par {
								idx = i
							}
						}
						if idx < 0 || idx >= len(cl.Call.Args) {
							okAll = false
							break
						}
						ra, na := core.FieldPath(cl.Call.Args[idx])
						composed[svs[0]] = srcRef{ra, append(append([]string{}, na...), n2...)}
						exp[path+"."+sp] = svs[0]
					}
					if okAll {
						delete(as, path)
						for k, v := range exp {
							as[k] = []ssa.Value{v}
						}
					}
				}
				for path, vals := range as {
					for _, v := range vals {
						root, names := fieldPathThroughCopies(v)
						if cr, ok := composed[v]; ok {
							root, names = cr.root, cr.names
						}
						if root != nil && len(names) > 0 && isPtrTo(root.Type(), srcT) {
							fromSrc = true
							if srcRoot == nil {
								srcRoot = root
							}
							if root != srcRoot {
								tbl[path] = "<another source value>." + strings.Join(names, ".")
							} else {
								tbl[path] = strings.Join(names, ".")
							}
						} else {
							tbl[path] = "<" + v.Name() + ">"
						}
					}
				}
				// trigger set through SetReportingTrigger(r.USARTrigger)
				core.Instrs(fn, func(in ssa.Instruction) {
					if ci, ok := in.(ssa.CallInstruction); ok {
						if f := core.Callee(ci); f != nil && f.Name() == "SetReportingTrigger" {
							if fa, ok := core.CallRecv(ci).(*ssa.FieldAddr); ok && fa.X == ssa.Value(d) {
								root, names := core.FieldPath(core.CallArgs(ci)[0])
								if root == srcRoot && len(names) == 1 {
									tbl["USARTrigger.Flags"] = names[0]
									hasTrg = true
								}
							}
						}
					}
				})
				if _, ok := tbl["USARTrigger.Flags"]; ok {
					hasTrg = true
				}
				if os.Getenv("UPF_DEBUG") != "" {
					fmt.Fprintln(os.Stderr, "C10 conv candidate", core.FnName(fn), d.Name(), d.Comment, fromSrc, tbl)
				}
				if !fromSrc {
					continue
				}
				sites = append(sites, site{fn, tbl, hasTrg})
				name := core.FnName(fn)
				if os.Getenv("UPF_DEBUG") != "" {
					fmt.Fprintln(os.Stderr, "C10 conv site", name, d.Name(), d.Comment, len(tbl))
				}
				for dpath, spath := range usarFieldMap {
					got, ok := tbl[dpath]
					if dpath == "USARTrigger.Flags" {
						if ok {
							c.Check("R1", "conv:"+name+":"+dpath, d.Pos(), got == spath, fmt.Sprintf("%s <- %s (must come from the source report's %s)", dpath, got, spath))
						}
						continue
					}
					c.Check("R1", "conv:"+name+":"+dpath, d.Pos(), ok && got == spath, fmt.Sprintf("%s <- %s (must come from the same source report's %s)", dpath, got, spath))
				}
				// every source report of the batch is converted AND kept: the loop over the source reports has no
				// path that skips the append / map entry of the converted value (errors leave by return only
				// before the loop; a value-dependent `continue` would drop reports, e.g. all-zero counters)
				var keep ssa.Instruction
				for _, r := range *d.Referrers() {
					ld, ok := r.(*ssa.UnOp)
					if !ok || ld.Op != token.MUL {
						continue
					}
					for _, u := range *ld.Referrers() {
						switch y := u.(type) {
						case *ssa.Store: // element of the variadic slice of append(list, usar)
							if ia, ok := y.Addr.(*ssa.IndexAddr); ok {
								if al, ok := ia.X.(*ssa.Alloc); ok {
									for _, r3 := range *al.Referrers() {
										if sl, ok := r3.(*ssa.Slice); ok {
											for _, r4 := range *sl.Referrers() {
												if cl, ok := r4.(*ssa.Call); ok {
													if bi, ok := cl.Call.Value.(*ssa.Builtin); ok && bi.Name() == "append" {
														keep = cl
													}
												}
											}
										}
									}
								}
							}
						case *ssa.MapUpdate:
							keep = y
						}
					}
				}
				hdr := loopHeaderOf(d)
				if keep != nil && hdr != d.Block() || (keep != nil && inAnyLoop(d)) {
					skips, where := iterationSkips(loopHeaderOf(keep), keep.Block())
					pos := keep.Pos()
					if where != nil {
						pos = where.Instrs[len(where.Instrs)-1].Pos()
					}
					c.Check("R1", "conv-total:"+name, pos, !skips, "every report of the batch is converted and kept (no iteration of the conversion loop skips it)")
				} else if keep == nil {
					// a conversion helper (returns the converted report): the list is kept by its callers - judge every
					// call site's loop instead, and count the call sites as conversion sites
					returnsIt := false
					core.Instrs(fn, func(in ssa.Instruction) {
						if r, isR := in.(*ssa.Return); isR && len(r.Results) >= 1 {
							if ld, isLd := r.Results[0].(*ssa.UnOp); isLd && ld.X == ssa.Value(d) {
								returnsIt = true
							}
						}
					})
					nCallers := 0
					if returnsIt {
						for _, caller := range p.OwnFuncs() {
							for _, ci := range core.Calls(caller, fn.Object().(*types.Func)) {
								nCallers++
								var keep2 ssa.Instruction
								if v := ci.Value(); v != nil {
									for _, u := range *v.Referrers() {
										switch y := u.(type) {
										case *ssa.Store:
											if ia, ok := y.Addr.(*ssa.IndexAddr); ok {
												if al, ok := ia.X.(*ssa.Alloc); ok {
													for _, r3 := range *al.Referrers() {
														if sl, ok := r3.(*ssa.Slice); ok {
															for _, r4 := range *sl.Referrers() {
																if cl, ok := r4.(*ssa.Call); ok {
																	if bi, ok := cl.Call.Value.(*ssa.Builtin); ok && bi.Name() == "append" {
																		keep2 = cl
																	}
																}
															}
														}
													}
												}
											} else if al, ok := y.Addr.(*ssa.Alloc); ok { // usar := convert(r); ... append(list, usar)
												for _, r3 := range *al.Referrers() {
													if ld, ok := r3.(*ssa.UnOp); ok {
														for _, r4 := range *ld.Referrers() {
															if st2, ok := r4.(*ssa.Store); ok {
																if ia, ok := st2.Addr.(*ssa.IndexAddr); ok {
																	if al2, ok := ia.X.(*ssa.Alloc); ok {
																		for _, r5 := range *al2.Referrers() {
																			if sl, ok := r5.(*ssa.Slice); ok {
																				for _, r6 := range *sl.Referrers() {
																					if cl, ok := r6.(*ssa.Call); ok {
																						if bi, ok := cl.Call.Value.(*ssa.Builtin); ok && bi.Name() == "append" {
																							keep2 = cl
																						}
																					}
																				}
																			}
																		}
																	}
																}
															}
															if mu, ok := r4.(*ssa.MapUpdate); ok {
																keep2 = mu
															}
														}
													}
												}
											}
										case *ssa.MapUpdate:
											keep2 = y
										}
									}
								}
								cname := core.FnName(caller)
								if keep2 == nil {
									c.Check("R1", "conv-total:"+cname, ci.Pos(), false, "the report converted by "+name+" is not appended to a result list")
									continue
								}
								skips, where := iterationSkips(loopHeaderOf(keep2), keep2.Block())
								pos := keep2.Pos()
								if where != nil {
									pos = where.Instrs[len(where.Instrs)-1].Pos()
								}
								c.Check("R1", "conv-total:"+cname, pos, !skips, "every report of the batch is converted (by "+name+") and kept (no iteration of the conversion loop skips it)")
							}
						}
					}
					if nCallers == 0 {
						c.Check("R1", "conv-total:"+name, d.Pos(), false, "the converted report is not appended to a result list")
					}
					// the helper was counted as one site already; every further call site is one more
					for i := 1; i < nCallers; i++ {
						sites = append(sites, site{fn, tbl, hasTrg})
					}
				}
				// nothing else is filled from a wrong place
				for dpath, got := range tbl {
					if _, known := usarFieldMap[dpath]; !known {
						c.Observe("%s: field %s <- %s is outside the transcribed conversion table", name, dpath, got)
					}
				}
			}
		}
	}
	c.Floor("R1", len(sites), 5, "USAReport conversion sites")
	// grouping by the source report's SEID (multi-session sites)
	for _, s := range sites {
		core.Instrs(s.fn, func(in ssa.Instruction) {
			mu, ok := in.(*ssa.MapUpdate)
			if !ok {
				return
			}
			if mt, ok := mu.Map.Type().Underlying().(*types.Map); !ok || !types.Identical(mt.Key(), types.Typ[types.Uint64]) {
				return
			}
			root, names := core.FieldPath(mu.Key)
			c.Check("R1", "group-by-seid:"+core.FnName(s.fn), mu.Pos(), root != nil && isPtrTo(root.Type(), srcT) && len(names) == 1 && names[0] == "SEID",
				"reports are grouped under the SEID of the very report being converted")
		})
	}

	// R2 IE builders
	var summaries []string
	for _, e := range emissionSites {
		m := p.Method(pkgReport, "USAReport", e.ies)
		fn := p.SSAFn(m)
		if fn == nil {
			c.Anchor("R2", "report.USAReport."+e.ies)
			continue
		}
		sum := ieBuilderSummary(fn)
		summaries = append(summaries, sum)
		want := "NewURRID(r.URRID);NewURSEQN(r.URSEQN);IE(&r.USARTrigger);" +
			"[!MACAR,!START,!STOPT]NewStartTime(r.StartTime);[!MACAR,!START,!STOPT]NewEndTime(r.EndTime);" +
			"[method.VOLUM]SetFlags(&r.VolumMeasure,info.MNOP);[method.VOLUM]IE(&r.VolumMeasure);[method.DURAT]IE(&r.DuratMeasure)"
		c.Check("R2", "ie-builder:"+e.ies, fn.Pos(), sum == want, "builder emits: "+sum)
	}
	if len(summaries) == 3 {
		c.Check("R2", "ie-builders-agree", token.NoPos, summaries[0] == summaries[1] && summaries[1] == summaries[2], "the three usage-report IE builders are structurally equal")
	}
	// VolumeMeasure.IE parameter order
	if fn := fnOf(c, "R2", pkgReport, "VolumeMeasure", "IE"); fn != nil {
		want := map[string]string{"flags": "Flags", "tvol": "TotalVolume", "uvol": "UplinkVolume", "dvol": "DownlinkVolume", "tpkt": "TotalPktNum", "upkt": "UplinkPktNum", "dpkt": "DownlinkPktNum"}
		n := 0
		for _, ci := range core.CallsMatching(fn, func(f *types.Func) bool { return core.IsPkgFunc(f, core.PkgIE, "NewVolumeMeasurement") }) {
			n++
			sig := core.Callee(ci).Type().(*types.Signature)
			args := ci.Common().Args
			for i := 0; i < sig.Params().Len() && i < len(args); i++ {
				pn := sig.Params().At(i).Name()
				wf, ok := want[pn]
				c.Check("R2", "volume-ie-arg:"+pn, ci.Pos(), ok && core.IsPath(args[i], core.Recv(fn), wf), fmt.Sprintf("parameter %s of NewVolumeMeasurement receives field %s", pn, wf))
			}
		}
		c.Floor("R2", n, 1, "NewVolumeMeasurement calls")
	}
	// "with the measurement IEs selected by the URR's measurement method and information": which counters the Volume
	// Measurement IE carries is decided by its flag octet, and SetFlags only ORs bits in — so nothing else may write
	// that octet (a conversion that copies the data plane's own flag word leaks packet counters nobody asked for)
	if flagsF := p.Field(pkgReport, "VolumeMeasure", "Flags"); flagsF == nil {
		c.Anchor("R2", "report.VolumeMeasure.Flags")
	} else {
		setFlags := p.SSAFn(p.Method(pkgReport, "VolumeMeasure", "SetFlags"))
		nW := 0
		for _, fn := range p.OwnFuncs() {
			k := 0
			for _, st := range storesToField(fn, flagsF) {
				nW++
				k++
				c.Check("R2", fmt.Sprintf("volume-flags-writer:%s#%d", core.FnName(fn), k), st.Pos(), fn == setFlags && setFlags != nil,
					"the flag octet of a Volume Measurement is written only by VolumeMeasure.SetFlags, from the URR's measurement information")
			}
		}
		c.Floor("R2", nW, 1, "writes of VolumeMeasure.Flags")
	}

	// R3 profile
	for _, m := range []string{"CreateURR", "UpdateURR"} {
		fn := fnOf(c, "R3", pkgPfcp, "Sess", m)
		if fn == nil {
			continue
		}
		n := 0
		core.Instrs(fn, func(in ssa.Instruction) {
			st, ok := in.(*ssa.Store)
			if !ok {
				return
			}
			fa, ok := st.Addr.(*ssa.FieldAddr)
			if !ok {
				return
			}
			f := core.FieldOfAddr(fa)
			if b, isB := f.Type().Underlying().(*types.Basic); !isB || b.Kind() != types.Bool || f.Pkg() == nil || f.Pkg().Path() != pkgReport {
				return
			}
			n++
			cl, ok := st.Val.(*ssa.Call)
			okName := ok && core.Callee(cl) != nil && core.Callee(cl).Name() == "Has"+f.Name()
			got := "?"
			if ok && core.Callee(cl) != nil {
				got = core.Callee(cl).Name()
			}
			c.Check("R3", fmt.Sprintf("profile:%s:%s", m, f.Name()), st.Pos(), okName, fmt.Sprintf("profile flag %s is taken from %s() (must be Has%s())", f.Name(), got, f.Name()))
			if m == "UpdateURR" && ok {
				// an Update URR changes the stored profile only from the child IE that carries the flag, and only
				// when that IE is present (the accessors of the grouped IE answer false for an absent child, which
				// would silently reset the profile and strip the measurement IEs from every later report)
				want := map[string]string{"MeasureMethod": "MeasurementMethod", "MeasureInformation": "MeasurementInformation"}
				owner := ""
				if pt, isP := fa.X.Type().(*types.Pointer); isP {
					if nn, isN := pt.Elem().(*types.Named); isN {
						owner = want[nn.Obj().Name()]
					}
				}
				recv := core.CallRecv(cl)
				present := false
				if k := p.Const(core.PkgIE, owner); k != nil && recv != nil {
					kv, _ := constant.Int64Val(constant.ToInt(k.Val()))
					for _, eq := range eqFacts(st.Block()) {
						if cv, isK := core.ConstInt(eq[1]); isK && cv == kv && core.IsPath(eq[0], recv, "Type") {
							present = true
						}
					}
				}
				c.Check("R3", fmt.Sprintf("profile-update-if-present:%s", f.Name()), st.Pos(), present,
					"in Update URR the stored flag "+f.Name()+" changes only under `child.Type == ie."+owner+"`, from that child")
			}
		})
		// the profile decoded by a helper and stored as a whole (urrInfo.MeasureInformation = decode(...)): the helper's
		// flag stores are judged like direct ones, and in Update URR the whole-value store needs the same presence test
		core.Instrs(fn, func(in ssa.Instruction) {
			st, ok := in.(*ssa.Store)
			if !ok {
				return
			}
			fa, ok := st.Addr.(*ssa.FieldAddr)
			if !ok {
				return
			}
			f := core.FieldOfAddr(fa)
			nn, isN := f.Type().(*types.Named)
			if !isN || nn.Obj().Pkg() == nil || nn.Obj().Pkg().Path() != pkgReport || (nn.Obj().Name() != "MeasureMethod" && nn.Obj().Name() != "MeasureInformation") {
				return
			}
			val := st.Val
			if ld, isLd := val.(*ssa.UnOp); isLd && ld.Op == token.MUL {
				if al, isAl := ld.X.(*ssa.Alloc); isAl {
					if v, o := aggregateSingleStore(al); o {
						val = v
					} else {
						return // a literal filled in place: its field stores were seen above
					}
				}
			}
			cl, isCall := val.(*ssa.Call)
			if !isCall {
				return
			}
			h := core.StaticFn(cl)
			if h == nil || !p.IsOwnFn(h) || h.Blocks == nil {
				return
			}
			core.Instrs(h, func(in2 ssa.Instruction) {
				st2, ok := in2.(*ssa.Store)
				if !ok {
					return
				}
				fa2, ok := st2.Addr.(*ssa.FieldAddr)
				if !ok {
					return
				}
				f2 := core.FieldOfAddr(fa2)
				if b, isB := f2.Type().Underlying().(*types.Basic); !isB || b.Kind() != types.Bool || f2.Pkg() == nil || f2.Pkg().Path() != pkgReport {
					return
				}
				n++
				c2, ok := st2.Val.(*ssa.Call)
				okName := ok && core.Callee(c2) != nil && core.Callee(c2).Name() == "Has"+f2.Name()
				c.Check("R3", fmt.Sprintf("profile:%s:%s", m, f2.Name()), st2.Pos(), okName, fmt.Sprintf("profile flag %s is taken from Has%s() (in helper %s)", f2.Name(), f2.Name(), core.FnName(h)))
			})
			if m == "UpdateURR" {
				owner := map[string]string{"MeasureMethod": "MeasurementMethod", "MeasureInformation": "MeasurementInformation"}[nn.Obj().Name()]
				present := false
				if k := p.Const(core.PkgIE, owner); k != nil {
					kv, _ := constant.Int64Val(constant.ToInt(k.Val()))
					for _, eq := range eqFacts(st.Block()) {
						cv, isK := core.ConstInt(eq[1])
						if !isK || cv != kv {
							continue
						}
						root, names := core.FieldPath(eq[0])
						if len(names) != 1 || names[0] != "Type" {
							continue
						}
						for _, a := range cl.Call.Args {
							if core.Unwrap(a) == core.Unwrap(root) {
								present = true
							}
						}
					}
				}
				c.Check("R3", "profile-update-if-present:"+nn.Obj().Name(), st.Pos(), present,
					"in Update URR the stored "+nn.Obj().Name()+" is replaced only under `child.Type == ie."+owner+"`, decoded from that child: an Update URR without the IE must leave the profile as it is")
			}
		})
		c.Floor("R3", n, 8, "profile flags set in Sess."+m)
	}
	urrids := p.Field(pkgPfcp, "Sess", "URRIDs")
	for _, e := range emissionSites {
		fn, _ := emissionFn(p, e.fn, e.ies)
		if fn == nil {
			continue
		}
		core.Instrs(fn, func(in ssa.Instruction) {
			cl, ok := in.(*ssa.Call)
			if !ok || core.Callee(cl) == nil || core.Callee(cl).Name() != e.ies {
				return
			}
			args := core.CallArgs(cl)
			okP := len(args) == 2
			if okP {
				for i, fname := range []string{"MeasureMethod", "MeasureInformation"} {
					root, names := core.FieldPath(args[i])
					ex, isEx := root.(*ssa.Extract)
					good := len(names) == 1 && names[0] == fname && isEx && ex.Index == 0
					if good {
						lk, isLk := ex.Tuple.(*ssa.Lookup)
						good = isLk
						if isLk {
							_, f, o := core.LoadedField(lk.X)
							_, kn := core.FieldPath(lk.Index)
							good = o && f == urrids && len(kn) == 1 && kn[0] == "URRID"
						}
					}
					okP = okP && good
				}
			}
			c.Check("R3", "profile-of-reported-urr:"+e.fn, cl.Pos(), okP, "the measurement IEs are selected by the profile of the URR whose id is in the report")
		})
	}

	// R4 addressing
	for _, h := range []string{"serveUSAReport", "serveDLDReport"} {
		fn := fnOf(c, "R4", pkgPfcp, "PfcpServer", h)
		if fn == nil {
			continue
		}
		for _, ci := range core.CallsMatching(fn, func(f *types.Func) bool { return core.IsPkgFunc(f, core.PkgMessage, "NewSessionReportRequest") }) {
			seid := argByName(ci, "seid")
			root, names := core.FieldPath(seid)
			good := len(names) == 1 && names[0] == "RemoteID"
			if ex, ok := root.(*ssa.Extract); good && ok {
				cl, ok := ex.Tuple.(*ssa.Call)
				good = ok && core.Callee(cl) == p.Method(pkgPfcp, "LocalNode", "Sess") && isInputOfType(fn, core.CallArgs(cl)[0], isUint64T)
			} else {
				good = false
			}
			c.Check("R4", "report-seid:"+h, ci.Pos(), good, "the Session Report Request is addressed with the RemoteID of the session looked up by the report's own SEID")
		}
		for _, ci := range core.Calls(fn, p.Method(pkgPfcp, "PfcpServer", "sendReqTo")) {
			c.Check("R4", "report-dest:"+h, ci.Pos(), isInputOfType(fn, core.CallArgs(ci)[1], isNetAddrT), "the request goes to the address handed in by ServeReport")
		}
	}
	reportDestination(c, "R4")
	nodeIDResolved(c, "R4")
	if fn := fnOf(c, "R4", pkgPfcp, "PfcpServer", "ServeReport"); fn != nil {
		for _, name := range []string{"serveUSAReport", "serveDLDReport"} {
			for _, ci := range core.Calls(fn, p.Method(pkgPfcp, "PfcpServer", name)) {
				_, kn := core.FieldPath(callInputOfType(ci, isUint64T))
				c.Check("R4", "report-seid-passed:"+name, ci.Pos(), len(kn) == 1 && kn[0] == "SEID", "ServeReport hands the report's own SEID on")
			}
		}
	}

	// R2: the trigger octets the SMF receives are the three flag octets (C19 R3 encoders)
	shareFrom(c, "C19", "R2", func(o *core.Obligation) bool {
		return o.Rule == "R3" && strings.Contains(o.Key, "/R3/encode") && strings.Contains(o.Key, "UsageReportTrigger")
	}, 3, "Usage Report Trigger encoder obligations")
	// R5: a URR known to the session stays known until its final report was emitted (C11 R3), and however many
	// URRs a tick covers they are queried in batches the data plane can answer (C15 R3)
	shareFrom(c, "C11", "R5", func(o *core.Obligation) bool {
		return o.Rule == "R3" && (strings.Contains(o.Key, "/R3/record-dropped") || strings.Contains(o.Key, "/R3/record-writer") || strings.Contains(o.Key, "/R3/record-fresh"))
	}, 2, "URR record lifetime obligations")
	shareFrom(c, "C15", "R5", func(o *core.Obligation) bool { return o.Rule == "R3" }, 5, "batching obligations")
	// R6 cause mapping (shared with C19 R4): the cause a report carries is the one the data plane raised
	renameRule(c, "R4", "R6", func() { checkCauseMapping(c) })

	// R5: each report of a batch is converted and emitted from its own data only
	independentIterations(c, "R5", append(handlerFns(p), p.SSAFn(p.Method(pkgBuff, "Server", "ServeMsg")), p.SSAFn(p.Method(pkgPerio, "Server", "Serve"))))
	// R5 batch isolation
	for _, e := range emissionSites {
		fn, _ := emissionFn(p, e.fn, e.ies)
		if fn == nil {
			continue
		}
		var ies ssa.Instruction
		core.Instrs(fn, func(in ssa.Instruction) {
			if cl, ok := in.(*ssa.Call); ok && core.Callee(cl) != nil && core.Callee(cl).Name() == e.ies {
				ies = cl
			}
		})
		if ies == nil {
			continue
		}
		hdr := loopHeaderOf(ies)
		bad := false
		var where token.Pos
		for _, b := range fn.Blocks {
			if b == hdr || !inNaturalLoop(b, hdr) {
				continue
			}
			// b is inside the loop: every successor stays in the loop or is the header
			for _, s := range b.Succs {
				if !inNaturalLoop(s, hdr) {
					bad, where = true, b.Instrs[len(b.Instrs)-1].Pos()
				}
			}
			if _, isRet := b.Instrs[len(b.Instrs)-1].(*ssa.Return); isRet {
				bad, where = true, b.Instrs[len(b.Instrs)-1].Pos()
			}
		}
		c.Check("R5", "batch-isolation:"+e.fn, where, !bad, "nothing inside the emission loop leaves it: an unknown URR skips one report and the rest of the batch is still emitted")
	}
	freshReportLists(c, "R5")
	losslessPost(c, "R5", p.SSAFn(p.Method(pkgPfcp, "PfcpServer", "NotifySessReport")), p.Field(pkgPfcp, "PfcpServer", "srCh"), "a report notification from the data plane")
}

func isPtrTo(t types.Type, n *types.Named) bool {
	pt, ok := t.(*types.Pointer)
	return ok && types.Identical(pt.Elem(), n)
}

// freshPerIteration: the slice value originates (through append/phi chains) from nil/new storage
// created inside the innermost loop that contains the use, or from a literal at the use.
func freshPerIteration(v ssa.Value, use ssa.Instruction) (bool, string) {
	if v == nil {
		return false, "report list not found"
	}
	useHdr := loopHeaderOf(use)
	seen := map[ssa.Value]bool{}
	ok := true
	why := "fresh"
	var walk func(v ssa.Value, d int)
	walk = func(v ssa.Value, d int) {
		if v == nil || seen[v] || d > 30 {
			return
		}
		seen[v] = true
		switch x := v.(type) {
		case *ssa.Const:
			// nil start: must be (re)started inside the loop of the use — checked at the phi
		case *ssa.Phi:
			// a phi that merges the start value: its block must be inside the use's loop (or be that loop's inner loop header)
			if useHdr != use.Block() || true {
				if !useHdr.Dominates(x.Block()) || x.Block() == useHdr {
					ok, why = false, "the list is carried across iterations of the enclosing loop (shared backing array)"
				}
			}
			for _, e := range x.Edges {
				walk(e, d+1)
			}
		case *ssa.Call:
			if bi, isB := x.Call.Value.(*ssa.Builtin); isB && bi.Name() == "append" {
				walk(x.Call.Args[0], d+1)
				return
			}
			ok, why = false, "list comes from a call"
		case *ssa.Slice:
			// literal: slice of a fresh array allocated in the use's block
			if al, isA := x.X.(*ssa.Alloc); isA {
				if !(al.Block() == use.Block() || useHdr.Dominates(al.Block())) {
					ok, why = false, "backing array allocated outside the loop"
				}
				return
			}
			// re-slicing an existing list (x[:0]) shares its backing array
			ok, why = false, "list is a re-slice of an existing list (shared backing array)"
		case *ssa.MakeSlice:
			if !(x.Block() == use.Block() || useHdr.Dominates(x.Block())) {
				ok, why = false, "made outside the loop"
			}
		default:
			ok, why = false, fmt.Sprintf("unrecognised origin %T", v)
		}
	}
	walk(v, 0)
	return ok, why
}

// ieBuilderSummary renders the sequence of IE constructor calls of an IE builder with their guards
// and argument paths, in source order.
func ieBuilderSummary(fn *ssa.Function) string {
	recvName := func(v ssa.Value) string {
		root, names := core.FieldPath(v)
		base := "?"
		if p, ok := root.(*ssa.Parameter); ok {
			base = p.Name()
		} else if al, ok := root.(*ssa.Alloc); ok {
			base = al.Comment
			if v, ok2 := core.SingleStore(al); ok2 {
				if p, ok3 := v.(*ssa.Parameter); ok3 {
					base = p.Name()
				}
			}
		}
		if len(names) == 0 {
			return base
		}
		return base + "." + strings.Join(names, ".")
	}
	addrName := func(v ssa.Value) string {
		// &r.Field
		var names []string
		for {
			fa, ok := v.(*ssa.FieldAddr)
			if !ok {
				break
			}
			names = append([]string{core.FieldOfAddr(fa).Name()}, names...)
			v = fa.X
		}
		base := "?"
		if al, ok := v.(*ssa.Alloc); ok {
			base = al.Comment
			if sv, ok2 := core.SingleStore(al); ok2 {
				if p, ok3 := sv.(*ssa.Parameter); ok3 {
					base = p.Name()
				}
			}
		}
		return "&" + base + "." + strings.Join(names, ".")
	}
	type item struct {
		pos token.Pos
		s   string
	}
	var items []item
	core.Instrs(fn, func(in ssa.Instruction) {
		cl, ok := in.(*ssa.Call)
		if !ok {
			return
		}
		f := core.Callee(cl)
		if f == nil {
			return
		}
		interesting := (f.Pkg() != nil && f.Pkg().Path() == core.PkgIE && strings.HasPrefix(f.Name(), "New")) || f.Name() == "IE" || f.Name() == "SetFlags"
		if !interesting {
			return
		}
		var guards []string
		facts := core.FactsAt(cl.Block())
		// a guard that is an own predicate (`if r.needsTimeIEs()`) stands for what its `return a && b` implies
		for _, ft := range append([]core.Fact{}, facts...) {
			if g, ok := ft.V.(*ssa.Call); ok && ft.True && !g.Call.IsInvoke() {
				if h := core.StaticFn(g); h != nil && h.Blocks != nil && core.FnPkg(h) != nil && strings.HasPrefix(core.FnPkg(h).Path(), core.ModPath) {
					if imp, ok := core.TrueImplies(h); ok && len(imp) > 1 {
						var rest []core.Fact
						for _, f2 := range facts {
							if f2.V != ft.V {
								rest = append(rest, f2)
							}
						}
						facts = append(rest, imp...)
					}
				}
			}
		}
		for _, ft := range facts {
			switch g := ft.V.(type) {
			case *ssa.Call:
				if gf := core.Callee(g); gf != nil {
					s := gf.Name()
					if !ft.True {
						s = "!" + s
					}
					guards = append(guards, s)
				}
			default:
				if _, names := core.FieldPath(ft.V); len(names) > 0 {
					s := recvName(ft.V)
					if !ft.True {
						s = "!" + s
					}
					guards = append(guards, s)
				}
			}
		}
		sort.Strings(guards)
		var args []string
		for _, a := range cl.Call.Args {
			if _, isFA := a.(*ssa.FieldAddr); isFA {
				args = append(args, addrName(a))
			} else if _, names := core.FieldPath(a); len(names) > 0 {
				args = append(args, recvName(a))
			} else {
				args = append(args, "?")
			}
		}
		g := ""
		if len(guards) > 0 {
			g = "[" + strings.Join(guards, ",") + "]"
		}
		items = append(items, item{cl.Pos(), g + f.Name() + "(" + strings.Join(args, ",") + ")"})
	})
	sort.Slice(items, func(i, j int) bool { return items[i].pos < items[j].pos })
	var out []string
	for _, it := range items {
		out = append(out, it.s)
	}
	return strings.Join(out, ";")
}

// destTerminals walks the computation of an address value backwards through phis, conversions,
// net.Resolve*Addr and fmt.Sprintf and lists what it is made of: "const", "field:<path>" or "other:<what>".
type destTerm struct {
	kind, path string
	root       ssa.Value
}

func destTerminals(v ssa.Value) []destTerm {
	seen := map[ssa.Value]bool{}
	env := map[*ssa.Parameter]ssa.Value{}
	var out []destTerm
	var walk func(v ssa.Value, d int)
	walk = func(v ssa.Value, d int) {
		if v == nil || seen[v] {
			return
		}
		seen[v] = true
		if d > 25 {
			out = append(out, destTerm{kind: "other", path: "depth"})
			return
		}
		switch x := v.(type) {
		case *ssa.Const:
			out = append(out, destTerm{kind: "const"})
		case *ssa.Phi:
			for _, e := range x.Edges {
				walk(e, d+1)
			}
		case *ssa.Extract:
			walk(x.Tuple, d+1)
		case *ssa.MakeInterface:
			walk(x.X, d+1)
		case *ssa.ChangeInterface:
			walk(x.X, d+1)
		case *ssa.ChangeType:
			walk(x.X, d+1)
		case *ssa.Convert:
			walk(x.X, d+1)
		case *ssa.TypeAssert:
			walk(x.X, d+1)
		case *ssa.Call:
			f := core.Callee(x)
			switch {
			case f != nil && f.Pkg() != nil && f.Pkg().Path() == "net" && strings.HasPrefix(f.Name(), "Resolve"):
				for _, a := range x.Call.Args {
					walk(a, d+1)
				}
			case core.IsPkgFunc(f, "fmt", "Sprintf"), core.IsPkgFunc(f, "fmt", "Sprint"):
				for i, a := range x.Call.Args {
					if i == len(x.Call.Args)-1 {
						for _, e := range variadicValues(a) {
							walk(e, d+1)
						}
					} else {
						walk(a, d+1)
					}
				}
			case f != nil && f.Pkg() != nil && (f.Pkg().Path() == "net" || f.Pkg().Path() == "strconv" || f.Pkg().Path() == "strings" || f.Pkg().Path() == "net/netip"):
				// pure formatting / parsing helpers of the standard library: made of their arguments
				for _, a := range x.Call.Args {
					walk(a, d+1)
				}
			default:
				// an own helper: its result is made of what its return values are made of, with the
				// parameters standing for the arguments of this call (one level of by-need inlining)
				if sf := core.StaticFn(x); sf != nil && sf.Blocks != nil && f != nil && f.Pkg() != nil && strings.HasPrefix(f.Pkg().Path(), core.ModPath) && d < 20 && !x.Call.IsInvoke() {
					args := x.Call.Args
					for i, par := range sf.Params {
						if i < len(args) {
							env[par] = args[i]
						}
					}
					core.Instrs(sf, func(in ssa.Instruction) {
						if r, isR := in.(*ssa.Return); isR {
							for _, res := range r.Results {
								if _, isErr := res.Type().Underlying().(*types.Interface); isErr && res.Type().String() == "error" {
									continue
								}
								walk(res, d+1)
							}
						}
					})
					return
				}
				n := "?"
				if f != nil {
					n = f.FullName()
				}
				out = append(out, destTerm{kind: "other", path: "call " + n})
			}
		case *ssa.Parameter:
			if a, ok := env[x]; ok {
				walk(a, d+1)
				return
			}
			out = append(out, destTerm{kind: "other", path: "parameter " + x.Name()})
		case *ssa.BinOp:
			walk(x.X, d+1)
			walk(x.Y, d+1)
		case *ssa.Slice:
			walk(x.X, d+1)
		case *ssa.UnOp:
			if root, names := core.FieldPath(x); len(names) > 0 {
				out = append(out, destTerm{kind: "field", path: strings.Join(names, "."), root: root})
				return
			}
			if al, ok := x.X.(*ssa.Alloc); ok {
				if sv, ok := core.SingleStore(al); ok {
					walk(sv, d+1)
					return
				}
			}
			out = append(out, destTerm{kind: "other", path: "load"})
		default:
			out = append(out, destTerm{kind: "other", path: fmt.Sprintf("%T", v)})
		}
	}
	walk(v, 0)
	return out
}

func sortedKeys(m map[string]bool) []string {
	var out []string
	for k := range m {
		out = append(out, k)
	}
	sort.Strings(out)
	return out
}

// reportDestination: ServeReport sends towards the node that owns the session the report belongs to.
func reportDestination(c *core.Ctx, rule string) {
	p := c.P
	fn := fnOf(c, rule, pkgPfcp, "PfcpServer", "ServeReport")
	if fn == nil {
		return
	}
	// on every path: the destination handed on is computed only from constants and from fields of the
	// owning node that a takeover (UpdateNodeID) keeps current
	kept := map[string]bool{}
	if up := p.SSAFn(p.Method(pkgPfcp, "PfcpServer", "UpdateNodeID")); up != nil {
		core.Instrs(up, func(in ssa.Instruction) {
			if st, ok := in.(*ssa.Store); ok {
				if fa, ok := st.Addr.(*ssa.FieldAddr); ok && fa.X == ssa.Value(core.Param(up, 0)) {
					// "keeps current" = on every path: a takeover that can return before the write (an early
					// exit for some state of the node table) leaves the session pointing at the previous SMF
					if all, _ := dominatesReturns(st); all {
						kept[core.FieldOfAddr(fa).Name()] = true
					}
				}
			}
		})
	}
	lsess := p.Method(pkgPfcp, "LocalNode", "Sess")
	for _, name := range []string{"serveUSAReport", "serveDLDReport"} {
		for _, ci := range core.Calls(fn, p.Method(pkgPfcp, "PfcpServer", name)) {
			bad := ""
			fromNode := false
			for _, t := range destTerminals(callInputOfType(ci, isNetAddrT)) {
				if t.kind == "const" {
					continue
				}
				if t.kind == "field" && strings.HasPrefix(t.path, "rnode.") && kept[strings.TrimPrefix(t.path, "rnode.")] {
					// of the session looked up by the report's own SEID
					if ex, ok := t.root.(*ssa.Extract); ok && ex.Index == 0 {
						if cl, ok := ex.Tuple.(*ssa.Call); ok && core.Callee(cl) == lsess {
							if _, kn := core.FieldPath(core.CallArgs(cl)[0]); len(kn) == 1 && kn[0] == "SEID" {
								fromNode = true
								continue
							}
						}
					}
					bad = "field " + t.path + " of a session other than the one looked up by the report's SEID"
					continue
				}
				bad = t.kind + ":" + t.path
			}
			c.Check(rule, "report-node:"+name, ci.Pos(), fromNode, "the destination is derived from the owning node of the session looked up by the report's own SEID")
			c.Check(rule, "report-node-current:"+name, ci.Pos(), bad == "", "the destination is computed only from constants and owning-node fields that a session takeover keeps current (UpdateNodeID writes "+strings.Join(sortedKeys(kept), ",")+"); offending source: "+bad)
		}
	}
}

// freshReportLists: the report list of every notification handed to the event loop is built for that
// notification only (no backing array shared with the list of another notification, which the
// producer goroutine would overwrite while the event loop still reads it).
func freshReportLists(c *core.Ctx, rule string) {
	p := c.P
	// fresh report list per notification (producers)
	notify := p.Method(pkgReport, "Handler", "NotifySessReport")
	nN := 0
	for _, fn := range p.OwnFuncs() {
		core.Instrs(fn, func(in ssa.Instruction) {
			ci, ok := in.(ssa.CallInstruction)
			if !ok || !ci.Common().IsInvoke() || ci.Common().Method != notify {
				return
			}
			nN++
			// SessReport literal -> Reports field value
			var reports ssa.Value
			if ld, ok := ci.Common().Args[0].(*ssa.UnOp); ok {
				if al, ok := ld.X.(*ssa.Alloc); ok {
					as := map[string][]ssa.Value{}
					structAssigns(al, "", as, 0)
					if v := as["Reports"]; len(v) == 1 {
						reports = v[0]
					}
				}
			}
			fresh, why := freshPerIteration(reports, in)
			c.Check(rule, fmt.Sprintf("fresh-report-list:%s#%d", core.FnName(fn), nN), ci.Pos(), fresh, "the report list handed to the event loop is built for this notification only ("+why+")")
		})
	}
	c.Floor(rule, nN, 3, "NotifySessReport call sites")
}

// fieldPathThroughCopies is core.FieldPath continued through struct-typed locals that hold a copy of a field of
// another value (a struct parameter of an expanded helper, spilled to a local: m := r.VolMeasurement; ... m.TotalVolume).
func fieldPathThroughCopies(v ssa.Value) (ssa.Value, []string) {
	root, names := core.FieldPath(v)
	for i := 0; i < 4; i++ {
		al, ok := root.(*ssa.Alloc)
		if !ok || len(names) == 0 {
			break
		}
		sv, ok := aggregateSingleStore(al)
		if !ok {
			break
		}
		r2, n2 := core.FieldPath(sv)
		if r2 == nil || r2 == sv {
			break
		}
		if _, isPtr := r2.Type().Underlying().(*types.Pointer); !isPtr {
			break // the copied value is not a field of something addressable: the local is the root
		}
		root, names = r2, append(append([]string{}, n2...), names...)
	}
	return root, names
}
