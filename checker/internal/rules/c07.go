package rules

import (
	"fmt"
	"go/token"
	"go/types"
	"sort"
	"strings"

	"golang.org/x/tools/go/ssa"

	"upfcheck/internal/core"
)

func init() { Registry["C07"] = C07 }

func C07(c *core.Ctx) {
	c.Explain = "A whole-program no-panic proof through the third-party decoders is out of reach; decided here is that go-upf's OWN code reachable " +
		"from the PFCP event loop and the receiver goroutine (call graph, not crossing `go`) has no unchecked way to fault, exit or stop serving: " +
		"(P1) every own index/slice expression there is proven in bounds by the Go compiler's prove pass or discharged by a named idiom with checked " +
		"side conditions (last-element, guard stability, free-list invariant, affine loop relation, constant value set; the GTP-U encoder by the " +
		"abstract evaluation of C14), and every fixed-width byte-order read/write gets a buffer that is provably long enough; (P2) elements of the " +
		"session table and optional message IEs (*ie.IE fields of go-pfcp messages) are nil-tested before use; (P3) no panic/os.Exit/Fatal call is " +
		"reachable except in the two recover wrappers; (P4) no unchecked type assertion and no division by a non-constant; (P5) the event loop " +
		"returns only on the receiver-closed sentinel, every other arm continues, and the sentinel (empty buffer) cannot be produced by a datagram " +
		"(data sends carry a fresh buffer of length n with n != 0 known); (P6) the heartbeat handler reaches its response on every path with no " +
		"state lookup in between; (P8) every attribute list handed to go-gtp5gnl that can contain a nested attribute of datagram-decided size " +
		"(one attribute per received IE, or a payload-proportional byte string) first passes a length check that rejects anything the 16-bit netlink " +
		"attribute length cannot hold — go-nl wraps the length and panics in Attr.Encode otherwise; (P9) a decodable request that is not a " +
		"retransmission reaches the dispatcher whatever the server's load or stored state: the loop gives up on it only for a parse error, the " +
		"request/response routing, the transaction lookup and the duplicate verdict; (P7) messages end exactly the sessions they address (re-association resets only the found node; rules shared with C05 R3); " +
		"(L2) go-pfcp's decoding functions reachable from the event loop (call graph, encoders excluded): every index/slice expression the compiler cannot prove is " +
		"discharged by the linear-relational engine (offsets compared with the length on every path), or by the frozen table of sites confirmed by reading " +
		"(rows that hold for one IE type only are re-checked at every call site), or reported — a new decoding accessor called by go-upf extends the scope."
	c.Undec = []string{"panics inside dependencies other than bounds faults of go-pfcp's decode scope (L2): nil dereferences inside go-pfcp, go-gtp5gnl / go-nl (they decode kernel replies, not datagrams), logrus",
		"resource exhaustion (memory, sockets)", "kernel-originated netlink input (buffnetlink decoders run on the mux goroutine, outside the datagram path)"}
	c.Assume = []string{"Go compiler prove pass is sound", "net.UDPConn.ReadFrom returns 0 <= n", "call graph over-approximates", "library functions do not panic on the values go-upf hands them"}
	p := c.P
	classes := p.GoroutineClasses()
	el, rcv := classes["EL"], classes["RCV"]
	if el == nil || rcv == nil {
		c.Anchor("P1", "goroutine roots PfcpServer.main / PfcpServer.receiver")
		return
	}
	scope := map[*ssa.Function]bool{}
	for fn := range el.Reach {
		if p.IsOwnFn(fn) && fn.Blocks != nil && !strings.Contains(core.FnPkg(fn).Path(), "/testtools/") {
			scope[fn] = true
		}
	}
	for fn := range rcv.Reach {
		if p.IsOwnFn(fn) && fn.Blocks != nil {
			scope[fn] = true
		}
	}
	var fns []*ssa.Function
	for fn := range scope {
		fns = append(fns, fn)
	}
	sort.Slice(fns, func(i, j int) bool { return fns[i].Pos() < fns[j].Pos() })
	c.Extra["functions_in_scope"] = len(fns)
	c.Floor("P1", len(fns), 100, "own functions reachable from the event loop / receiver")

	c07Bounds(c, fns)
	sessF := p.Field(pkgPfcp, "LocalNode", "sess")
	if sessF == nil {
		c.Anchor("P2", "pfcp.LocalNode.sess")
	} else {
		nilSlotDiscipline(c, "P2", sessF, scope)
	}
	c07OptionalIEs(c, fns)
	c07Termination(c, fns)
	c07AssertDiv(c, fns)
	c07Loop(c)
	c07Heartbeat(c)
	c07AttrLen(c, fns)
	// P9: "stop serving" also means dropping what should be served: a decodable, new request always reaches its handler
	if a := getTxAnchors(c, "P9"); a.ok {
		requestsServed(c, "P9", a)
	}
	// P7: sessions not addressed by a message stay intact — re-association resets exactly the found node, session
	// deletion and the SEID-0 response delete exactly the addressed session (shared with C01 R6 / C05 R3)
	c01EndPaths(c, "P7", false)
	// L2: the PFCP decoding library as reached from go-upf
	c07Library(c)
}

// P1
func c07Bounds(c *core.Ctx, fns []*ssa.Function) {
	p := c.P
	bd, err := newBounds(c)
	if err != nil {
		c.Anchor("P1", err.Error())
		return
	}
	nProven, nDischarged, nGtp := 0, 0, 0
	gtpOK, gtpWhy := true, ""
	gtpEvaluated := false
	perFn := map[string]int{}
	for _, fn := range fns {
		for _, site := range p.IndexSites(fn, bd.bce) {
			perFn[core.FnName(fn)]++
			key := fmt.Sprintf("index:%s#%d", core.FnName(fn), perFn[core.FnName(fn)])
			if core.FnPkg(fn).Path() == pkgGtpv1 {
				if !gtpEvaluated {
					gtpOK, gtpWhy = c14InBounds(c)
					gtpEvaluated = true
				}
				nGtp++
				c.Check("P1", key, site.Lbrack, gtpOK, "GTP-U encoder: in bounds of a buffer of Len() octets by the abstract evaluation of C14 "+gtpWhy)
				continue
			}
			if site.Proven {
				nProven++
				c.Counts["P1"]++
				continue // proven sites are counted, not listed one by one
			}
			ok, how := bd.discharge(c, site)
			if ok {
				nDischarged++
			}
			c.Check("P1", key, site.Lbrack, ok, how)
		}
	}
	c.Obls = append(c.Obls, &core.Obligation{Rule: "P1", Key: "C07/P1/compiler-proven-sites", Desc: fmt.Sprintf("%d own index/slice expressions in scope are proven in bounds by the compiler's prove pass", nProven), OK: true})
	c.Extra["index_sites"] = map[string]int{"compiler_proven": nProven, "idiom_discharged": nDischarged, "gtpu_encoder_by_C14": nGtp}
	c.Floor("P1", nProven+nDischarged+nGtp, 30, "index/slice sites in scope")

	// fixed-width codecs
	n := 0
	for _, fn := range fns {
		if core.FnPkg(fn).Path() == pkgGtpv1 {
			continue
		}
		core.Instrs(fn, func(in ssa.Instruction) {
			cl, ok := in.(*ssa.Call)
			if !ok {
				return
			}
			_, op, w, ok := core.EndianCall(core.Callee(cl))
			if !ok {
				return
			}
			n++
			buf := core.CallArgs(cl)[0]
			iv := core.LenInterval(buf, cl.Block())
			c.Check("P1", fmt.Sprintf("codec:%s:%s%d", core.FnName(fn), op, w), cl.Pos(), iv.Lo >= int64(w/8),
				fmt.Sprintf("buffer handed to binary.%s%d has length >= %d (need %d)", op, w, iv.Lo, w/8))
		})
	}
	c.Floor("P1", n, 3, "fixed-width byte-order calls in scope")
}

// c14InBounds re-runs the abstract evaluation of the GTP-U encoder and reports whether every
// access stays inside a buffer of Len() octets, for both extension shapes.
func c14InBounds(c *core.Ctx) (bool, string) {
	sub, _ := core.NewCtx(c.P, "C14", c.Tier, c.Seed, c.OutDir, "")
	C14(sub)
	for _, f := range sub.Findings {
		if strings.Contains(f.Key, "in-bounds") || strings.Contains(f.Key, "callsite-buffer") || strings.Contains(f.Key, "callsite-flags") ||
			strings.Contains(f.Key, "Encode:") || strings.Contains(f.Key, "Len:") || strings.Contains(f.Key, "total-length") || f.Kind != "violation" {
			return false, "(fails: " + f.Key + ")"
		}
	}
	return true, ""
}

// P2 (ii): optional IEs of go-pfcp messages.
func c07OptionalIEs(c *core.Ctx, fns []*ssa.Function) {
	p := c.P
	ieT := p.Named(core.PkgIE, "IE")
	if ieT == nil {
		c.Anchor("P2", "ie.IE")
		return
	}
	isMsgIEField := func(f *types.Var) bool {
		if f == nil || f.Pkg() == nil || f.Pkg().Path() != core.PkgMessage {
			return false
		}
		pt, ok := f.Type().(*types.Pointer)
		return ok && types.Identical(pt.Elem(), ieT)
	}
	n := 0
	for _, fn := range fns {
		perField := map[string]int{}
		core.Instrs(fn, func(in ssa.Instruction) {
			ld, ok := in.(*ssa.UnOp)
			if !ok || ld.Op != token.MUL {
				return
			}
			fa, ok := ld.X.(*ssa.FieldAddr)
			if !ok || !isMsgIEField(core.FieldOfAddr(fa)) {
				return
			}
			fname := core.FieldOfAddr(fa).Name()
			for _, r := range *ld.Referrers() {
				ci, ok := r.(ssa.CallInstruction)
				if !ok {
					continue
				}
				use := ""
				if core.CallRecv(ci) == ssa.Value(ld) {
					use = "receiver of " + core.Callee(ci).Name()
				} else {
					for _, a := range ci.Common().Args {
						if a == ssa.Value(ld) {
							if f := core.Callee(ci); f != nil {
								use = "argument of " + f.Name()
							} else {
								use = "argument of a call"
							}
						}
					}
				}
				if use == "" {
					continue
				}
				// handed to an own function or local closure that tests its parameter itself
				if callee := ci.Common().StaticCallee(); callee != nil && callee.Blocks != nil && p.IsOwnFn(callee) && core.CallRecv(ci) != ssa.Value(ld) {
					safe := true
					for i, a := range ci.Common().Args {
						if a == ssa.Value(ld) && !paramNilSafe(callee, i, 0) {
							safe = false
						}
					}
					if safe {
						continue
					}
				}
				n++
				perField[fname]++
				c.Check("P2", fmt.Sprintf("optional-ie:%s:%s#%d", core.FnName(fn), fname, perField[fname]), r.Pos(),
					nilKnownLoc(fn, r.Block(), ld, false),
					"optional IE "+fname+" is known non-nil (dominating nil test) where it is used as "+use)
			}
		})
	}
	c.Floor("P2", n, 6, "uses of optional message IEs")
}

// paramNilSafe: inside fn, parameter idx is used as a call receiver or argument only where it is known non-nil
// (comparisons with nil, stores and returns of the pointer itself are harmless).
func paramNilSafe(fn *ssa.Function, idx int, depth int) bool {
	if idx >= len(fn.Params) || depth > 3 {
		return false
	}
	prm := fn.Params[idx]
	for _, r := range *prm.Referrers() {
		switch x := r.(type) {
		case ssa.CallInstruction:
			used := core.CallRecv(x) == ssa.Value(prm)
			for _, a := range x.Common().Args {
				if a == ssa.Value(prm) {
					used = true
				}
			}
			if used && !core.NilKnownAt(x.Block(), prm, false) {
				return false
			}
		case *ssa.FieldAddr, *ssa.UnOp:
			if !core.NilKnownAt(r.Block(), prm, false) {
				return false
			}
		}
	}
	return true
}

// P3
func c07Termination(c *core.Ctx, fns []*ssa.Function) {
	examined := 0
	for _, fn := range fns {
		hasRecover := false
		core.Instrs(fn, func(in ssa.Instruction) {
			if cl, ok := in.(*ssa.Call); ok {
				if bi, ok := cl.Call.Value.(*ssa.Builtin); ok && bi.Name() == "recover" {
					hasRecover = true
				}
			}
		})
		n := 0
		core.Instrs(fn, func(in ssa.Instruction) {
			switch x := in.(type) {
			case *ssa.Panic:
				if x.Pos().IsValid() {
					n++
					c.Check("P3", fmt.Sprintf("exit:%s:panic#%d", core.FnName(fn), n), x.Pos(), false, "explicit panic reachable from the event loop / receiver")
				}
			case ssa.CallInstruction:
				examined++
				f := core.Callee(x)
				if f == nil {
					return
				}
				name := f.Name()
				fatal := false
				switch {
				case core.IsPkgFunc(f, "os", "Exit"), core.IsPkgFunc(f, "runtime", "Goexit"):
					fatal = true
				case f.Pkg() != nil && (f.Pkg().Path() == "log" || strings.HasSuffix(f.Pkg().Path(), "sirupsen/logrus")):
					if strings.HasPrefix(name, "Fatal") || strings.HasPrefix(name, "Panic") || name == "Exit" {
						fatal = true
					}
				}
				if fatal {
					n++
					c.Check("P3", fmt.Sprintf("exit:%s:%s#%d", core.FnName(fn), name, n), x.Pos(), hasRecover,
						"process-terminating call "+name+" reachable from the event loop / receiver (allowed only inside the recover wrapper)")
				}
			}
		})
	}
	c.Floor("P3", examined, 300, "call instructions examined")
}

// P4
func c07AssertDiv(c *core.Ctx, fns []*ssa.Function) {
	nTA, nDiv := 0, 0
	for _, fn := range fns {
		k := 0
		core.Instrs(fn, func(in ssa.Instruction) {
			switch x := in.(type) {
			case *ssa.TypeAssert:
				nTA++
				if !x.CommaOk {
					k++
					c.Check("P4", fmt.Sprintf("assert:%s#%d", core.FnName(fn), k), x.Pos(), false, "type assertion without comma-ok (panics on a mismatch)")
				}
			case *ssa.BinOp:
				if (x.Op == token.QUO || x.Op == token.REM) && isIntType(x.Type()) {
					nDiv++
					if _, isC := x.Y.(*ssa.Const); !isC {
						iv := core.EvalInt(x.Y, x.Block())
						if iv.Lo <= 0 && iv.Hi >= 0 {
							k++
							c.Check("P4", fmt.Sprintf("div:%s#%d", core.FnName(fn), k), x.Pos(), false, "integer division by a value that is not known to be non-zero")
						}
					}
				}
			}
		})
	}
	c.Obls = append(c.Obls, &core.Obligation{Rule: "P4", Key: "C07/P4/examined", OK: true,
		Desc: fmt.Sprintf("%d type assertions (all comma-ok / type switch) and %d integer divisions (all by non-zero constants) examined", nTA, nDiv)})
	c.Counts["P4"] += nTA + nDiv
	c.Floor("P4", nTA, 1, "type assertions examined (type switches count)")
}

func isIntType(t types.Type) bool {
	b, ok := t.Underlying().(*types.Basic)
	return ok && b.Info()&types.IsInteger != 0
}

// P5
func c07Loop(c *core.Ctx) {
	p := c.P
	mainFn := fnOf(c, "P5", pkgPfcp, "PfcpServer", "main")
	rcvFn := fnOf(c, "P5", pkgPfcp, "PfcpServer", "receiver")
	pktT := p.Named(pkgPfcp, "ReceivePacket")
	if mainFn == nil || rcvFn == nil || pktT == nil {
		return
	}
	bufF := p.Field(pkgPfcp, "ReceivePacket", "Buf")
	// the goroutine start of the receiver marks "serving"
	var goIn ssa.Instruction
	core.Instrs(mainFn, func(in ssa.Instruction) {
		if g, ok := in.(*ssa.Go); ok && core.Callee(g) == p.Method(pkgPfcp, "PfcpServer", "receiver") {
			goIn = g
		}
	})
	if goIn == nil {
		c.Undecided("P5", "loop", mainFn.Pos(), "event loop does not start the receiver goroutine")
		return
	}
	isEmptyBufFact := func(b *ssa.BasicBlock) bool {
		for _, f := range core.FactsAt(b) {
			cmp, ok := f.V.(*ssa.BinOp)
			if !ok {
				continue
			}
			lc, ok := cmp.X.(*ssa.Call)
			if !ok {
				continue
			}
			bi, ok := lc.Call.Value.(*ssa.Builtin)
			if !ok || bi.Name() != "len" {
				continue
			}
			_, fld, ok := core.LoadedField(lc.Call.Args[0])
			if !ok || fld != bufF {
				continue
			}
			k, ok := core.ConstInt(cmp.Y)
			if !ok {
				continue
			}
			switch {
			case cmp.Op == token.EQL && k == 0 && f.True,
				cmp.Op == token.NEQ && k == 0 && !f.True,
				cmp.Op == token.LSS && k == 1 && f.True,
				cmp.Op == token.LEQ && k == 0 && f.True,
				cmp.Op == token.GTR && k == 0 && !f.True,
				cmp.Op == token.GEQ && k == 1 && !f.True:
				return true
			}
		}
		return false
	}
	nRet := 0
	core.Instrs(mainFn, func(in ssa.Instruction) {
		r, ok := in.(*ssa.Return)
		if !ok || !core.InstrDominates(goIn, r) {
			return
		}
		nRet++
		c.Check("P5", fmt.Sprintf("loop-exit#%d", nRet), r.Pos(), isEmptyBufFact(r.Block()),
			"the event loop returns only under the receiver-closed sentinel (empty packet buffer); every other arm continues")
	})
	c.Floor("P5", nRet, 1, "returns of the serving event loop")
	// no explicit panic in main itself is covered by P3; the loop must not be left otherwise: any block after the
	// Go statement without successors must end in Return or the synthetic select panic
	for _, b := range mainFn.Blocks {
		if len(b.Succs) == 0 && len(b.Instrs) > 0 && goIn.Block().Dominates(b) {
			switch last := b.Instrs[len(b.Instrs)-1].(type) {
			case *ssa.Return:
			case *ssa.Panic:
				c.Check("P5", "loop-panic-exit", last.Pos(), !last.Pos().IsValid(), "the event loop has an explicit panic exit")
			}
		}
	}
	// receiver: sends on the packet channel
	nData, nSent := 0, 0
	core.Instrs(rcvFn, func(in ssa.Instruction) {
		snd, ok := in.(*ssa.Send)
		if !ok {
			return
		}
		if ch, ok := snd.Chan.Type().Underlying().(*types.Chan); !ok || !types.Identical(ch.Elem(), pktT) {
			return
		}
		if k, isConst := snd.X.(*ssa.Const); isConst && k.Value == nil {
			// sentinel: zero ReceivePacket; nothing may be sent after it
			nSent++
			after := false
			core.Instrs(rcvFn, func(i2 ssa.Instruction) {
				if s2, ok := i2.(*ssa.Send); ok && s2 != snd && core.Reaches(snd, s2) {
					after = true
				}
			})
			c.Check("P5", fmt.Sprintf("sentinel-last#%d", nSent), snd.Pos(), !after, "after the receiver-closed sentinel the receiver sends nothing more (loop left)")
			// and it is sent only on a read error
			return
		}
		nData++
		// data packet: Buf must be a fresh buffer of non-zero length
		var bufV ssa.Value
		if ld, ok := snd.X.(*ssa.UnOp); ok && ld.Op == token.MUL {
			if al, ok := ld.X.(*ssa.Alloc); ok {
				for _, r := range *al.Referrers() {
					if fa, ok := r.(*ssa.FieldAddr); ok && core.FieldOfAddr(fa) == bufF {
						for _, u := range *fa.Referrers() {
							if st, ok := u.(*ssa.Store); ok {
								bufV = st.Val
							}
						}
					}
				}
			}
		}
		ms, fresh := bufV.(*ssa.MakeSlice)
		nonzero := false
		desc := "data packet buffer is not a fresh make([]byte, n)"
		if fresh {
			// the length is the byte count n itself, or len(buf[:n]) of the read buffer cut to the count
			nv := ms.Len
			if lc, ok := nv.(*ssa.Call); ok {
				if bi, ok := lc.Call.Value.(*ssa.Builtin); ok && bi.Name() == "len" {
					if sl, ok := lc.Call.Args[0].(*ssa.Slice); ok && sl.Low == nil && sl.High != nil {
						nv = sl.High
					}
				}
			}
			iv := core.EvalInt(nv, snd.Block())
			// n is the byte count returned by ReadFrom: 0 <= n (io contract); != 0 must be established by a branch
			if ex, ok := nv.(*ssa.Extract); ok && ex.Index == 0 {
				if cl, ok := ex.Tuple.(*ssa.Call); ok {
					if f := core.Callee(cl); f != nil && (f.Name() == "ReadFrom" || f.Name() == "ReadFromUDP" || f.Name() == "Read") {
						if iv.Lo < 0 {
							iv.Lo = 0
						}
						// re-apply `n != 0` / `n > 0` facts on the seeded lower bound
						for _, ft := range core.FactsAt(snd.Block()) {
							if cmp, ok := ft.V.(*ssa.BinOp); ok && cmp.X == nv {
								if k, ok := core.ConstInt(cmp.Y); ok {
									if (cmp.Op == token.EQL && k == 0 && !ft.True) || (cmp.Op == token.NEQ && k == 0 && ft.True) ||
										(cmp.Op == token.GTR && k == 0 && ft.True) || (cmp.Op == token.LEQ && k == 0 && !ft.True) ||
										(cmp.Op == token.LSS && k == 1 && !ft.True) || (cmp.Op == token.GEQ && k == 1 && ft.True) {
										if iv.Lo < 1 {
											iv.Lo = 1
										}
									}
								}
							}
						}
					}
				}
			}
			nonzero = iv.Lo >= 1
			desc = fmt.Sprintf("data packet carries a fresh buffer of length n, n in [%d,..]: an empty datagram must never look like the receiver-closed sentinel", iv.Lo)
			// and the buffer is filled by copy from the read buffer (no aliasing of the reused read buffer)
		}
		c.Check("P5", fmt.Sprintf("sentinel-unambiguous#%d", nData), snd.Pos(), fresh && nonzero, desc)
	})
	c.Floor("P5", nData, 1, "data sends of the receiver")
	c.Floor("P5", nSent, 1, "sentinel sends of the receiver")
}

// P6
func c07Heartbeat(c *core.Ctx) {
	p := c.P
	fn := fnOf(c, "P6", pkgPfcp, "PfcpServer", "handleHeartbeatRequest")
	if fn == nil {
		return
	}
	sendRsp := p.Method(pkgPfcp, "PfcpServer", "sendRspTo")
	calls := p.CallsThrough(fn, sendRsp, 2)
	if len(calls) != 1 {
		c.Check("P6", "heartbeat-responds", fn.Pos(), false, fmt.Sprintf("heartbeat handler calls sendRspTo %d times (want 1)", len(calls)))
		return
	}
	send := calls[0].Site.(ssa.Instruction)
	core.Instrs(fn, func(in ssa.Instruction) {
		if r, ok := in.(*ssa.Return); ok {
			c.Check("P6", "heartbeat-responds", r.Pos(), core.InstrDominates(send, r), "every path of the heartbeat handler passes through sendRspTo")
		}
	})
	// nothing state-dependent before the send: no map lookups, no own calls except the send itself
	clean := true
	core.Instrs(fn, func(in ssa.Instruction) {
		switch x := in.(type) {
		case *ssa.Lookup:
			clean = false
		case ssa.CallInstruction:
			if f := core.Callee(x); f != nil && p.IsOwn(f.Pkg()) && f != sendRsp && ssa.Instruction(x) != send {
				clean = false
			}
		case *ssa.If:
			if !core.InstrDominates(send, x) {
				clean = false
			}
		}
	})
	c.Check("P6", "heartbeat-unconditional", fn.Pos(), clean, "no lookup, branch or other go-upf call precedes the heartbeat response")
	// dispatcher reaches it
	disp := fnOf(c, "P6", pkgPfcp, "PfcpServer", "reqDispacher")
	if disp != nil {
		c.Check("P6", "heartbeat-dispatched", disp.Pos(), len(core.Calls(disp, p.Method(pkgPfcp, "PfcpServer", "handleHeartbeatRequest"))) == 1,
			"the request dispatcher has an arm for Heartbeat Request")
	}
}
