package rules

import (
	"strings"
	"testing"

	"golang.org/x/tools/go/packages"
	"golang.org/x/tools/go/ssa"
	"golang.org/x/tools/go/ssa/ssautil"
)

func loadFixture(t *testing.T, dir string) *ssa.Package {
	t.Helper()
	cfg := &packages.Config{Mode: packages.LoadAllSyntax, Dir: dir, Env: append([]string{"GOFLAGS=-mod=mod", "GOPROXY=off", "GOWORK=off"}, envOS()...)}
	pkgs, err := packages.Load(cfg, ".")
	if err != nil || len(pkgs) != 1 || len(pkgs[0].Errors) > 0 {
		t.Fatalf("load %s: %v %v", dir, err, pkgs)
	}
	prog, ssapkgs := ssautil.AllPackages(pkgs, ssa.InstantiateGenerics)
	prog.Build()
	return ssapkgs[0]
}

// TestCarriedEngine: the iteration-independence engine reports every Bad* function of the fixture and
// no Ok* function (positive and negative examples kept next to the engine).
func TestCarriedEngine(t *testing.T) {
	pkg := loadFixture(t, "testdata/carried")
	n := 0
	for name, m := range pkg.Members {
		fn, ok := m.(*ssa.Function)
		if !ok || !(strings.HasPrefix(name, "Bad") || strings.HasPrefix(name, "Ok")) {
			continue
		}
		n++
		got := len(carriedAcrossIterations(fn)) > 0
		if want := strings.HasPrefix(name, "Bad"); got != want {
			t.Errorf("%s: reported=%v want %v", name, got, want)
		}
	}
	if n < 10 {
		t.Fatalf("only %d fixture functions found", n)
	}
}
