package rules

import (
	"fmt"
	"go/token"
	"go/types"
	"strings"

	"golang.org/x/tools/go/ssa"

	"upfcheck/internal/core"
)

// bounds holds the shared state of the index-safety rule (C04 R1, C07 P1).
type bounds struct {
	lin *core.LinEnv
	p        *core.Program
	bce      *core.BCE
	shr      map[*types.Var]map[*ssa.Function]bool
	freeLem  *bool // result of the free-list lemma (C04 R4), computed on demand
	freeWhy  string
	sessF    *types.Var
	freeF    *types.Var
	localIDF *types.Var
}

func newBounds(c *core.Ctx) (*bounds, error) {
	bce, err := c.P.RunBCE()
	if err != nil {
		return nil, err
	}
	b := &bounds{p: c.P, bce: bce, shr: map[*types.Var]map[*ssa.Function]bool{}}
	b.sessF = c.P.Field(pkgPfcp, "LocalNode", "sess")
	b.freeF = c.P.Field(pkgPfcp, "LocalNode", "free")
	b.localIDF = c.P.Field(pkgPfcp, "Sess", "LocalID")
	return b, nil
}

func (b *bounds) shrinkers(f *types.Var) map[*ssa.Function]bool {
	if s, ok := b.shr[f]; ok {
		return s
	}
	s := shrinkers(b.p, f)
	b.shr[f] = s
	return s
}

// indexParts returns (indexed value, index value or nil, high bound or nil) for an index site.
func indexParts(in ssa.Instruction) (x ssa.Value, idx ssa.Value, lo, hi ssa.Value, isSlice bool) {
	switch s := in.(type) {
	case *ssa.IndexAddr:
		return s.X, s.Index, nil, nil, false
	case *ssa.Index:
		return s.X, s.Index, nil, nil, false
	case *ssa.Slice:
		return s.X, nil, s.Low, s.High, true
	}
	return nil, nil, nil, nil, false
}

// discharge tries the named local idioms for a site the compiler did not prove.
func (b *bounds) discharge(c *core.Ctx, site core.IndexSite) (bool, string) {
	in := core.InstrAt(site.Fn, site.Lbrack)
	if in == nil {
		return false, "no SSA instruction found for the expression"
	}
	x, idx, lo, hi, isSlice := indexParts(in)
	// plain interval argument first: index within LenInterval of the indexed value
	if !isSlice {
		li := core.LenInterval(x, in.Block())
		ii := core.EvalInt(idx, in.Block())
		if ii.Lo >= 0 && ii.Hi != core.PosInf && li.Lo != core.NegInf && ii.Hi < li.Lo {
			return true, fmt.Sprintf("interval: index in [%d,%d], length >= %d", ii.Lo, ii.Hi, li.Lo)
		}
	}
	var why []string
	// (0) read-count idiom: buf[:n] where n is the count returned by Read/ReadFrom(buf) on that very buffer
	// (io contract: 0 <= n <= len(buf))
	if isSlice && lo == nil && hi != nil {
		if ex, ok := hi.(*ssa.Extract); ok && ex.Index == 0 {
			if cl, ok := ex.Tuple.(*ssa.Call); ok {
				if f := core.Callee(cl); f != nil && (f.Name() == "ReadFrom" || f.Name() == "ReadFromUDP" || f.Name() == "Read") {
					for _, a := range cl.Call.Args {
						if core.Unwrap(a) == core.Unwrap(x) {
							return true, "read-count idiom: the slice is cut to the byte count returned by " + f.Name() + " on the same buffer (0 <= n <= len)"
						}
					}
				}
			}
		}
	}
	if ok, how := b.lastElem(in, x, idx, lo, hi, isSlice); ok {
		return true, how
	} else if how != "" {
		why = append(why, how)
	}
	if !isSlice {
		if ok, how := b.guardStable(site, in, x, idx); ok {
			return true, how
		} else if how != "" {
			why = append(why, how)
		}
		if ok, how := b.freeElement(c, in, x, idx); ok {
			return true, how
		} else if how != "" {
			why = append(why, how)
		}
		if ok, how := b.loopAffine(in, x, idx); ok {
			return true, how
		} else if how != "" {
			why = append(why, how)
		}
		if ok, how := b.valueSet(in, x, idx); ok {
			return true, how
		} else if how != "" {
			why = append(why, how)
		}
		if ok, how := b.searchResult(in, x, idx); ok {
			return true, how
		} else if how != "" {
			why = append(why, how)
		}
	}
	// (g) linear-relational argument: the index expression is compared with the length symbolically on every
	// path to the site (core/lin.go; loads of a field are identified only when nothing in between can write it)
	if b.lin == nil {
		b.lin = newLinEnv(c.P)
	}
	if ok, _ := b.lin.ProveIndexSite(in); ok {
		return true, "linear-relational: offsets compared with the length on every path"
	}
	return false, fmt.Sprint("not proven by the compiler and no local idiom applies ", why)
}

// (a) last-element idiom: k := len(F)-c; if k >= 0 { ... F[k] ... F[:k] } with no shrink of F in between.
func (b *bounds) lastElem(in ssa.Instruction, x, idx, lo, hi ssa.Value, isSlice bool) (bool, string) {
	base, f, ok := core.LoadedField(x)
	if !ok {
		return false, ""
	}
	k := idx
	if isSlice {
		if lo != nil || hi == nil {
			return false, ""
		}
		k = hi
	}
	sub, ok := k.(*ssa.BinOp)
	if !ok || sub.Op != token.SUB {
		return false, ""
	}
	cst, ok := core.ConstInt(sub.Y)
	if !ok || cst < 0 || (!isSlice && cst < 1) {
		return false, ""
	}
	lc, ok := sub.X.(*ssa.Call)
	if !ok {
		return false, ""
	}
	bi, ok := lc.Call.Value.(*ssa.Builtin)
	if !ok || bi.Name() != "len" {
		return false, ""
	}
	b1, f1, ok := core.LoadedField(lc.Call.Args[0])
	if !ok || f1 != f || core.Unwrap(b1) != core.Unwrap(base) {
		return false, ""
	}
	if iv := core.EvalInt(k, in.Block()); iv.Lo < 0 {
		return false, "last-element idiom: index len-" + fmt.Sprint(cst) + " is not guarded by >= 0"
	}
	if ok, why := noShrinkBetween(b.p, lc, in, f, b.shrinkers(f)); !ok {
		return false, "last-element idiom: " + why
	}
	return true, fmt.Sprintf("last-element idiom: index = len(%s)-%d, guarded >= 0, %s not shortened in between", f.Name(), cst, f.Name())
}

// (b) guard stability: the same index value was proven on the same field of the same object at a
// dominating site, and the slice cannot have become shorter since.
func (b *bounds) guardStable(site core.IndexSite, in ssa.Instruction, x, idx ssa.Value) (bool, string) {
	base, f, ok := core.LoadedField(x)
	if !ok {
		return false, ""
	}
	var res string
	for _, other := range b.p.IndexSites(site.Fn, b.bce) {
		if !other.Proven || other.Lbrack == site.Lbrack {
			continue
		}
		oin := core.InstrAt(site.Fn, other.Lbrack)
		if oin == nil || !core.InstrDominates(oin, in) {
			continue
		}
		ox, oidx, _, _, osl := indexParts(oin)
		if osl || !sameArith(oidx, idx, 0) {
			continue
		}
		ob, of, ok := core.LoadedField(ox)
		if !ok || of != f || core.Unwrap(ob) != core.Unwrap(base) {
			continue
		}
		if ok, why := noShrinkBetween(b.p, oin, in, f, b.shrinkers(f)); ok {
			return true, fmt.Sprintf("guard stability: same index proven at %s, %s cannot shrink in between", b.p.Pos(other.Lbrack), f.Name())
		} else {
			res = "guard stability: " + why
		}
	}
	return false, res
}

// (c) element of the free list used as table index (needs the free-list lemma of C04 R4).
func (b *bounds) freeElement(c *core.Ctx, in ssa.Instruction, x, idx ssa.Value) (bool, string) {
	if b.sessF == nil || b.freeF == nil {
		return false, ""
	}
	if _, f, ok := core.LoadedField(x); !ok || f != b.sessF {
		return false, ""
	}
	sub, ok := idx.(*ssa.BinOp)
	if !ok || sub.Op != token.SUB {
		return false, ""
	}
	if one, ok := core.ConstInt(sub.Y); !ok || one != 1 {
		return false, ""
	}
	v := sub.X
	// store-load forwarding through the LocalID field of the freshly allocated session
	if bo, f, ok := core.LoadedField(v); ok && f == b.localIDF {
		if _, fresh := bo.(*ssa.Alloc); fresh {
			var last *ssa.Store
			for _, st := range storesToField(in.Parent(), b.localIDF) {
				if st.Addr.(*ssa.FieldAddr).X == bo && st.Block() == in.Block() && core.InstrDominates(st, in) {
					last = st
				}
			}
			if last == nil {
				return false, "free-list element: no dominating store of LocalID in the block"
			}
			v = last.Val
		}
	}
	ld, ok := v.(*ssa.UnOp)
	if !ok || ld.Op != token.MUL {
		return false, ""
	}
	ia, ok := ld.X.(*ssa.IndexAddr)
	if !ok {
		return false, ""
	}
	if _, f, ok := core.LoadedField(ia.X); !ok || f != b.freeF {
		return false, ""
	}
	if b.freeLem == nil {
		ok, why := freeListLemma(c, false)
		b.freeLem, b.freeWhy = &ok, why
	}
	if !*b.freeLem {
		return false, "free-list element: the free-list invariant does not hold: " + b.freeWhy
	}
	// the table must not shrink between reading the element and using it
	if ok, why := noShrinkBetween(b.p, ld, in, b.sessF, b.shrinkers(b.sessF)); !ok {
		return false, "free-list element: " + why
	}
	return true, "free-list invariant: every id on the free list is a valid table index + 1 (C04 R4)"
}

// (d) affine loop relation: off = o0 + s*j with j the range index, buffer made with s*len(ranged).
func (b *bounds) loopAffine(in ssa.Instruction, x, idx ssa.Value) (bool, string) {
	off, ok := idx.(*ssa.Phi)
	if !ok || len(off.Edges) != 2 {
		return false, ""
	}
	ms, ok := x.(*ssa.MakeSlice)
	if !ok {
		return false, ""
	}
	hdr := off.Block()
	// find the range index phi in the same header: (-1, j+1) with j+1 < len(R) guarding the body
	var step int64
	var initOK bool
	for i, e := range off.Edges {
		if n, ok := core.ConstInt(e); ok && n == 0 {
			initOK = true
			_ = i
			continue
		}
		add, ok := e.(*ssa.BinOp)
		if !ok || add.Op != token.ADD || add.X != ssa.Value(off) {
			return false, "affine loop: offset is not advanced by a constant on the back edge"
		}
		step, ok = core.ConstInt(add.Y)
		if !ok || step <= 0 {
			return false, "affine loop: non-constant step"
		}
	}
	if !initOK || step == 0 {
		return false, ""
	}
	var jNext ssa.Value
	var ranged ssa.Value
	for _, i2 := range hdr.Instrs {
		ph, ok := i2.(*ssa.Phi)
		if !ok || ph == off || len(ph.Edges) != 2 {
			continue
		}
		var init, back ssa.Value = ph.Edges[0], ph.Edges[1]
		if n, ok := core.ConstInt(init); !ok || n != -1 {
			continue
		}
		inc, ok := back.(*ssa.BinOp)
		if !ok || inc.Op != token.ADD || inc.X != ssa.Value(ph) || inc.Block() != hdr {
			continue
		}
		if n, ok := core.ConstInt(inc.Y); !ok || n != 1 {
			continue
		}
		jNext = inc
	}
	if jNext == nil {
		return false, "affine loop: no range index in the loop header"
	}
	// the site must be inside the body: fact jNext < len(R)
	for _, f := range core.FactsAt(in.Block()) {
		if cmp, ok := f.V.(*ssa.BinOp); ok && f.True && cmp.Op == token.LSS && cmp.X == jNext {
			if lc, ok := cmp.Y.(*ssa.Call); ok {
				if bi, ok := lc.Call.Value.(*ssa.Builtin); ok && bi.Name() == "len" {
					ranged = lc.Call.Args[0]
				}
			}
		}
	}
	if ranged == nil {
		return false, "affine loop: access is not inside the range body"
	}
	// buffer length = step * len(ranged) (either operand order)
	mul, ok := ms.Len.(*ssa.BinOp)
	if !ok || mul.Op != token.MUL {
		return false, "affine loop: buffer length is not len*const"
	}
	var lenv, k ssa.Value = mul.X, mul.Y
	if _, isC := lenv.(*ssa.Const); isC {
		lenv, k = k, lenv
	}
	kn, ok := core.ConstInt(k)
	lc, ok2 := lenv.(*ssa.Call)
	if !ok || !ok2 || kn < step {
		return false, "affine loop: buffer length is not >= step*len"
	}
	if bi, ok := lc.Call.Value.(*ssa.Builtin); !ok || bi.Name() != "len" || lc.Call.Args[0] != ranged {
		return false, "affine loop: buffer length is taken from another slice than the one ranged over"
	}
	// on header visit n: jNext = n, off = step*n; in the body n < len  =>  off+step <= step*len <= len(buf)
	return true, fmt.Sprintf("affine loop invariant: offset = %d*index, index < len(ranged), buffer = %d*len(ranged) (element of %d octets fits)", step, kn, step)
}

// (e) value-set: the index is a value of an own named integer type whose only values in own code
// are declared constants (no conversion or arithmetic produces the type), all below the length.
func (b *bounds) valueSet(in ssa.Instruction, x, idx ssa.Value) (bool, string) {
	v := idx
	if cv, ok := v.(*ssa.Convert); ok {
		v = cv.X
	}
	named, ok := v.Type().(*types.Named)
	if !ok || !b.p.IsOwn(named.Obj().Pkg()) {
		return false, ""
	}
	if _, ok := named.Underlying().(*types.Basic); !ok {
		return false, ""
	}
	li := core.LenInterval(x, in.Block())
	// an array (local or package-level table): its length is its type's
	t := x.Type()
	if pt, isP := t.Underlying().(*types.Pointer); isP {
		t = pt.Elem()
	}
	if arr, isArr := t.Underlying().(*types.Array); isArr {
		li = core.Interval{Lo: arr.Len(), Hi: arr.Len()}
	}
	if li.Lo <= 0 {
		return false, ""
	}
	max := int64(0)
	for _, fn := range b.p.OwnFuncs() {
		bad := ""
		core.Instrs(fn, func(i2 ssa.Instruction) {
			if val, ok := i2.(ssa.Value); ok && sameNamed(val.Type(), named) {
				switch y := i2.(type) {
				case *ssa.Convert, *ssa.BinOp:
					bad = b.p.Pos(i2.Pos())
				case *ssa.ChangeType:
					if _, isC := y.X.(*ssa.Const); !isC {
						bad = b.p.Pos(i2.Pos())
					}
				case *ssa.UnOp:
					if y.Op != token.MUL {
						bad = b.p.Pos(i2.Pos())
					}
				}
			}
			for _, op := range i2.Operands(nil) {
				if op == nil || *op == nil {
					continue
				}
				if k, ok := (*op).(*ssa.Const); ok && sameNamed(k.Type(), named) {
					if n, ok := core.ConstInt(k); ok && n > max {
						max = n
					}
					if n, ok := core.ConstInt(k); ok && n < 0 {
						bad = "negative constant"
					}
				}
			}
		})
		if bad != "" {
			return false, fmt.Sprintf("value-set: a %s value is computed (not a declared constant) at %s", named.Obj().Name(), bad)
		}
	}
	if max < li.Lo {
		return true, fmt.Sprintf("value-set: every %s value in own code is a declared constant <= %d, table has >= %d entries", named.Obj().Name(), max, li.Lo)
	}
	return false, fmt.Sprintf("value-set: constant %d of %s exceeds table length %d", max, named.Obj().Name(), li.Lo)
}

func sameNamed(t types.Type, named *types.Named) bool {
	n, ok := t.(*types.Named)
	return ok && n.Obj() == named.Obj()
}

// (f) search-result idiom: i := slices.Index / slices.IndexFunc (xs, ..); if i >= 0 { xs[i] }: the standard
// library returns -1 or a valid index of the slice it was given; xs must be the same value or another
// load of the same field with nothing in between that can shrink it.
func (b *bounds) searchResult(in ssa.Instruction, x, idx ssa.Value) (bool, string) {
	cl, ok := idx.(*ssa.Call)
	if !ok {
		return false, ""
	}
	f := core.Callee(cl)
	if f == nil || f.Pkg() == nil || f.Pkg().Path() != "slices" || !(strings.HasPrefix(f.Name(), "Index") || f.Name() == "BinarySearch") || len(cl.Call.Args) == 0 {
		return false, ""
	}
	if f.Name() == "BinarySearch" {
		return false, "BinarySearch may return len(xs)"
	}
	iv := core.EvalInt(idx, in.Block())
	nonNeg := iv.Lo >= 0
	if !nonNeg {
		return false, "search result not known to be >= 0 here"
	}
	arg := cl.Call.Args[0]
	if arg == x {
		return true, "index is the non-negative result of " + f.Pkg().Path() + "." + f.Name() + " on the same slice"
	}
	if sameFieldLoad(arg, x) {
		_, fld, _ := core.LoadedField(x)
		shr := b.shrinkers(fld)
		if ok2, _ := noShrinkBetween(b.p, cl, in, fld, shr); ok2 {
			return true, "index is the non-negative result of " + f.Pkg().Path() + "." + f.Name() + " on the same field, which nothing in between can shrink"
		}
	}
	return false, "search was made on another slice"
}

// sameArith: the two values are the same SSA value, or the same pure arithmetic over the same operands
// (go/ssa does not share common subexpressions: `x-1` written twice gives two instructions).
func sameArith(a, b ssa.Value, depth int) bool {
	a, b = core.Unwrap(a), core.Unwrap(b)
	if a == b {
		return true
	}
	if depth > 4 {
		return false
	}
	switch x := a.(type) {
	case *ssa.Const:
		y, ok := b.(*ssa.Const)
		if !ok {
			return false
		}
		cx, okx := core.ConstInt(x)
		cy, oky := core.ConstInt(y)
		return okx && oky && cx == cy
	case *ssa.BinOp:
		y, ok := b.(*ssa.BinOp)
		return ok && x.Op == y.Op && sameArith(x.X, y.X, depth+1) && sameArith(x.Y, y.Y, depth+1)
	case *ssa.Convert:
		y, ok := b.(*ssa.Convert)
		return ok && types.Identical(x.Type(), y.Type()) && sameArith(x.X, y.X, depth+1)
	}
	return false
}
