// Package rules holds the per-property rule sets.
package rules

import "upfcheck/internal/core"

var Registry = map[string]func(*core.Ctx){}

// own package paths
const (
	pkgPfcp   = core.ModPath + "/internal/pfcp"
	pkgFwd    = core.ModPath + "/internal/forwarder"
	pkgPerio  = core.ModPath + "/internal/forwarder/perio"
	pkgBuff   = core.ModPath + "/internal/forwarder/buffnetlink"
	pkgReport = core.ModPath + "/internal/report"
	pkgGtpv1  = core.ModPath + "/internal/gtpv1"
	pkgFact   = core.ModPath + "/pkg/factory"
	pkgApp    = core.ModPath + "/pkg/app"
)
