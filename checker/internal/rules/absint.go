package rules

// A small abstract interpreter over go/ssa used by C14: conditional constant propagation with
// an affine domain for ints (c + k*L, L = len(payload) >= 0) and bit provenance for fixed-width
// unsigned values.  Branch conditions must evaluate to constants (they do once the header
// flags are the constant used at the call site); anything else makes the rule "undecided".
// It never executes go-upf code: it evaluates SSA instructions over abstract values.

import (
	"fmt"
	"go/token"
	"go/types"

	"golang.org/x/tools/go/ssa"

	"upfcheck/internal/core"
)

type aff struct{ c, k int64 } // c + k*L

func (a aff) String() string {
	switch {
	case a.k == 0:
		return fmt.Sprint(a.c)
	case a.k == 1:
		return fmt.Sprintf("%d+L", a.c)
	}
	return fmt.Sprintf("%d+%d*L", a.c, a.k)
}

// geq0: a >= 0 for every L >= 0
func (a aff) geq0() bool    { return a.c >= 0 && a.k >= 0 }
func (a aff) sub(b aff) aff { return aff{a.c - b.c, a.k - b.k} }
func (a aff) add(b aff) aff { return aff{a.c + b.c, a.k + b.k} }

type aBool bool
type aBits struct{ v core.BitVec }
type affByte struct { // byte `idx` (0 = least significant) of the `width`-bit truncation of an affine int
	a     aff
	idx   int
	width int
}
type affConv struct { // width-bit truncation of an affine int
	a     aff
	width int
}
type aStruct struct{ f []any }
type aCell struct{ v any }
type aPtr struct {
	cell *aCell // pointer to a scalar/struct cell
	arr  *aArr  // or pointer to an array element
	idx  int64
}
type aArr struct {
	name   string
	length aff
	cells  map[int64]any // byte cells written at constant offsets (absent = zero for a fresh array)
	elems  []any         // for non-byte slices (Exts)
	copies []aCopy
	fresh  bool
}
type aCopy struct {
	off aff
	n   aff
	src string
}
type aSlice struct {
	arr *aArr
	off aff
	len aff
}
type aIface struct {
	typ types.Type
	v   any
}
type aTuple []any
type aNil struct{}
type aOpaque struct{ what string }

type interp struct {
	prog  *ssa.Program
	fuel  int
	errs  []string // reasons for "undecided"
	oob   []string // possible out-of-range accesses
	depth int
}

func (it *interp) fail(format string, a ...any) {
	it.errs = append(it.errs, fmt.Sprintf(format, a...))
}

func (it *interp) call(fn *ssa.Function, args []any) any {
	if fn == nil || fn.Blocks == nil {
		it.fail("call of a function without body: %v", fn)
		return aOpaque{"nobody"}
	}
	it.depth++
	defer func() { it.depth-- }()
	if it.depth > 8 {
		it.fail("call depth")
		return aOpaque{"depth"}
	}
	env := map[ssa.Value]any{}
	for i, p := range fn.Params {
		env[p] = args[i]
	}
	var prev *ssa.BasicBlock
	b := fn.Blocks[0]
	for {
		for _, in := range b.Instrs {
			it.fuel--
			if it.fuel < 0 {
				it.fail("fuel exhausted (unbounded loop?) in %s", fn.Name())
				return aOpaque{"fuel"}
			}
			switch x := in.(type) {
			case *ssa.Phi:
				for i, p := range b.Preds {
					if p == prev {
						env[x] = it.val(env, x.Edges[i])
					}
				}
			case *ssa.Return:
				switch len(x.Results) {
				case 0:
					return nil
				case 1:
					return it.val(env, x.Results[0])
				}
				var t aTuple
				for _, r := range x.Results {
					t = append(t, it.val(env, r))
				}
				return t
			case *ssa.Jump:
				prev, b = b, b.Succs[0]
			case *ssa.If:
				c, ok := it.val(env, x.Cond).(aBool)
				if !ok {
					it.fail("%s: branch condition %s is not a constant under the abstract inputs", fn.Name(), x.Cond.Name())
					return aOpaque{"cond"}
				}
				if c {
					prev, b = b, b.Succs[0]
				} else {
					prev, b = b, b.Succs[1]
				}
			case *ssa.Store:
				it.store(it.val(env, x.Addr), it.val(env, x.Val))
			case *ssa.DebugRef:
			case ssa.Value:
				env[x] = it.eval(env, x)
			default:
				it.fail("%s: unsupported instruction %T", fn.Name(), in)
				return aOpaque{"instr"}
			}
			if len(it.errs) > 0 {
				return aOpaque{"error"}
			}
		}
	}
}

func (it *interp) val(env map[ssa.Value]any, v ssa.Value) any {
	if c, ok := v.(*ssa.Const); ok {
		if c.IsNil() {
			return aNil{}
		}
		if b, ok := c.Type().Underlying().(*types.Basic); ok {
			switch {
			case b.Info()&types.IsBoolean != 0:
				return aBool(c.Value.String() == "true")
			case b.Info()&types.IsInteger != 0:
				n, _ := core.ConstInt(c)
				if b.Kind() == types.Int || b.Kind() == types.Int64 || b.Kind() == types.UntypedInt {
					return aff{c: n}
				}
				w, _ := core.WidthOf(c.Type())
				return aBits{core.ConstBits(uint64(n), w)}
			}
		}
		return aOpaque{"const"}
	}
	if g, ok := v.(*ssa.Global); ok {
		return aOpaque{"global:" + g.Name()}
	}
	if f, ok := v.(*ssa.Function); ok {
		return f
	}
	r, ok := env[v]
	if !ok {
		it.fail("value %s used before definition", v.Name())
		return aOpaque{"undef"}
	}
	return r
}

func copyStruct(v any) any {
	if s, ok := v.(*aStruct); ok {
		n := &aStruct{f: make([]any, len(s.f))}
		copy(n.f, s.f)
		return n
	}
	return v
}

func (it *interp) store(addr, v any) {
	p, ok := addr.(aPtr)
	if !ok {
		it.fail("store through a non-pointer abstract value %T", addr)
		return
	}
	if p.cell != nil {
		p.cell.v = copyStruct(v)
		return
	}
	p.arr.cells[p.idx] = v
}

func (it *interp) load(addr any) any {
	p, ok := addr.(aPtr)
	if !ok {
		if o, ok := addr.(aOpaque); ok {
			return aOpaque{"load " + o.what}
		}
		it.fail("load through a non-pointer abstract value %T", addr)
		return aOpaque{"load"}
	}
	if p.cell != nil {
		return copyStruct(p.cell.v)
	}
	if p.arr.elems != nil {
		return p.arr.elems[p.idx]
	}
	if v, ok := p.arr.cells[p.idx]; ok {
		return v
	}
	if p.arr.fresh {
		return aBits{core.ConstBits(0, 8)}
	}
	return aBits{core.SrcBits(fmt.Sprintf("%s[%d]", p.arr.name, p.idx), 8)}
}

func (it *interp) eval(env map[ssa.Value]any, v ssa.Value) any {
	switch x := v.(type) {
	case *ssa.Alloc:
		return aPtr{cell: &aCell{v: zeroOf(x.Type().(*types.Pointer).Elem())}}
	case *ssa.UnOp:
		a := it.val(env, x.X)
		switch x.Op {
		case token.MUL:
			return it.load(a)
		case token.NOT:
			if b, ok := a.(aBool); ok {
				return !b
			}
		}
		it.fail("unsupported unary %s on %T", x.Op, a)
	case *ssa.FieldAddr:
		p, ok := it.val(env, x.X).(aPtr)
		if !ok || p.cell == nil {
			it.fail("field address of non-struct pointer")
			return aOpaque{"fa"}
		}
		s, ok := p.cell.v.(*aStruct)
		if !ok {
			it.fail("field address of %T", p.cell.v)
			return aOpaque{"fa"}
		}
		// a cell aliasing the field: write-through is not needed by the analysed code (no field stores)
		return aPtr{cell: &aCell{v: s.f[x.Field]}}
	case *ssa.Field:
		s, ok := it.val(env, x.X).(*aStruct)
		if !ok {
			it.fail("field of %T", it.val(env, x.X))
			return aOpaque{"field"}
		}
		return s.f[x.Field]
	case *ssa.IndexAddr:
		base := it.val(env, x.X)
		idx, ok := it.val(env, x.Index).(aff)
		sl, ok2 := base.(aSlice)
		if !ok || !ok2 || idx.k != 0 {
			it.fail("index address with non-constant index or non-slice base (%T[%v])", base, it.val(env, x.Index))
			return aOpaque{"ia"}
		}
		// bounds: 0 <= idx < len
		if idx.c < 0 || !sl.len.sub(idx).sub(aff{c: 1}).geq0() {
			it.oob = append(it.oob, fmt.Sprintf("%s: index %v not provably below length %v", x.Parent().Name(), idx, sl.len))
		}
		if sl.off.k != 0 {
			it.fail("element access at a payload-dependent offset")
			return aOpaque{"ia"}
		}
		return aPtr{arr: sl.arr, idx: sl.off.c + idx.c}
	case *ssa.Slice:
		base := it.val(env, x.X)
		sl, ok := base.(aSlice)
		if !ok {
			it.fail("slice of %T", base)
			return aOpaque{"slice"}
		}
		lo, hi := aff{}, sl.len
		if x.Low != nil {
			lo, ok = it.val(env, x.Low).(aff)
			if !ok {
				it.fail("non-int slice bound")
			}
		}
		if x.High != nil {
			hi, ok = it.val(env, x.High).(aff)
			if !ok {
				it.fail("non-int slice bound")
			}
		}
		if !lo.geq0() || !hi.sub(lo).geq0() || !sl.len.sub(hi).geq0() {
			it.oob = append(it.oob, fmt.Sprintf("%s: slice [%v:%v] not provably within length %v", x.Parent().Name(), lo, hi, sl.len))
		}
		return aSlice{arr: sl.arr, off: sl.off.add(lo), len: hi.sub(lo)}
	case *ssa.BinOp:
		return it.binop(x, it.val(env, x.X), it.val(env, x.Y))
	case *ssa.Convert:
		a := it.val(env, x.X)
		w, isInt := core.WidthOf(x.Type())
		if !isInt {
			break
		}
		tb := x.Type().Underlying().(*types.Basic)
		switch y := a.(type) {
		case aff:
			if tb.Kind() == types.Int || tb.Kind() == types.Int64 {
				return y
			}
			if y.k == 0 {
				return aBits{core.ConstBits(uint64(y.c), w)}
			}
			return affConv{y, w}
		case aBits:
			if tb.Kind() == types.Int || tb.Kind() == types.Int64 {
				if c, ok := y.v.Const(); ok {
					return aff{c: int64(c)}
				}
				it.fail("conversion of a non-constant fixed-width value to int")
				return aOpaque{"conv"}
			}
			return aBits{y.v.Resize(w, false)}
		}
		it.fail("unsupported conversion of %T", a)
	case *ssa.ChangeType:
		return it.val(env, x.X)
	case *ssa.MakeInterface:
		return aIface{typ: x.X.Type(), v: it.val(env, x.X)}
	case *ssa.Call:
		return it.doCall(env, x)
	case *ssa.Extract:
		if t, ok := it.val(env, x.Tuple).(aTuple); ok {
			return t[x.Index]
		}
		return aOpaque{"extract"}
	case *ssa.MakeSlice:
		n, ok := it.val(env, x.Len).(aff)
		if !ok {
			it.fail("make with non-int length")
		}
		return aSlice{arr: &aArr{name: "made", length: n, cells: map[int64]any{}, fresh: true}, len: n}
	}
	it.fail("unsupported value %T (%s)", v, v.String())
	return aOpaque{"unsupported"}
}

func zeroOf(t types.Type) any {
	switch u := t.Underlying().(type) {
	case *types.Struct:
		s := &aStruct{f: make([]any, u.NumFields())}
		for i := range s.f {
			s.f[i] = zeroOf(u.Field(i).Type())
		}
		return s
	case *types.Basic:
		if u.Info()&types.IsBoolean != 0 {
			return aBool(false)
		}
		if u.Kind() == types.Int || u.Kind() == types.Int64 {
			return aff{}
		}
		if w, ok := core.WidthOf(t); ok {
			return aBits{core.ConstBits(0, w)}
		}
	}
	return aNil{}
}

func (it *interp) binop(x *ssa.BinOp, a, b any) any {
	if x.Op == token.EQL || x.Op == token.NEQ {
		_, an := a.(aNil)
		_, bn := b.(aNil)
		_, ai := a.(aIface)
		_, bi := b.(aIface)
		switch {
		case an && bn:
			return aBool(x.Op == token.EQL)
		case (an && bi) || (ai && bn):
			return aBool(x.Op == token.NEQ)
		}
	}
	switch l := a.(type) {
	case aff:
		r, ok := b.(aff)
		if !ok {
			break
		}
		switch x.Op {
		case token.ADD:
			return l.add(r)
		case token.SUB:
			return l.sub(r)
		case token.AND_NOT:
			if l.k == 0 && r.k == 0 {
				return aff{c: l.c &^ r.c}
			}
		case token.AND:
			if l.k == 0 && r.k == 0 {
				return aff{c: l.c & r.c}
			}
		case token.OR:
			if l.k == 0 && r.k == 0 {
				return aff{c: l.c | r.c}
			}
		case token.XOR:
			if l.k == 0 && r.k == 0 {
				return aff{c: l.c ^ r.c}
			}
		case token.SHL:
			if l.k == 0 && r.k == 0 && r.c >= 0 && r.c < 32 {
				return aff{c: l.c << uint(r.c)}
			}
		case token.SHR:
			if l.k == 0 && r.k == 0 && r.c >= 0 && r.c < 63 {
				return aff{c: l.c >> uint(r.c)}
			}
		case token.QUO:
			if l.k == 0 && r.k == 0 && r.c != 0 {
				return aff{c: l.c / r.c}
			}
		case token.REM:
			if l.k == 0 && r.k == 0 && r.c != 0 {
				return aff{c: l.c % r.c}
			}
		case token.MUL:
			if r.k == 0 {
				return aff{l.c * r.c, l.k * r.c}
			}
			if l.k == 0 {
				return aff{r.c * l.c, r.k * l.c}
			}
		case token.LSS, token.LEQ, token.GTR, token.GEQ, token.EQL, token.NEQ:
			d := r.sub(l) // r - l
			switch x.Op {
			case token.LSS: // l < r  <=> d > 0
				if d.sub(aff{c: 1}).geq0() {
					return aBool(true)
				}
				if (aff{-d.c, -d.k}).geq0() {
					return aBool(false)
				}
			case token.GEQ:
				if (aff{-d.c, -d.k}).geq0() {
					return aBool(true)
				}
				if d.sub(aff{c: 1}).geq0() {
					return aBool(false)
				}
			case token.GTR: // l > r <=> -d > 0
				if (aff{-d.c - 1, -d.k}).geq0() {
					return aBool(true)
				}
				if d.geq0() {
					return aBool(false)
				}
			case token.LEQ:
				if d.geq0() {
					return aBool(true)
				}
				if (aff{-d.c - 1, -d.k}).geq0() {
					return aBool(false)
				}
			case token.EQL:
				if d.c == 0 && d.k == 0 {
					return aBool(true)
				}
				if d.k == 0 {
					return aBool(false)
				}
			case token.NEQ:
				if d.c == 0 && d.k == 0 {
					return aBool(false)
				}
				if d.k == 0 {
					return aBool(true)
				}
			}
			it.fail("comparison %v %s %v is not decided for every payload length", l, x.Op, r)
			return aOpaque{"cmp"}
		}
	case aBits:
		var r core.BitVec
		switch y := b.(type) {
		case aBits:
			r = y.v
		case aff:
			if y.k == 0 {
				r = core.ConstBits(uint64(y.c), 64)
			}
		}
		if r == nil {
			break
		}
		switch x.Op {
		case token.AND:
			return aBits{l.v.And(r)}
		case token.OR:
			return aBits{l.v.Or(r)}
		case token.XOR:
			return aBits{l.v.Xor(r)}
		case token.AND_NOT:
			return aBits{l.v.AndNot(r)}
		case token.ADD:
			return aBits{l.v.Add(r.Resize(len(l.v), false))}
		case token.SHL, token.SHR:
			n, ok := r.Const()
			if !ok {
				break
			}
			if x.Op == token.SHL {
				return aBits{l.v.Shl(int(n))}
			}
			return aBits{l.v.Shr(int(n))}
		case token.EQL, token.NEQ:
			lc, ok1 := l.v.Const()
			rc, ok2 := r.Const()
			if ok1 && ok2 {
				return aBool((lc == rc) == (x.Op == token.EQL))
			}
			it.fail("comparison of non-constant flag bits")
			return aOpaque{"cmp"}
		}
	}
	it.fail("unsupported binary %s on %T,%T", x.Op, a, b)
	return aOpaque{"binop"}
}

func (it *interp) doCall(env map[ssa.Value]any, c *ssa.Call) any {
	cc := c.Common()
	var args []any
	for _, a := range cc.Args {
		args = append(args, it.val(env, a))
	}
	if bi, ok := cc.Value.(*ssa.Builtin); ok {
		switch bi.Name() {
		case "len":
			switch s := args[0].(type) {
			case aSlice:
				return s.len
			case aNil:
				return aff{}
			}
		case "copy":
			d, ok1 := args[0].(aSlice)
			s, ok2 := args[1].(aSlice)
			if ok1 && ok2 {
				// n = min(len(d), len(s)); require len(d) >= len(s) for every L so that n = len(s)
				n := s.len
				if !d.len.sub(s.len).geq0() {
					it.oob = append(it.oob, fmt.Sprintf("copy: destination length %v is not provably >= source length %v (payload would be cut)", d.len, s.len))
					n = d.len
				}
				d.arr.copies = append(d.arr.copies, aCopy{off: d.off, n: n, src: s.arr.name})
				return n
			}
		}
		it.fail("unsupported builtin %s", bi.Name())
		return aOpaque{"builtin"}
	}
	if cc.IsInvoke() {
		recv, ok := it.val(env, cc.Value).(aIface)
		if !ok {
			it.fail("interface call on unknown dynamic type")
			return aOpaque{"invoke"}
		}
		m := it.prog.LookupMethod(recv.typ, cc.Method.Pkg(), cc.Method.Name())
		if m == nil {
			it.fail("method %s not found on %s", cc.Method.Name(), recv.typ)
			return aOpaque{"invoke"}
		}
		return it.call(m, append([]any{recv.v}, args...))
	}
	callee := cc.StaticCallee()
	if callee == nil {
		it.fail("dynamic call")
		return aOpaque{"dyn"}
	}
	if order, op, w, ok := core.EndianCall(core.Callee(c)); ok && op == "PutUint" {
		// args: recv(byteorder), buf, value
		sl, ok := args[1].(aSlice)
		if !ok || sl.off.k != 0 {
			it.fail("PutUint into a non-constant offset")
			return nil
		}
		n := int64(w / 8)
		if !sl.len.sub(aff{c: n}).geq0() {
			it.oob = append(it.oob, fmt.Sprintf("PutUint%d: buffer length %v not provably >= %d", w, sl.len, n))
		}
		for i := int64(0); i < n; i++ {
			byteIdx := int(i) // little: byte i of value at offset i
			if order == "big" {
				byteIdx = int(n - 1 - i)
			}
			var cell any
			switch y := args[2].(type) {
			case aBits:
				cell = aBits{y.v.Shr(8*byteIdx).Resize(8, false)}
			case affConv:
				cell = affByte{y.a, byteIdx, y.width}
			default:
				it.fail("PutUint of %T", args[2])
			}
			sl.arr.cells[sl.off.c+i] = cell
		}
		return nil
	}
	if callee.Blocks != nil && callee.Pkg != nil && callee.Pkg.Pkg.Path() == pkgGtpv1 {
		return it.call(callee, args)
	}
	it.fail("call to %s is outside the interpreted package", callee.String())
	return aOpaque{"extcall"}
}
