package rules

import (
	"fmt"
	"go/token"
	"go/types"

	"golang.org/x/tools/go/ssa"

	"upfcheck/internal/core"
)

func init() { Registry["C04"] = C04 }

func C04(c *core.Ctx) {
	c.Explain = "Decided as an inductive invariant of the session table (LocalNode.sess) and the free list (LocalNode.free); every writer of the two " +
		"fields is enumerated and checked, so the invariant covers all establishment/deletion/re-association histories: (R1) every index/slice " +
		"expression on the two fields is in bounds for every 64-bit SEID — proven by the Go compiler's prove pass (bounds oracle) or by a named " +
		"idiom with checked side conditions (last-element, guard stability, free-list element); (R2) allocation and lookup use the same offset " +
		"(slot = SEID-1, SEID assigned from the table length only after the append); (R3) every element read from the table is nil-tested before " +
		"use or return; (R4) free-list invariant: ids are pushed only in LocalNode.DeleteSess, once, under (SEID != 0, SEID <= len, slot non-nil), " +
		"after Close() returned and the slot was cleared; popped only paired with truncation at the same index; the table is only appended to, or reset " +
		"together with the free list after closing all sessions; (R5) in the modification and deletion handlers the lookup-failed edge builds the " +
		"response with cause 'session context not found' and SEID 0, sends it and returns without calling anything else of go-upf; (R6) the local " +
		"table is only reached through the owning RemoteNode (membership-guarded forwarding, who-may-call)."
	c.Undec = []string{"uniqueness of SEIDs across process restarts", "that a peer may only address its own sessions on modification/deletion (the code does not check; the statement does not ask)"}
	c.Assume = []string{"Go compiler prove pass (go build -d=ssa/check_bce) is sound: an index expression it does not report cannot fail its bounds check",
		"call graph (CHA+VTA) over-approximates calls", "state confinement to the event loop (C17) — no concurrent writer of the table"}
	p := c.P
	sessF, freeF := p.Field(pkgPfcp, "LocalNode", "sess"), p.Field(pkgPfcp, "LocalNode", "free")
	localID := p.Field(pkgPfcp, "Sess", "LocalID")
	if sessF == nil || freeF == nil || localID == nil {
		c.Anchor("R1", "pfcp.LocalNode.{sess,free} / pfcp.Sess.LocalID")
		return
	}
	bd, err := newBounds(c)
	if err != nil {
		c.Anchor("R1", err.Error())
		return
	}

	// R1: every index/slice site on the two fields, in all own functions
	nSites := 0
	for _, fn := range p.OwnFuncs() {
		for _, site := range p.IndexSites(fn, bd.bce) {
			in := core.InstrAt(fn, site.Lbrack)
			if in == nil {
				continue
			}
			x, _, _, _, _ := indexParts(in)
			_, f, ok := core.LoadedField(x)
			if !ok || (f != sessF && f != freeF) {
				continue
			}
			nSites++
			key := fmt.Sprintf("index:%s:%s#%d", core.FnName(fn), f.Name(), ordinal(p, fn, bd, site, f))
			if site.Proven {
				c.Check("R1", key, site.Lbrack, true, "proven in bounds by the compiler's prove pass")
				continue
			}
			ok, how := bd.discharge(c, site)
			c.Check("R1", key, site.Lbrack, ok, how)
		}
	}
	c.Floor("R1", nSites, 6, "index sites on the session table / free list")

	c04Offsets(c, sessF, freeF, localID)
	nilSlotDiscipline(c, "R3", sessF, nil)
	freeListLemma(c, true)
	c04NotFound(c)
	// R6: ownership of SEIDs between the table and the nodes, and - "already released ... is answered
	// 'session context not found'" - every way a session ends releases its SEID (session-end paths shared
	// with C01 R6; they include the ownership rules)
	c01EndPaths(c, "R6", false)
	// "... re-issued only after its previous session has been removed completely": Close() withdraws the rules through
	// the Sess.Remove<K> methods, which therefore must reach the data plane for every recorded id (C01 R9)
	shareFrom(c, "C01", "R6", func(o *core.Obligation) bool { return o.Rule == "R9" }, 5, "removal methods that always reach the data plane")
	// ... and Close() walks every one of the five id sets (C01 R5): a set that is skipped leaves its rules installed
	// under a SEID that is about to be re-issued
	if calls, _ := driverCalls(c); calls != nil {
		sets := idSets(c, calls)
		renameRule(c, "R5", "R6", func() { c01Close(c, sets) })
	}
}

// ordinal numbers the sites on field f within fn in source order (stable key without line numbers).
func ordinal(p *core.Program, fn *ssa.Function, bd *bounds, site core.IndexSite, f *types.Var) int {
	n := 0
	for _, s := range p.IndexSites(fn, bd.bce) {
		in := core.InstrAt(fn, s.Lbrack)
		if in == nil {
			continue
		}
		x, _, _, _, _ := indexParts(in)
		if _, g, ok := core.LoadedField(x); ok && g == f {
			n++
			if s.Lbrack == site.Lbrack {
				return n
			}
		}
	}
	return 0
}

// R2 offset agreement.
func c04Offsets(c *core.Ctx, sessF, freeF, localID *types.Var) {
	p := c.P
	// every explicit index into the table is (v - 1) with v a SEID: parameter of type uint64 or a LocalID / free element
	for _, fn := range p.OwnFuncs() {
		core.Instrs(fn, func(in ssa.Instruction) {
			ia, ok := in.(*ssa.IndexAddr)
			if !ok || !ia.Pos().IsValid() {
				return
			}
			if _, f, ok := core.LoadedField(ia.X); !ok || f != sessF {
				return
			}
			if _, isPhi := ia.Index.(*ssa.Phi); isPhi {
				return // range loop index
			}
			if bo, ok := ia.Index.(*ssa.BinOp); ok && bo.Op == token.ADD {
				if _, isPhi := bo.X.(*ssa.Phi); isPhi {
					return // rangeindex: k+1
				}
			}
			okOff := false
			var src string
			if sub, ok := ia.Index.(*ssa.BinOp); ok && sub.Op == token.SUB {
				if one, ok := core.ConstInt(sub.Y); ok && one == 1 {
					v := sub.X
					if cv, ok := v.(*ssa.Convert); ok {
						v = cv.X
					}
					switch y := v.(type) {
					case *ssa.Parameter:
						okOff, src = types.Identical(y.Type(), types.Typ[types.Uint64]), "parameter "+y.Name()
					default:
						if _, f, ok := core.LoadedField(v); ok && f == localID {
							okOff, src = true, "Sess.LocalID"
						}
						// ... or the very value that has just been stored as some session's LocalID
						if !okOff && v.Referrers() != nil {
							var flows func(x ssa.Value, depth int) bool
							flows = func(x ssa.Value, depth int) bool {
								if depth > 3 || x.Referrers() == nil {
									return false
								}
								for _, r := range *x.Referrers() {
									switch y := r.(type) {
									case *ssa.Store:
										if fa, isFa := y.Addr.(*ssa.FieldAddr); isFa && y.Val == x && core.FieldOfAddr(fa) == localID {
											return true
										}
									case *ssa.Phi:
										if flows(y, depth+1) {
											return true
										}
									}
								}
								return false
							}
							if flows(v, 0) {
								okOff, src = true, "Sess.LocalID"
							}
						}
					}
				}
			}
			c.Check("R2", "offset:"+core.FnName(fn)+":"+src, ia.Pos(), okOff, "table slot index is SEID-1 (SEID = "+src+")")
		})
	}
	// LocalID is assigned only in LocalNode.NewSess, from a free-list element or from len(table) after the append
	nStores := 0
	for _, fn := range p.OwnFuncs() {
		for _, st := range storesToField(fn, localID) {
			// one store of a merged value (s.LocalID = n.place(s), both ways of choosing the id joined in a phi)
			// is judged edge by edge
			vals := []ssa.Value{st.Val}
			if ph, isPhi := st.Val.(*ssa.Phi); isPhi {
				vals = ph.Edges
			}
			for _, v := range vals {
				nStores++
				isNew := fn == p.SSAFn(p.Method(pkgPfcp, "LocalNode", "NewSess"))
				desc, ok := "", false
				if cv, ok2 := v.(*ssa.Convert); ok2 {
					v = cv.X
				}
				if ld, ok2 := v.(*ssa.UnOp); ok2 && ld.Op == token.MUL {
					if ia, ok3 := ld.X.(*ssa.IndexAddr); ok3 {
						if _, f, ok4 := core.LoadedField(ia.X); ok4 && f == freeF {
							ok, desc = true, "a released id popped from the free list"
						}
					}
				}
				if lc, ok2 := v.(*ssa.Call); ok2 {
					if bi, ok3 := lc.Call.Value.(*ssa.Builtin); ok3 && bi.Name() == "len" {
						if _, f, ok4 := core.LoadedField(lc.Call.Args[0]); ok4 && f == sessF {
							// the load must come after the append-store in the same function
							after := false
							for _, ast := range storesToField(fn, sessF) {
								if isAppendTo(ast.Val, sessF) && core.InstrDominates(ast, lc) && appendsValue(ast.Val, st.Addr.(*ssa.FieldAddr).X) {
									after = true
								}
							}
							ok, desc = after, "len(table) read after the session itself was appended (slot = SEID-1, SEID >= 1)"
						}
					}
				}
				c.Check("R2", fmt.Sprintf("localid-store:%s#%d", core.FnName(fn), nStores), st.Pos(), ok && isNew,
					"UP SEID assigned in LocalNode.NewSess from "+desc)
			}
		}
	}
	c.Floor("R2", nStores, 2, "stores to Sess.LocalID")
}

// appendsValue: call is append(x, v...) whose appended element is `val`.
func appendsValue(call ssa.Value, val ssa.Value) bool {
	c, ok := call.(*ssa.Call)
	if !ok || len(c.Call.Args) != 2 {
		return false
	}
	sl, ok := c.Call.Args[1].(*ssa.Slice)
	if !ok {
		return false
	}
	al, ok := sl.X.(*ssa.Alloc)
	if !ok {
		return false
	}
	found := false
	for _, r := range *al.Referrers() {
		if ia, ok := r.(*ssa.IndexAddr); ok {
			for _, u := range *ia.Referrers() {
				if st, ok := u.(*ssa.Store); ok && st.Val == val {
					found = true
				}
			}
		}
	}
	return found
}

// nilSlotDiscipline (C04 R3 / C07 P2): every element read from the session table is compared with
// nil before it is dereferenced, passed as a receiver, or returned.  `scope` (may be nil) restricts
// the functions looked at.
func nilSlotDiscipline(c *core.Ctx, rule string, sessF *types.Var, scope map[*ssa.Function]bool) {
	p := c.P
	n := 0
	for _, fn := range p.OwnFuncs() {
		if scope != nil && !scope[fn] {
			continue
		}
		core.Instrs(fn, func(in ssa.Instruction) {
			ld, ok := in.(*ssa.UnOp)
			if !ok || ld.Op != token.MUL {
				return
			}
			ia, ok := ld.X.(*ssa.IndexAddr)
			if !ok {
				return
			}
			if _, f, ok := core.LoadedField(ia.X); !ok || f != sessF {
				return
			}
			n++
			k := 0
			for _, r := range *ld.Referrers() {
				var use string
				switch u := r.(type) {
				case *ssa.FieldAddr:
					if u.X == ssa.Value(ld) {
						use = "field " + core.FieldOfAddr(u).Name()
					}
				case ssa.CallInstruction:
					if rv := core.CallRecv(u); rv == ssa.Value(ld) {
						use = "method " + core.Callee(u).Name()
					} else {
						for _, a := range u.Common().Args {
							if a == ssa.Value(ld) {
								use = "argument of a call"
							}
						}
					}
				case *ssa.Return:
					use = "return"
				case *ssa.Store:
					if u.Val == ssa.Value(ld) {
						use = "stored"
					}
				case *ssa.Phi:
					use = "merged (phi)"
				}
				if use == "" {
					continue
				}
				k++
				if ph, isPhi := r.(*ssa.Phi); isPhi {
					// results of an expanded helper merge here: the element arrives on an edge where it is known
					// non-nil, and the merged value is only handed out (returned), never dereferenced
					okEdges := true
					for j, e := range ph.Edges {
						if e == ssa.Value(ld) && !core.NilKnownAt(ph.Block().Preds[j], ld, false) {
							okEdges = false
						}
					}
					onlyReturned := ph.Referrers() != nil
					if onlyReturned {
						for _, u := range *ph.Referrers() {
							switch u.(type) {
							case *ssa.Return, *ssa.DebugRef:
							default:
								onlyReturned = false
							}
						}
					}
					if okEdges && onlyReturned {
						c.Check(rule, fmt.Sprintf("nil-slot:%s:%s#%d", core.FnName(fn), "return", k), r.Pos(), true,
							"session-table element is known non-nil on the edge that carries it to the returned value")
						continue
					}
				}
				c.Check(rule, fmt.Sprintf("nil-slot:%s:%s#%d", core.FnName(fn), use, k), r.Pos(),
					slotNonNilAt(p, r, ld, sessF),
					"session-table element is known non-nil (dominating nil test on the same value) before: "+use)
			}
		})
	}
	if scope == nil {
		c.Floor(rule, n, 3, "element reads of the session table")
	}
}

// freeListLemma checks C04 R4.  With report=false it only returns the verdict (used by C07).
func freeListLemma(c *core.Ctx, report bool) (bool, string) {
	p := c.P
	sessF, freeF := p.Field(pkgPfcp, "LocalNode", "sess"), p.Field(pkgPfcp, "LocalNode", "free")
	allOK := true
	var firstWhy string
	chk := func(key string, pos token.Pos, ok bool, desc string) {
		if report {
			c.Check("R4", key, pos, ok, desc)
		}
		if !ok {
			allOK = false
			if firstWhy == "" {
				firstWhy = key + ": " + desc
			}
		}
	}
	closeM := p.Method(pkgPfcp, "Sess", "Close")
	nPush, nPop, nTable := 0, 0, 0
	for _, fn := range p.OwnFuncs() {
		name := core.FnName(fn)
		for _, st := range storesToField(fn, freeF) {
			switch {
			case isAppendTo(st.Val, freeF):
				nPush++
				// pushed value is the parameter, guarded
				call := st.Val.(*ssa.Call)
				pushed := pushedValue(call)
				par, isPar := pushed.(*ssa.Parameter)
				chk("push-site:"+name, st.Pos(), fn == p.SSAFn(p.Method(pkgPfcp, "LocalNode", "DeleteSess")) && isPar,
					"ids are pushed on the free list only by LocalNode.DeleteSess, and the id pushed is its SEID parameter")
				if !isPar {
					continue
				}
				iv := core.EvalInt(par, st.Block())
				chk("push-nonzero:"+name, st.Pos(), iv.Lo >= 1, fmt.Sprintf("pushed SEID is known != 0 (interval [%d,..])", iv.Lo))
				chk("push-inrange:"+name, st.Pos(), knownLeqLen(st.Block(), par, sessF), "pushed SEID is known <= len(table)")
				// slot read with index par-1, nil-tested, closed, cleared — all dominating the push
				var slotLoads []*ssa.UnOp
				var cleared *ssa.Store
				core.Instrs(fn, func(in ssa.Instruction) {
					switch x := in.(type) {
					case *ssa.UnOp:
						if ia, ok := x.X.(*ssa.IndexAddr); ok && x.Op == token.MUL && isSeidSlot(ia, par, sessF) {
							slotLoads = append(slotLoads, x)
						}
					case *ssa.Store:
						if ia, ok := x.Addr.(*ssa.IndexAddr); ok && isSeidSlot(ia, par, sessF) && core.IsNilConst(x.Val) {
							cleared = x
						}
					}
				})
				nonNil, closed := false, false
				var closeCall ssa.Instruction
				for _, ld := range slotLoads {
					if core.NilKnownAt(st.Block(), ld, false) {
						nonNil = true
					}
					for _, r := range *ld.Referrers() {
						if ci, ok := r.(ssa.CallInstruction); ok && core.Callee(ci) == closeM && core.CallRecv(ci) == ssa.Value(ld) && core.InstrDominates(ci, st) {
							closed, closeCall = true, ci
						}
					}
				}
				chk("push-slot-live:"+name, st.Pos(), nonNil, "the slot is known non-nil before release (a second release of the same SEID fails this test: pushed once)")
				chk("push-after-close:"+name, st.Pos(), closed, "Sess.Close() of the slot's session returned before the id is released")
				chk("push-slot-cleared:"+name, st.Pos(), cleared != nil && core.InstrDominates(cleared, st) && (closeCall == nil || core.InstrDominates(closeCall, cleared)),
					"the slot is set to nil after Close() and before the id becomes reusable")
			case isEmptySlice(st.Val):
				// reset: must come with a reset of the table in the same function
				tableReset := false
				for _, s2 := range storesToField(fn, sessF) {
					if isEmptySlice(s2.Val) {
						tableReset = true
					}
				}
				chk("free-reset:"+name, st.Pos(), tableReset, "free list emptied together with the table")
			default:
				nPop++
				// n.free = n.free[:k] paired with an element read n.free[k] at the same index value
				sl, ok := st.Val.(*ssa.Slice)
				paired := false
				if ok && sl.Low == nil && sl.High != nil {
					if _, f, ok := core.LoadedField(sl.X); ok && f == freeF {
						core.Instrs(fn, func(in ssa.Instruction) {
							if ia, ok := in.(*ssa.IndexAddr); ok && ia.Index == sl.High && core.InstrDominates(ia, st) {
								if _, f2, ok := core.LoadedField(ia.X); ok && f2 == freeF {
									paired = true
								}
							}
						})
					}
				}
				chk("pop-paired:"+name, st.Pos(), paired, "free list is shortened to [:k] exactly where element [k] is handed out (same index value)")
			}
		}
		for _, st := range storesToField(fn, sessF) {
			nTable++
			switch {
			case isAppendTo(st.Val, sessF):
				chk("table-append:"+name, st.Pos(), fn == p.SSAFn(p.Method(pkgPfcp, "LocalNode", "NewSess")), "table grows only in LocalNode.NewSess")
			case isEmptySlice(st.Val):
				freeReset := false
				for _, s2 := range storesToField(fn, freeF) {
					if isEmptySlice(s2.Val) {
						freeReset = true
					}
				}
				// all sessions closed first: a Close() call on a table element dominates... (loop) — require a Close call in fn
				closes := len(core.Calls(fn, closeM)) > 0
				chk("table-reset:"+name, st.Pos(), freeReset && closes, "table reset only together with the free list, after closing the sessions")
			default:
				chk("table-store:"+name, st.Pos(), false, "the session table is assigned something that is neither an append nor a reset")
			}
		}
	}
	if report {
		c.Floor("R4", nPush, 1, "free-list pushes")
		c.Floor("R4", nPop, 1, "free-list pops")
		c.Floor("R4", nTable, 1, "table writers")
	}
	if nPush == 0 || nPop == 0 {
		allOK = false
		if firstWhy == "" {
			firstWhy = "free-list push/pop sites not found"
		}
	}
	return allOK, firstWhy
}

func pushedValue(appendCall *ssa.Call) ssa.Value {
	if len(appendCall.Call.Args) != 2 {
		return nil
	}
	sl, ok := appendCall.Call.Args[1].(*ssa.Slice)
	if !ok {
		return nil
	}
	al, ok := sl.X.(*ssa.Alloc)
	if !ok {
		return nil
	}
	var v ssa.Value
	for _, r := range *al.Referrers() {
		if ia, ok := r.(*ssa.IndexAddr); ok {
			for _, u := range *ia.Referrers() {
				if st, ok := u.(*ssa.Store); ok {
					v = st.Val
				}
			}
		}
	}
	return v
}

// isSeidSlot: ia is table[seid-1] on a load of the session table.
func isSeidSlot(ia *ssa.IndexAddr, seid ssa.Value, sessF *types.Var) bool {
	if _, f, ok := core.LoadedField(ia.X); !ok || f != sessF {
		return false
	}
	sub, ok := ia.Index.(*ssa.BinOp)
	if !ok || sub.Op != token.SUB || sub.X != seid {
		return false
	}
	one, ok := core.ConstInt(sub.Y)
	return ok && one == 1
}

// knownLeqLen: a dominating branch established v <= len(field) (as `v > len` false, `v <= len` true, `len < v` false ...).
func knownLeqLen(b *ssa.BasicBlock, v ssa.Value, f *types.Var) bool {
	isLen := func(x ssa.Value) bool {
		if cv, ok := x.(*ssa.Convert); ok {
			x = cv.X
		}
		lc, ok := x.(*ssa.Call)
		if !ok {
			return false
		}
		bi, ok := lc.Call.Value.(*ssa.Builtin)
		if !ok || bi.Name() != "len" {
			return false
		}
		_, g, ok := core.LoadedField(lc.Call.Args[0])
		return ok && g == f
	}
	for _, ft := range core.FactsAt(b) {
		cmp, ok := ft.V.(*ssa.BinOp)
		if !ok {
			continue
		}
		switch {
		case cmp.X == v && isLen(cmp.Y):
			if (cmp.Op == token.GTR && !ft.True) || (cmp.Op == token.LEQ && ft.True) || (cmp.Op == token.LSS && ft.True) {
				return true
			}
		case cmp.Y == v && isLen(cmp.X):
			if (cmp.Op == token.LSS && !ft.True) || (cmp.Op == token.GEQ && ft.True) || (cmp.Op == token.GTR && ft.True) {
				return true
			}
		}
	}
	return false
}

// R5: not-found answer without side effect.
func c04NotFound(c *core.Ctx) {
	p := c.P
	sessLookup := p.Method(pkgPfcp, "LocalNode", "Sess")
	sendRsp := p.Method(pkgPfcp, "PfcpServer", "sendRspTo")
	newCause := p.Func(core.PkgIE, "NewCause")
	for _, h := range []struct{ handler, ctor string }{
		{"handleSessionModificationRequest", "NewSessionModificationResponse"},
		{"handleSessionDeletionRequest", "NewSessionDeletionResponse"},
	} {
		fn := fnOf(c, "R5", pkgPfcp, "PfcpServer", h.handler)
		if fn == nil {
			continue
		}
		sendSites := map[ssa.Instruction]bool{}
		for _, rs := range p.CallsThrough(fn, sendRsp, 2) {
			sendSites[rs.Site.(ssa.Instruction)] = true
		}
		lookups := core.Calls(fn, sessLookup)
		if len(lookups) != 1 {
			c.Undecided("R5", "lookup:"+h.handler, fn.Pos(), fmt.Sprintf("expected one LocalNode.Sess lookup, found %d", len(lookups)))
			continue
		}
		lk := lookups[0].(*ssa.Call)
		// lookup key is the request header SEID
		arg := core.CallArgs(lk)[0]
		keyOK := false
		if ac, ok := arg.(*ssa.Call); ok {
			if f := core.Callee(ac); f != nil && f.Name() == "SEID" && core.CallRecv(ac) != nil {
				keyOK = rootIsParam(core.CallRecv(ac), core.Param(fn, 0))
			}
		}
		c.Check("R5", "lookup-key:"+h.handler, lk.Pos(), keyOK, "the session is looked up by the request's header SEID")
		var errV ssa.Value
		for _, r := range *lk.Referrers() {
			if ex, ok := r.(*ssa.Extract); ok && ex.Index == 1 {
				errV = ex
			}
		}
		if errV == nil {
			c.Undecided("R5", "lookup-err:"+h.handler, lk.Pos(), "lookup error is not extracted")
			continue
		}
		// blocks on the err != nil edge
		nBlocks, hasRsp, hasSend, hasRet := 0, false, false, false
		for _, b := range fn.Blocks {
			if !core.NilKnownAt(b, errV, false) {
				continue
			}
			nBlocks++
			for _, in := range b.Instrs {
				switch x := in.(type) {
				case ssa.CallInstruction:
					f := core.Callee(x)
					switch {
					case f != nil && core.IsPkgFunc(f, core.PkgMessage, h.ctor):
						hasRsp = true
						args := x.Common().Args
						seid, ok := core.ConstInt(args[2])
						c.Check("R5", "notfound-seid:"+h.handler, x.Pos(), ok && seid == 0, "not-found response carries header SEID 0")
						c.Check("R5", "notfound-seq:"+h.handler, x.Pos(), isReqSeq(args[3], core.Param(fn, 0)), "not-found response echoes the request's sequence number")
						c.Check("R5", "notfound-cause:"+h.handler, x.Pos(), hasCause(x, newCause, 65), "not-found response carries cause 65 (session context not found)")
					case f == sendRsp || sendSites[in]:
						hasSend = true
					case f != nil && p.IsOwn(f.Pkg()):
						c.Check("R5", "notfound-effect:"+h.handler+":"+f.Name(), x.Pos(), false,
							"the lookup-failed path calls go-upf function "+f.Name()+" (must only build and send the response)")
					}
				case *ssa.Return:
					hasRet = true
				case *ssa.Store:
					if _, isAlloc := rootAlloc(x.Addr); !isAlloc {
						c.Check("R5", "notfound-store:"+h.handler, x.Pos(), false, "the lookup-failed path writes to non-local memory")
					}
				case *ssa.MapUpdate:
					c.Check("R5", "notfound-mapupdate:"+h.handler, x.Pos(), false, "the lookup-failed path updates a map")
				}
			}
			// no edge from the failed path back into the success path
			for _, s := range b.Succs {
				if !core.NilKnownAt(s, errV, false) {
					c.Check("R5", "notfound-falls-through:"+h.handler, b.Instrs[len(b.Instrs)-1].Pos(), false, "the lookup-failed path continues into the success path")
				}
			}
		}
		c.Check("R5", "notfound-shape:"+h.handler, lk.Pos(), nBlocks > 0 && hasRsp && hasSend && hasRet,
			"the lookup-failed edge builds the response, sends it through sendRspTo and returns")
		// and every other go-upf call in the handler is on the err == nil side
		core.Instrs(fn, func(in ssa.Instruction) {
			ci, ok := in.(ssa.CallInstruction)
			if !ok || in == ssa.Instruction(lk) {
				return
			}
			f := core.Callee(ci)
			if f == nil || !p.IsOwn(f.Pkg()) || f == sendRsp || sendSites[in] {
				return
			}
			if core.NilKnownAt(in.Block(), errV, false) {
				return // reported above
			}
			if f.Name() == "SEID" {
				return
			}
			c.Check("R5", "effect-guarded:"+h.handler+":"+f.Name(), ci.Pos(), core.NilKnownAt(in.Block(), errV, true) || core.InstrDominates(in, lk),
				"go-upf call "+f.Name()+" runs only when the lookup succeeded")
		})
	}
}

func rootAlloc(v ssa.Value) (*ssa.Alloc, bool) {
	for {
		switch x := v.(type) {
		case *ssa.Alloc:
			return x, true
		case *ssa.FieldAddr:
			v = x.X
		case *ssa.IndexAddr:
			v = x.X
		default:
			return nil, false
		}
	}
}

// rootIsParam: v is par, or a field/embedded address chain rooted at par.
func rootIsParam(v ssa.Value, par ssa.Value) bool {
	for i := 0; i < 8; i++ {
		if v == par {
			return true
		}
		switch x := v.(type) {
		case *ssa.FieldAddr:
			v = x.X
		case *ssa.UnOp:
			v = x.X
		case *ssa.Field:
			v = x.X
		case *ssa.ChangeType:
			v = x.X
		case *ssa.MakeInterface:
			v = x.X
		default:
			return false
		}
	}
	return false
}

// isReqSeq: v loads req.Header.SequenceNumber of the handler's request parameter.
func isReqSeq(v ssa.Value, req ssa.Value) bool {
	b, f, ok := core.LoadedField(v)
	if !ok || f.Name() != "SequenceNumber" {
		return false
	}
	return rootIsParam(b, req)
}

// hasCause: the variadic IE arguments of call x contain ie.NewCause(<const code>).
func hasCause(x ssa.CallInstruction, newCause *types.Func, code int64) bool {
	found := false
	var visit func(v ssa.Value, depth int)
	visit = func(v ssa.Value, depth int) {
		if depth > 6 || v == nil {
			return
		}
		switch y := v.(type) {
		case *ssa.Call:
			if core.Callee(y) == newCause {
				if n, ok := core.ConstInt(y.Call.Args[0]); ok && n == code {
					found = true
				}
			}
		case *ssa.Slice:
			visit(y.X, depth+1)
		case *ssa.Alloc:
			for _, r := range *y.Referrers() {
				if ia, ok := r.(*ssa.IndexAddr); ok {
					for _, u := range *ia.Referrers() {
						if st, ok := u.(*ssa.Store); ok {
							visit(st.Val, depth+1)
						}
					}
				}
			}
		}
	}
	for _, a := range x.Common().Args {
		visit(a, 0)
	}
	return found
}

// c04Ownership (C04 R6, shared with C05 R3 / C01 R6): the local table is reached only through the
// owning RemoteNode, under membership in its own set.
func c04Ownership(c *core.Ctx, rule string) {
	p := c.P
	rsess := p.Field(pkgPfcp, "RemoteNode", "sess")
	if rsess == nil {
		c.Anchor(rule, "pfcp.RemoteNode.sess")
		return
	}
	lDel, lNew, lSess := p.Method(pkgPfcp, "LocalNode", "DeleteSess"), p.Method(pkgPfcp, "LocalNode", "NewSess"), p.Method(pkgPfcp, "LocalNode", "Sess")
	rDel, rNew, rSess := p.Method(pkgPfcp, "RemoteNode", "DeleteSess"), p.Method(pkgPfcp, "RemoteNode", "NewSess"), p.Method(pkgPfcp, "RemoteNode", "Sess")
	// who may call
	for _, w := range []struct {
		callee *types.Func
		only   *types.Func
	}{{lDel, rDel}, {lNew, rNew}} {
		if w.callee == nil || w.only == nil {
			c.Anchor(rule, "LocalNode/RemoteNode DeleteSess/NewSess")
			return
		}
		n := 0
		for _, fn := range p.OwnFuncs() {
			for _, cl := range core.Calls(fn, w.callee) {
				n++
				c.Check(rule, "who-calls:LocalNode."+w.callee.Name()+":"+core.FnName(fn), cl.Pos(), fn == p.SSAFn(w.only),
					"LocalNode."+w.callee.Name()+" is called only by RemoteNode."+w.only.Name()+" (which keeps the node's own SEID set in step)")
			}
		}
		c.Floor(rule, n, 1, "callers of LocalNode."+w.callee.Name())
	}
	// membership-guarded forwarding
	for _, w := range []struct {
		outer, inner *types.Func
		del          bool
	}{{rDel, lDel, true}, {rSess, lSess, false}} {
		fn := p.SSAFn(w.outer)
		if fn == nil {
			continue
		}
		for _, cl := range core.Calls(fn, w.inner) {
			id := core.CallArgs(cl)[0]
			guard := false
			var ok ssa.Value
			core.Instrs(fn, func(in ssa.Instruction) {
				if lk, isLk := in.(*ssa.Lookup); isLk && lk.CommaOk && lk.Index == id {
					if _, f, o := core.LoadedField(lk.X); o && f == rsess {
						for _, r := range *lk.Referrers() {
							if ex, isEx := r.(*ssa.Extract); isEx && ex.Index == 1 {
								ok = ex
							}
						}
					}
				}
			})
			if ok != nil && core.KnownAt(cl.Block(), ok, true) {
				guard = true
			}
			c.Check(rule, "member-guard:RemoteNode."+w.outer.Name(), cl.Pos(), guard && id == ssa.Value(core.Param(fn, 0)),
				"forwarded to the local table only when the SEID is in the node's own set, with the same SEID")
			if w.del {
				// the id is removed from the node's own set on the way
				removed := false
				core.Instrs(fn, func(in ssa.Instruction) {
					if dc, isC := in.(*ssa.Call); isC {
						if bi, isB := dc.Call.Value.(*ssa.Builtin); isB && bi.Name() == "delete" && dc.Call.Args[1] == id {
							if _, f, o := core.LoadedField(dc.Call.Args[0]); o && f == rsess && (core.InstrDominates(dc, cl) || core.InstrDominates(cl, dc)) {
								removed = true
							}
						}
					}
				})
				c.Check(rule, "member-removed:RemoteNode.DeleteSess", cl.Pos(), removed, "the released SEID is deleted from the node's own set on the same path")
			}
		}
	}
	c04DeleteArgs(c, rule, rsess, rDel, lSess)
	// a session's owner pointer and the owner's SEID set change together: Sess.rnode is written only where
	// the SEID is entered in that node's set (RemoteNode.NewSess); re-pointing a session elsewhere would
	// leave it in the old node's set and make DeleteSess on the new owner a no-op
	if rnodeF := p.Field(pkgPfcp, "Sess", "rnode"); rnodeF != nil {
		n := 0
		for _, fn := range p.OwnFuncs() {
			for _, st := range storesToField(fn, rnodeF) {
				n++
				c.Check(rule, "owner-writer:"+core.FnName(fn), st.Pos(), fn == p.SSAFn(rNew) && st.Val == ssa.Value(core.Recv(fn)),
					"Sess.rnode is set only by RemoteNode.NewSess, to the node that records the SEID in its own set")
			}
		}
		c.Floor(rule, n, 1, "stores to Sess.rnode")
	} else {
		c.Anchor(rule, "pfcp.Sess.rnode")
	}
	// NewSess records the new SEID in the node's set
	if fn := p.SSAFn(rNew); fn != nil {
		recorded := false
		for _, cl := range core.Calls(fn, lNew) {
			core.Instrs(fn, func(in ssa.Instruction) {
				if mu, ok := in.(*ssa.MapUpdate); ok {
					if _, f, o := core.LoadedField(mu.Map); o && f == rsess {
						if b, g, o2 := core.LoadedField(mu.Key); o2 && g.Name() == "LocalID" && b == cl.Value() {
							if all, _ := dominatesReturns(mu); all {
								recorded = true
							}
						}
					}
				}
			})
			c.Check(rule, "member-added:RemoteNode.NewSess", cl.Pos(), recorded, "the new session's UP SEID is entered in the node's own set on every path")
		}
	}
}

// slotNonNilAt: the table element loaded by ld is known non-nil where `use` executes: by a nil test
// on the very value, or on an earlier load of the same slot (same table field of the same object,
// same index value) when nothing in between can write table slots or shorten the table.
func slotNonNilAt(p *core.Program, use ssa.Instruction, ld *ssa.UnOp, sessF *types.Var) bool {
	if core.NilKnownAt(use.Block(), ld, false) {
		return true
	}
	ia := ld.X.(*ssa.IndexAddr)
	base, _, _ := core.LoadedField(ia.X)
	writers := map[*ssa.Function]bool{}
	for _, fn := range p.OwnFuncs() {
		core.Instrs(fn, func(in ssa.Instruction) {
			if st, ok := in.(*ssa.Store); ok {
				if a, ok := st.Addr.(*ssa.IndexAddr); ok {
					if _, f, ok := core.LoadedField(a.X); ok && f == sessF {
						writers[fn] = true
					}
				}
			}
		})
	}
	for fn := range shrinkers(p, sessF) {
		writers[fn] = true
	}
	found := false
	core.Instrs(ld.Parent(), func(in ssa.Instruction) {
		l1, ok := in.(*ssa.UnOp)
		if !ok || l1 == ld || l1.Op != token.MUL || found {
			return
		}
		a1, ok := l1.X.(*ssa.IndexAddr)
		if !ok || a1.Index != ia.Index {
			return
		}
		b1, f1, ok := core.LoadedField(a1.X)
		if !ok || f1 != sessF || core.Unwrap(b1) != core.Unwrap(base) {
			return
		}
		if !core.InstrDominates(l1, ld) || !core.NilKnownAt(use.Block(), l1, false) {
			return
		}
		for _, x := range between(l1, ld) {
			switch y := x.(type) {
			case *ssa.Store:
				if a, ok := y.Addr.(*ssa.IndexAddr); ok {
					if _, f, ok := core.LoadedField(a.X); ok && f == sessF {
						return
					}
				}
				if a, ok := y.Addr.(*ssa.FieldAddr); ok && core.FieldOfAddr(a) == sessF {
					return
				}
			case ssa.CallInstruction:
				if _, ok := y.Common().Value.(*ssa.Builtin); ok {
					continue
				}
				if reachesAny(p, y, writers) != nil {
					return
				}
			}
		}
		found = true
	})
	return found
}

// c04DeleteArgs: every RemoteNode.DeleteSess call names a UP SEID of the node it is called on: the
// LocalID of a session reached through that session's own rnode, the SEID the session was just looked
// up by, or a key of the node's own set while that set is still in place.
func c04DeleteArgs(c *core.Ctx, rule string, rsess *types.Var, rDel, lSess *types.Func) {
	p := c.P
	remoteSess := p.Method(pkgPfcp, "LocalNode", "RemoteSess")
	n := 0
	for _, fn := range p.OwnFuncs() {
		for _, ci := range core.Calls(fn, rDel) {
			n++
			arg := core.CallArgs(ci)[0]
			recv := core.CallRecv(ci)
			sess, rpath := core.FieldPath(recv)
			why := ""
			ok := false
			switch {
			case len(rpath) == 1 && rpath[0] == "rnode" && core.IsPath(arg, sess, "LocalID"):
				ok, why = true, "the session's own UP SEID, through the session's own node"
			case len(rpath) == 1 && rpath[0] == "rnode":
				// SEID the session was looked up by in the local table
				if ex, isEx := sess.(*ssa.Extract); isEx && ex.Index == 0 {
					if cl, isCl := ex.Tuple.(*ssa.Call); isCl && core.Callee(cl) == lSess && core.CallArgs(cl)[0] == arg {
						ok, why = true, "the UP SEID the session was looked up by"
					} else if isCl && core.Callee(cl) == remoteSess {
						why = "the session was found by its CP SEID; the argument is not that session's UP SEID"
					}
				}
			default:
				if ex, isEx := arg.(*ssa.Extract); isEx && ex.Index == 1 {
					if nx, isNx := ex.Tuple.(*ssa.Next); isNx {
						if rng, isR := nx.Iter.(*ssa.Range); isR && core.IsPath(rng.X, recv, rsess.Name()) {
							ok, why = true, "a key of the node's own SEID set"
						}
					}
				}
			}
			c.Check(rule, fmt.Sprintf("delete-arg:%s#%d", core.FnName(fn), n), ci.Pos(), ok, "RemoteNode.DeleteSess is given a UP SEID of the node it is called on ("+why+")")
		}
	}
	c.Floor(rule, n, 3, "RemoteNode.DeleteSess call sites")
	// DeleteSess consults n.sess: while Reset walks the set it must still be in place
	reset := p.SSAFn(p.Method(pkgPfcp, "RemoteNode", "Reset"))
	dfn := p.SSAFn(rDel)
	if reset == nil || dfn == nil {
		return
	}
	consults := false
	core.Instrs(dfn, func(in ssa.Instruction) {
		if l, ok := in.(*ssa.Lookup); ok && core.IsPath(l.X, core.Recv(dfn), rsess.Name()) {
			consults = true
		}
	})
	if !consults {
		return
	}
	for _, st := range storesToField(reset, rsess) {
		for _, ci := range core.Calls(reset, rDel) {
			c.Check(rule, "reset-set-intact", st.Pos(), !core.Reaches(st, ci.(ssa.Instruction)),
				"RemoteNode.Reset does not replace the node's SEID set before a DeleteSess that consults it (the membership guard would miss and the session would stay installed with its SEID)")
		}
	}
}
