package rules

import (
	"fmt"
	"go/constant"
	"go/token"
	"go/types"
	"reflect"
	"sort"
	"strings"

	"golang.org/x/tools/go/ssa"

	"upfcheck/internal/core"
)

func init() { Registry["C20"] = C20 }

// yaml path -> constraints that must be present in the `valid` tag (DESIGN Appendix A.4)
var cfgTags = []struct {
	path string
	need []string
}{
	{"version", []string{"required", "in(1.0.3)"}},
	{"pfcp", []string{"required"}},
	{"pfcp.addr", []string{"required", "host"}},
	{"pfcp.nodeID", []string{"required", "host"}},
	{"pfcp.retransTimeout", []string{"required"}},
	{"gtpu", []string{"required"}},
	{"gtpu.forwarder", []string{"required", "in(gtp5g)"}},
	{"gtpu.ifList.addr", []string{"required", "host"}},
	{"gtpu.ifList.type", []string{"required", "in(N3|N9)"}},
	{"dnnList", []string{"required"}},
	{"dnnList.dnn", []string{"required"}},
	{"dnnList.cidr", []string{"required", "cidr"}},
	{"logger", []string{"required"}},
	{"logger.level", []string{"required", "in(trace|debug|info|warn|error|fatal|panic)"}},
}

// fieldByYAML finds the struct field of t whose yaml key is `key`.
func fieldByYAML(t types.Type, key string) (*types.Var, string) {
	for {
		switch u := t.(type) {
		case *types.Pointer:
			t = u.Elem()
			continue
		case *types.Slice:
			t = u.Elem()
			continue
		}
		break
	}
	st, ok := t.Underlying().(*types.Struct)
	if !ok {
		return nil, ""
	}
	for i := 0; i < st.NumFields(); i++ {
		tag := reflect.StructTag(st.Tag(i))
		y := strings.Split(tag.Get("yaml"), ",")[0]
		if y == key {
			return st.Field(i), tag.Get("valid")
		}
	}
	return nil, ""
}

func C20(c *core.Ctx) {
	c.Explain = "Validation is a predicate over the whole configuration space; decided here are the pieces of that predicate that live in the source: (R1) for every configuration item the " +
		"statement names, the struct field reached by its YAML key carries `required` and the stated constraint in its govalidator tag (exact constraint text: in(1.0.3), host, in(gtp5g), " +
		"in(N3|N9), cidr, the seven log levels) and the parent pointers/slices are required; (R2) gatekeeping: every return of a non-nil configuration from ReadConfig is dominated by " +
		"file read + YAML unmarshal, registration of the cidr validator, ValidateStruct and node-id resolution, each with its error tested, and every failed test returns a nil " +
		"configuration together with a provably non-nil error (a wrapped nil error is a silent success); (R3) nothing in non-test code stores into a configuration field after load " +
		"(accepted values appear unchanged); (R4) the gtp5g window: the bounds are the constants 0.9.5 and 0.10.0; the control flow of checkVersion is evaluated for all orderings of " +
		"(now, min) and (now, max) — by the identity of the go-version comparison methods and their operands — and must accept exactly 0.9.5 <= now < 0.10.0; OpenGtp5g returns a driver " +
		"only after checkVersion returned nil and tears down otherwise; NewDriver accepts no forwarder name but gtp5g and needs an interface entry."
	c.Undec = []string{"govalidator's tag semantics (it recurses into pointer structs and slices of structs — read, not analysed), yaml.v2 decoding, go-version parsing/ordering, DNS resolution",
		"that every syntactically wrong YAML document is rejected by yaml.v2"}
	c.Assume = []string{"govalidator.ValidateStruct honours required / in() / host / registered custom validators", "go-version comparison methods mean what their names say"}
	p := c.P
	cfgT := p.Named(pkgFact, "Config")
	if cfgT == nil {
		c.Anchor("R1", "factory.Config")
		return
	}

	// R1
	for _, e := range cfgTags {
		var t types.Type = cfgT
		var fld *types.Var
		valid := ""
		for _, k := range strings.Split(e.path, ".") {
			fld, valid = fieldByYAML(t, k)
			if fld == nil {
				break
			}
			t = fld.Type()
		}
		if fld == nil {
			c.Check("R1", "tag:"+e.path, token.NoPos, false, "no configuration field with YAML key "+e.path)
			continue
		}
		have := map[string]bool{}
		for _, part := range splitTag(valid) {
			have[part] = true
		}
		var missing []string
		for _, n := range e.need {
			if !have[n] {
				missing = append(missing, n)
			}
		}
		c.Check("R1", "tag:"+e.path, fld.Pos(), len(missing) == 0, fmt.Sprintf("valid:%q must contain %v (missing %v)", valid, e.need, missing))
	}

	// R2 gatekeeping
	if fn := fnOf(c, "R2", pkgFact, "", "ReadConfig"); fn != nil {
		type gate struct {
			name string
			call *ssa.Call
			err  ssa.Value
		}
		find := func(pred func(*types.Func) bool) *gate {
			for _, ci := range core.CallsMatching(fn, pred) {
				cl := ci.(*ssa.Call)
				g := &gate{call: cl}
				if _, isTuple := cl.Type().(*types.Tuple); isTuple {
					for _, r := range *cl.Referrers() {
						if ex, ok := r.(*ssa.Extract); ok && ex.Type().String() == "error" {
							g.err = ex
						}
					}
				} else {
					g.err = cl
				}
				return g
			}
			return nil
		}
		gates := map[string]*gate{
			"load": find(func(f *types.Func) bool { return core.IsPkgFunc(f, pkgFact, "InitConfigFactory") }),
			"validate": find(func(f *types.Func) bool {
				return f.Name() == "ValidateStruct" && strings.HasSuffix(f.Pkg().Path(), "govalidator")
			}),
			"resolve": find(func(f *types.Func) bool { return core.IsPkgFunc(f, "net", "ResolveIPAddr") }),
		}
		for n, g := range gates {
			c.Check("R2", "gate-present:"+n, fn.Pos(), g != nil && g.err != nil, "ReadConfig performs the "+n+" step and looks at its error")
		}
		// cidr validator registered before validation
		regOK := false
		core.Instrs(fn, func(in ssa.Instruction) {
			if mu, ok := in.(*ssa.MapUpdate); ok {
				if k, ok := mu.Key.(*ssa.Const); ok && k.Value != nil && k.Value.Kind() == constant.String && constant.StringVal(k.Value) == "cidr" {
					if g := gates["validate"]; g != nil && core.InstrDominates(mu, g.call) {
						regOK = true
					}
				}
			}
		})
		c.Check("R2", "cidr-validator-registered", fn.Pos(), regOK, "the `cidr` validator is registered in govalidator.TagMap before ValidateStruct runs")
		// validated object is the loaded one; resolved name is cfg.Pfcp.NodeID
		if g, l := gates["validate"], gates["load"]; g != nil && l != nil {
			same := core.Unwrap(g.call.Call.Args[0]) == core.Unwrap(core.CallArgs(l.call)[1])
			c.Check("R2", "validates-loaded-config", g.call.Pos(), same, "the structure validated is the one just loaded")
		}
		if g := gates["resolve"]; g != nil {
			_, path := core.FieldPath(g.call.Call.Args[1])
			c.Check("R2", "resolves-node-id", g.call.Pos(), len(path) == 2 && path[0] == "Pfcp" && path[1] == "NodeID", "the name resolved is the configured PFCP node id")
			// "resolvable" as the running UPF needs it: every own net.ResolveIPAddr of a node id uses one and the
			// same address family (the establishment handler resolves the node id as "ip4" for the F-SEID; a start-up
			// check in another family accepts node ids the server cannot use)
			fam := map[string]bool{}
			nRes := 0
			for _, f2 := range p.OwnFuncs() {
				for _, ci := range core.CallsMatching(f2, func(f *types.Func) bool { return core.IsPkgFunc(f, "net", "ResolveIPAddr") }) {
					nRes++
					if k, ok := ci.Common().Args[0].(*ssa.Const); ok && k.Value != nil && k.Value.Kind() == constant.String {
						fam[constant.StringVal(k.Value)] = true
					} else {
						fam["<not constant>"] = true
					}
				}
			}
			var fams []string
			for k := range fam {
				fams = append(fams, k)
			}
			sort.Strings(fams)
			c.Check("R2", "resolve-family-agrees", g.call.Pos(), len(fam) == 1 && nRes >= 2, fmt.Sprintf("all %d node-id resolutions use one address family %v", nRes, fams))
		}
		nOK := 0
		core.Instrs(fn, func(in ssa.Instruction) {
			r, ok := in.(*ssa.Return)
			if !ok || len(r.Results) != 2 {
				return
			}
			if core.IsNilConst(r.Results[0]) {
				c.Check("R2", fmt.Sprintf("reject-nonnil-error@%s", blockName(r.Block())), r.Pos(), provablyNonNilErr(r.Results[1], r.Block(), 0), "a rejected configuration is returned as (nil, <provably non-nil error>)")
				return
			}
			nOK++
			for n, g := range gates {
				okG := g != nil && g.err != nil && core.InstrDominates(g.call, r) && core.NilKnownAt(r.Block(), g.err, true)
				c.Check("R2", "accept-after:"+n, r.Pos(), okG, "a configuration is returned only after the "+n+" step succeeded (its error tested nil)")
			}
			c.Check("R2", "accept-nil-error", r.Pos(), core.IsNilConst(r.Results[1]), "an accepted configuration comes with a nil error")
		})
		c.Check("R2", "accept-paths", fn.Pos(), nOK == 1, fmt.Sprintf("%d accepting return(s) in ReadConfig", nOK))
	}
	if fn := fnOf(c, "R2", pkgFact, "", "InitConfigFactory"); fn != nil {
		var readErr, yamlErr ssa.Value
		var unm *ssa.Call
		core.Instrs(fn, func(in ssa.Instruction) {
			cl, ok := in.(*ssa.Call)
			if !ok || core.Callee(cl) == nil {
				return
			}
			switch {
			case core.IsPkgFunc(core.Callee(cl), "os", "ReadFile"):
				for _, r := range *cl.Referrers() {
					if ex, ok := r.(*ssa.Extract); ok && ex.Index == 1 {
						readErr = ex
					}
				}
			case core.Callee(cl).Name() == "Unmarshal" && strings.Contains(core.Callee(cl).Pkg().Path(), "yaml"):
				yamlErr, unm = cl, cl
			}
		})
		c.Check("R2", "load-steps", fn.Pos(), readErr != nil && yamlErr != nil, "InitConfigFactory reads the file and unmarshals it, looking at both errors")
		if unm != nil {
			c.Check("R2", "load-into-config", unm.Pos(), core.Unwrap(unm.Call.Args[1]) == ssa.Value(core.Param(fn, 1)), "the YAML document is decoded into the configuration object handed in")
		}
		core.Instrs(fn, func(in ssa.Instruction) {
			r, ok := in.(*ssa.Return)
			if !ok || len(r.Results) != 1 {
				return
			}
			if core.IsNilConst(r.Results[0]) {
				okR := readErr != nil && yamlErr != nil && core.NilKnownAt(r.Block(), readErr, true) && core.NilKnownAt(r.Block(), yamlErr, true)
				c.Check("R2", fmt.Sprintf("load-success@%s", blockName(r.Block())), r.Pos(), okR, "loading reports success only when both the read and the unmarshal succeeded")
			} else {
				c.Check("R2", fmt.Sprintf("load-failure@%s", blockName(r.Block())), r.Pos(), provablyNonNilErr(r.Results[0], r.Block(), 0),
					"a failed read/unmarshal is reported with a provably non-nil error (wrapping a nil error would turn the failure into success)")
			}
		})
	}

	// R3 unchanged values
	cfgTypes := map[*types.Named]bool{}
	for _, n := range []string{"Config", "Pfcp", "Gtpu", "IfInfo", "DnnList", "Logger"} {
		if t := p.Named(pkgFact, n); t != nil {
			cfgTypes[t] = true
		}
	}
	isCfgField := func(f *types.Var) bool {
		for t := range cfgTypes {
			st := t.Underlying().(*types.Struct)
			for i := 0; i < st.NumFields(); i++ {
				if st.Field(i) == f {
					return true
				}
			}
		}
		return false
	}
	nReads := 0
	for _, fn := range p.OwnFuncs() {
		for _, a := range core.FieldAccesses(fn) {
			if !isCfgField(a.Field) {
				continue
			}
			if !a.Write {
				nReads++
				continue
			}
			if _, local := rootAlloc(a.Base); local {
				continue
			}
			// passing the address of the whole config to yaml/govalidator is not a field store; a FieldAddr that escapes is
			if _, isStore := a.Instr.(*ssa.Store); !isStore {
				if _, isCall := a.Instr.(ssa.CallInstruction); !isCall {
					continue
				}
			}
			c.Check("R3", "config-store:"+core.FnName(fn)+":"+a.Field.Name(), a.Instr.Pos(), false, "configuration field "+a.Field.Name()+" is written after load: accepted values no longer appear unchanged")
		}
	}
	c.Obls = append(c.Obls, &core.Obligation{Rule: "R3", Key: "C20/R3/no-config-stores", OK: true, Desc: fmt.Sprintf("%d reads and no store of configuration fields in non-test code", nReads)})
	c.Counts["R3"]++
	c.Floor("R3", nReads, 8, "reads of configuration fields examined (non-vacuity of the store rule)")

	// R4 version window
	c20Version(c)
}

func splitTag(s string) []string {
	// split on commas that are not inside parentheses
	var out []string
	depth, start := 0, 0
	for i, r := range s {
		switch r {
		case '(':
			depth++
		case ')':
			depth--
		case ',':
			if depth == 0 {
				out = append(out, strings.TrimSpace(s[start:i]))
				start = i + 1
			}
		}
	}
	out = append(out, strings.TrimSpace(s[start:]))
	return out
}

// provablyNonNilErr: v is an error value that cannot be nil at block b.
func provablyNonNilErr(v ssa.Value, b *ssa.BasicBlock, depth int) bool {
	if depth > 4 || v == nil || core.IsNilConst(v) {
		return false
	}
	if core.NilKnownAt(b, v, false) {
		return true
	}
	switch x := core.Unwrap(v).(type) {
	case *ssa.Call:
		f := core.Callee(x)
		if f == nil {
			return false
		}
		switch f.Name() {
		case "Errorf", "New":
			return true
		case "Wrap", "Wrapf", "WithStack", "WithMessage", "WithMessagef":
			// non-nil iff the wrapped error is non-nil
			return len(x.Call.Args) > 0 && provablyNonNilErr(x.Call.Args[0], b, depth+1)
		}
	case *ssa.Extract:
		return core.NilKnownAt(b, x, false)
	case *ssa.Phi:
		// the error paths of an expanded helper joined: every edge carries a non-nil error where it comes from
		for i, e := range x.Edges {
			if !provablyNonNilErr(e, x.Block().Preds[i], depth+1) {
				return false
			}
		}
		return len(x.Edges) > 0
	}
	return false
}

func c20Version(c *core.Ctx) {
	p := c.P
	for n, want := range map[string]string{"expectedMinGtp5gVersion": "0.9.5", "expectedMaxGtp5gVersion": "0.10.0"} {
		k := p.Const(pkgFwd, n)
		okK := k != nil && k.Val().Kind() == constant.String && constant.StringVal(k.Val()) == want
		pos := token.NoPos
		if k != nil {
			pos = k.Pos()
		}
		c.Check("R4", "bound:"+n, pos, okK, n+" must be "+want)
	}
	fn := fnOf(c, "R4", pkgFwd, "Gtp5g", "checkVersion")
	if fn == nil {
		return
	}
	// version values: NewVersion(<const string | reply of GetVersion>)
	role := map[ssa.Value]string{}
	core.Instrs(fn, func(in ssa.Instruction) {
		cl, ok := in.(*ssa.Call)
		if !ok || core.Callee(cl) == nil || core.Callee(cl).Name() != "NewVersion" {
			return
		}
		arg := cl.Call.Args[0]
		r := ""
		if k, ok := arg.(*ssa.Const); ok && k.Value != nil && k.Value.Kind() == constant.String {
			switch constant.StringVal(k.Value) {
			case "0.9.5":
				r = "min"
			case "0.10.0":
				r = "max"
			}
		} else if ex, ok := arg.(*ssa.Extract); ok && ex.Index == 0 {
			if gc, ok := ex.Tuple.(*ssa.Call); ok && core.Callee(gc) != nil && core.Callee(gc).Name() == "GetVersion" {
				r = "now"
			}
		}
		for _, u := range *cl.Referrers() {
			if ex, ok := u.(*ssa.Extract); ok && ex.Index == 0 {
				role[ex] = r
			}
		}
	})
	seen := map[string]bool{}
	for _, r := range role {
		seen[r] = true
	}
	c.Check("R4", "version-operands", fn.Pos(), seen["min"] && seen["max"] && seen["now"], "checkVersion parses the two bound constants and the module's reply")
	// evaluate the CFG for the five orderings
	type scen struct {
		name       string
		cmpMin     int // now vs min: -1,0,1
		cmpMax     int
		wantAccept bool
	}
	scens := []scen{{"now<min", -1, -1, false}, {"now==min", 0, -1, true}, {"min<now<max", 1, -1, true}, {"now==max", 1, 0, false}, {"now>max", 1, 1, false}}
	for _, s := range scens {
		accept, why := evalVersionCFG(fn, role, s.cmpMin, s.cmpMax)
		c.Check("R4", "window:"+s.name, fn.Pos(), why == "" && accept == s.wantAccept, fmt.Sprintf("for %s checkVersion accepts=%v (must be %v) %s", s.name, accept, s.wantAccept, why))
	}
	// OpenGtp5g: driver only after checkVersion == nil; teardown otherwise
	if og := fnOf(c, "R4", pkgFwd, "", "OpenGtp5g"); og != nil {
		cvs := core.Calls(og, p.Method(pkgFwd, "Gtp5g", "checkVersion"))
		if len(cvs) != 1 {
			c.Check("R4", "open-checks-version", og.Pos(), false, fmt.Sprintf("%d calls of checkVersion in OpenGtp5g (want 1)", len(cvs)))
		} else {
			cv := cvs[0].(*ssa.Call)
			core.Instrs(og, func(in ssa.Instruction) {
				r, ok := in.(*ssa.Return)
				if !ok || len(r.Results) != 2 {
					return
				}
				if !core.IsNilConst(r.Results[0]) {
					c.Check("R4", "open-after-version", r.Pos(), core.InstrDominates(cv, r) && core.NilKnownAt(r.Block(), cv, true), "OpenGtp5g returns a driver only after checkVersion returned nil")
				}
			})
			// on the failing edge: Close then error
			closed := false
			for _, ci := range core.Calls(og, p.Method(pkgFwd, "Gtp5g", "Close")) {
				if core.NilKnownAt(ci.(ssa.Instruction).Block(), cv, false) {
					closed = true
				}
			}
			c.Check("R4", "open-teardown", cv.Pos(), closed, "on a version mismatch what was opened so far is closed")
		}
	}
	// NewDriver
	if nd := fnOf(c, "R4", pkgFwd, "", "NewDriver"); nd != nil {
		core.Instrs(nd, func(in ssa.Instruction) {
			r, ok := in.(*ssa.Return)
			if !ok || len(r.Results) != 2 || core.IsNilConst(r.Results[0]) {
				return
			}
			isGtp5g, hasIf := false, false
			for _, f := range core.FactsAt(r.Block()) {
				if cmp, ok := f.V.(*ssa.BinOp); ok {
					if k, ok := cmp.Y.(*ssa.Const); ok && k.Value != nil && k.Value.Kind() == constant.String {
						sv := constant.StringVal(k.Value)
						if _, fld, ok := core.LoadedField(cmp.X); ok && fld.Name() == "Forwarder" && sv == "gtp5g" && ((cmp.Op == token.EQL) == f.True) {
							isGtp5g = true
						}
						if sv == "" && ((cmp.Op == token.EQL && !f.True) || (cmp.Op == token.NEQ && f.True)) {
							hasIf = true
						}
					}
				}
			}
			c.Check("R4", "driver-only-gtp5g", r.Pos(), isGtp5g, "a driver is returned only for forwarder \"gtp5g\"")
			c.Check("R4", "driver-needs-interface", r.Pos(), hasIf, "a driver is returned only when an interface address was configured")
		})
	}
}

// evalVersionCFG walks checkVersion's control flow, resolving `err != nil` tests as "no error" and
// go-version comparison calls by the given orderings; returns whether the nil-error return is reached.
func evalVersionCFG(fn *ssa.Function, role map[ssa.Value]string, cmpMin, cmpMax int) (bool, string) {
	cmp := func(a, b string) (int, bool) {
		switch {
		case a == "now" && b == "min":
			return cmpMin, true
		case a == "now" && b == "max":
			return cmpMax, true
		case a == "min" && b == "now":
			return -cmpMin, true
		case a == "max" && b == "now":
			return -cmpMax, true
		case a == "min" && b == "max":
			return -1, true
		case a == "max" && b == "min":
			return 1, true
		case a == b && a != "":
			return 0, true
		}
		return 0, false
	}
	var evalBool func(v ssa.Value) (bool, bool)
	evalBool = func(v ssa.Value) (bool, bool) {
		switch x := v.(type) {
		case *ssa.BinOp:
			if _, eq, ok := core.NilCmp(x); ok {
				// errors: none occur in this scenario (x == nil is true, x != nil is false)
				return eq, true
			}
		case *ssa.UnOp:
			if x.Op == token.NOT {
				b, ok := evalBool(x.X)
				return !b, ok
			}
		case *ssa.Call:
			f := core.Callee(x)
			if f == nil || len(x.Call.Args) != 2 {
				return false, false
			}
			a, b := role[x.Call.Args[0]], role[x.Call.Args[1]]
			r, ok := cmp(a, b)
			if !ok {
				return false, false
			}
			switch f.Name() {
			case "LessThan":
				return r < 0, true
			case "LessThanOrEqual":
				return r <= 0, true
			case "GreaterThan":
				return r > 0, true
			case "GreaterThanOrEqual":
				return r >= 0, true
			case "Equal":
				return r == 0, true
			}
		}
		return false, false
	}
	b := fn.Blocks[0]
	for steps := 0; steps < 200; steps++ {
		last := b.Instrs[len(b.Instrs)-1]
		switch x := last.(type) {
		case *ssa.Return:
			if len(x.Results) != 1 {
				return false, ""
			}
			if core.IsNilConst(x.Results[0]) {
				return true, ""
			}
			// errors.Wrap/Wrapf/WithMessage/WithStack return nil for a nil cause: in this scenario no call has
			// failed, so wrapping an error variable (as opposed to constructing a new error) yields nil = accepted
			if cl, isCall := x.Results[0].(*ssa.Call); isCall {
				if f := core.Callee(cl); f != nil && f.Pkg() != nil && strings.HasSuffix(f.Pkg().Path(), "pkg/errors") &&
					(strings.HasPrefix(f.Name(), "Wrap") || strings.HasPrefix(f.Name(), "WithMessage") || f.Name() == "WithStack") && len(cl.Call.Args) > 0 {
					cause := core.Unwrap(cl.Call.Args[0])
					if _, fresh := cause.(*ssa.MakeInterface); !fresh {
						if _, isCall2 := cause.(*ssa.Call); !isCall2 {
							return true, "(returns " + f.Name() + " of an error value that is nil on this path: nil)"
						}
					}
				}
			}
			return false, ""
		case *ssa.Jump:
			b = b.Succs[0]
		case *ssa.If:
			var t bool
			var ok bool
			if _, eq, isNil := core.NilCmp(x.Cond); isNil {
				// `err != nil` is false, `err == nil` is true (no parse errors in this scenario)
				t, ok = eq, true
			} else {
				t, ok = evalBool(x.Cond)
			}
			if !ok {
				return false, "(condition not decidable by comparison-method identity: " + x.Cond.String() + ")"
			}
			if t {
				b = b.Succs[0]
			} else {
				b = b.Succs[1]
			}
		default:
			return false, "(unexpected block end)"
		}
	}
	return false, "(no return reached)"
}
