package rules

import (
	"fmt"
	"go/token"
	"go/types"
	"sort"
	"strings"

	"golang.org/x/tools/go/ssa"

	"upfcheck/internal/core"
)

// C07 P8 — netlink attribute lengths.
//
// go-nl keeps the length of an attribute in a uint16 (nl.AttrLen) and computes it as 4 + Value.Len() without a
// range check; Attr.Encode then slices its buffer with b[4:length].  An attribute whose real length is 65536..65539
// wraps to 0..3 and Encode panics on the PFCP event loop (a longer one is silently truncated).  The size of a NESTED
// attribute is decided by the datagram wherever go-upf builds its list by appending once per received IE (PDI,
// forwarding parameters) or from a payload-proportional byte string (the port lists of a flow description): 8189
// five-octet Source Interface IEs, or a flow description naming 16383 ports, fit one datagram and reach 65536.
//
// Rule: every call that hands an attribute list to go-gtp5gnl, where that list can contain a nested attribute of
// datagram-decided size, is dominated by a successful call of a length checker on the same list; and the checker
// (a) compares a size against a constant of at most 65535 and returns an error beyond it, (b) the size includes the
// attribute header and the payload's Len(), (c) it descends into nested lists, (d) no size is returned unchecked,
// (e) an error found below is passed up.
const (
	pkgNl  = "github.com/khirono/go-nl"
	pkgGnl = "github.com/free5gc/go-gtp5gnl"
)

func isNlNamed(t types.Type, name string) bool {
	n, ok := t.(*types.Named)
	return ok && n.Obj().Pkg() != nil && n.Obj().Pkg().Path() == pkgNl && n.Obj().Name() == name
}

func isAttrListType(t types.Type) bool {
	if isNlNamed(t, "AttrList") {
		return true
	}
	if s, ok := t.Underlying().(*types.Slice); ok {
		return isNlNamed(s.Elem(), "Attr")
	}
	return false
}

// blockInLoop: the block lies on a cycle of the control-flow graph.
func blockInLoop(b *ssa.BasicBlock) bool {
	seen := map[*ssa.BasicBlock]bool{}
	stack := append([]*ssa.BasicBlock(nil), b.Succs...)
	for len(stack) > 0 {
		x := stack[len(stack)-1]
		stack = stack[:len(stack)-1]
		if x == b {
			return true
		}
		if seen[x] {
			continue
		}
		seen[x] = true
		stack = append(stack, x.Succs...)
	}
	return false
}

type attrGrowth struct {
	c      *core.Ctx
	top    map[*ssa.Function]string // "" = bounded, otherwise the reason
	nested map[*ssa.Function]string
	busy   map[*ssa.Function]bool
}

// valueStores: the values stored into the Value field of an nl.Attr anywhere in fn (closures included).
func valueStores(fn *ssa.Function) []*ssa.Store {
	var out []*ssa.Store
	for _, f := range core.WithAnon(fn) {
		core.Instrs(f, func(in ssa.Instruction) {
			st, ok := in.(*ssa.Store)
			if !ok {
				return
			}
			fa, ok := st.Addr.(*ssa.FieldAddr)
			if !ok {
				return
			}
			fld := core.FieldOfAddr(fa)
			if fld == nil || fld.Name() != "Value" {
				return
			}
			if pt, ok := fa.X.Type().Underlying().(*types.Pointer); ok && isNlNamed(pt.Elem(), "Attr") {
				out = append(out, st)
			}
		})
	}
	return out
}

func ownCallResult(p *core.Program, v ssa.Value) *ssa.Function {
	if e, ok := v.(*ssa.Extract); ok {
		v = e.Tuple
	}
	if cl, ok := v.(*ssa.Call); ok {
		if f := core.StaticFn(cl); f != nil && p.IsOwnFn(f) && f.Blocks != nil {
			return f
		}
	}
	return nil
}

// topGrowth: the list returned by fn is appended to inside a loop (one attribute per received IE).
func (g *attrGrowth) topGrowth(fn *ssa.Function) string {
	if r, ok := g.top[fn]; ok {
		return r
	}
	g.top[fn] = ""
	res := ""
	for _, f := range core.WithAnon(fn) {
		core.Instrs(f, func(in ssa.Instruction) {
			cl, ok := in.(*ssa.Call)
			if !ok || res != "" {
				return
			}
			if bi, ok := cl.Call.Value.(*ssa.Builtin); ok && bi.Name() == "append" && isAttrListType(cl.Type()) && blockInLoop(cl.Block()) {
				res = "list appended to in a loop in " + core.FnName(fn)
			}
		})
	}
	g.top[fn] = res
	return res
}

// nestedGrowth: fn builds an nl.Attr whose Value is of datagram-decided size.
func (g *attrGrowth) nestedGrowth(fn *ssa.Function) string {
	if r, ok := g.nested[fn]; ok {
		return r
	}
	if g.busy[fn] {
		return ""
	}
	g.busy[fn] = true
	res := ""
	for _, st := range valueStores(fn) {
		if r := g.growsVal(st.Val, 0); r != "" {
			res = r
			break
		}
	}
	g.busy[fn] = false
	g.nested[fn] = res
	return res
}

func (g *attrGrowth) growsVal(v ssa.Value, depth int) string {
	if depth > 6 {
		return "value too deep to follow"
	}
	if mi, ok := v.(*ssa.MakeInterface); ok {
		v = mi.X
	}
	t := v.Type()
	switch {
	case isAttrListType(t):
		return g.listGrows(v, depth, map[ssa.Value]bool{})
	case isNlNamed(t, "AttrBytes"):
		for {
			switch x := v.(type) {
			case *ssa.ChangeType:
				v = x.X
				continue
			case *ssa.Convert:
				v = x.X
				continue
			}
			break
		}
		if h := ownCallResult(g.c.P, v); h != nil {
			if r := makeNonConst(h); r != "" {
				return "byte string of payload-proportional length from " + core.FnName(h)
			}
			return ""
		}
		if ms, ok := v.(*ssa.MakeSlice); ok {
			if _, isConst := core.ConstInt(ms.Len); !isConst {
				return "byte string of non-constant length"
			}
		}
		return ""
	}
	return ""
}

func makeNonConst(h *ssa.Function) string {
	res := ""
	core.Instrs(h, func(in ssa.Instruction) {
		if ms, ok := in.(*ssa.MakeSlice); ok {
			if _, isConst := core.ConstInt(ms.Len); !isConst {
				res = "make"
			}
		}
	})
	return res
}

func (g *attrGrowth) listGrows(v ssa.Value, depth int, seen map[ssa.Value]bool) string {
	if seen[v] {
		return ""
	}
	seen[v] = true
	if f := ownCallResult(g.c.P, v); f != nil {
		if r := g.topGrowth(f); r != "" {
			return r
		}
		return g.nestedGrowth(f)
	}
	switch x := v.(type) {
	case *ssa.Phi:
		if blockInLoop(x.Block()) {
			return "list grown in a loop in " + core.FnName(x.Parent())
		}
		for _, e := range x.Edges {
			if r := g.listGrows(e, depth, seen); r != "" {
				return r
			}
		}
		return ""
	case *ssa.Call:
		if bi, ok := x.Call.Value.(*ssa.Builtin); ok && bi.Name() == "append" {
			if blockInLoop(x.Block()) {
				return "list appended to in a loop in " + core.FnName(x.Parent())
			}
			return g.listGrows(x.Call.Args[0], depth, seen)
		}
		return "list from a call that is not followed"
	case *ssa.Slice, *ssa.Const, *ssa.MakeSlice:
		return ""
	case *ssa.ChangeType:
		return g.listGrows(x.X, depth, seen)
	case *ssa.Convert:
		return g.listGrows(x.X, depth, seen)
	case *ssa.UnOp:
		if u := core.Unwrap(x); u != ssa.Value(x) {
			return g.listGrows(u, depth, seen)
		}
		return "list loaded from memory"
	case *ssa.Parameter:
		fn := x.Parent()
		idx := -1
		for i, p := range fn.Params {
			if p == x {
				idx = i
			}
		}
		callers := g.c.P.Callers(fn)
		if idx < 0 || len(callers) == 0 {
			return "list parameter with no visible caller"
		}
		for _, e := range callers {
			if e.Site == nil {
				continue
			}
			args := e.Site.Common().Args
			if e.Site.Common().IsInvoke() || len(args) != len(fn.Params) {
				return "list parameter of an indirect call"
			}
			if r := g.listGrows(args[idx], depth+1, seen); r != "" {
				return r
			}
		}
		return ""
	}
	return fmt.Sprintf("list value of form %T", v)
}

// ---- the checker function ------------------------------------------------------------------------------

type lenChecker struct {
	ok  bool
	why string
	max int64
}

func closureOf(p *core.Program, k *ssa.Function) []*ssa.Function {
	seen := map[*ssa.Function]bool{k: true}
	order := []*ssa.Function{k}
	for i := 0; i < len(order) && len(order) < 16; i++ {
		for _, f := range core.WithAnon(order[i]) {
			core.Instrs(f, func(in ssa.Instruction) {
				if ci, ok := in.(ssa.CallInstruction); ok {
					if g := core.StaticFn(ci); g != nil && p.IsOwnFn(g) && g.Blocks != nil && !seen[g] {
						seen[g] = true
						order = append(order, g)
					}
				}
			})
		}
	}
	return order
}

func lastResultNonNil(b *ssa.BasicBlock) bool {
	for i := 0; i < 4; i++ {
		last := b.Instrs[len(b.Instrs)-1]
		switch x := last.(type) {
		case *ssa.Return:
			if len(x.Results) == 0 {
				return false
			}
			r := x.Results[len(x.Results)-1]
			return !core.IsNilConst(r)
		case *ssa.Jump:
			b = b.Succs[0]
		default:
			return false
		}
	}
	return false
}

// leaves of the arithmetic that produces v (through phi, + - & &^ | conversions and results of calls inside ck)
type sizeFacts struct {
	lenInvoke, header, recursive bool
}

func sizeLeaves(v ssa.Value, ck map[*ssa.Function]bool, seen map[ssa.Value]bool, sf *sizeFacts) {
	if seen[v] {
		return
	}
	seen[v] = true
	switch x := v.(type) {
	case *ssa.Phi:
		for _, e := range x.Edges {
			if c, ok := core.ConstInt(e); ok && c >= 4 {
				sf.header = true
			}
			sizeLeaves(e, ck, seen, sf)
		}
	case *ssa.BinOp:
		if x.Op == token.ADD {
			for i, o := range []ssa.Value{x.X, x.Y} {
				if c, ok := core.ConstInt(o); ok && c >= 4 {
					other := []ssa.Value{x.Y, x.X}[i]
					if isLenInvoke(other) {
						sf.header = true
					}
				}
			}
		}
		sizeLeaves(x.X, ck, seen, sf)
		sizeLeaves(x.Y, ck, seen, sf)
	case *ssa.Convert:
		sizeLeaves(x.X, ck, seen, sf)
	case *ssa.ChangeType:
		sizeLeaves(x.X, ck, seen, sf)
	case *ssa.Extract:
		sizeLeaves(x.Tuple, ck, seen, sf)
	case *ssa.Call:
		if isLenInvoke(x) {
			sf.lenInvoke = true
			return
		}
		if f := core.StaticFn(x); f != nil && ck[f] {
			sf.recursive = true
		}
	case *ssa.UnOp:
		if u := core.Unwrap(x); u != ssa.Value(x) {
			sizeLeaves(u, ck, seen, sf)
		}
	}
}

func isLenInvoke(v ssa.Value) bool {
	cl, ok := v.(*ssa.Call)
	if !ok {
		return false
	}
	if cl.Call.IsInvoke() {
		return cl.Call.Method.Name() == "Len"
	}
	if f := core.Callee(cl); f != nil && f.Name() == "Len" && f.Pkg() != nil && f.Pkg().Path() == pkgNl {
		return true
	}
	return false
}

func checkLenChecker(p *core.Program, k *ssa.Function) lenChecker {
	order := closureOf(p, k)
	ck := map[*ssa.Function]bool{}
	for _, f := range order {
		ck[f] = true
	}
	// (a)+(b)+(d): a bound comparison
	var boundIf *ssa.If
	var boundMax int64
	var sf sizeFacts
	for _, f := range order {
		for _, b := range f.Blocks {
			ifi, ok := b.Instrs[len(b.Instrs)-1].(*ssa.If)
			if !ok {
				continue
			}
			bo, ok := ifi.Cond.(*ssa.BinOp)
			if !ok {
				continue
			}
			var n ssa.Value
			var cst int64
			op := bo.Op
			if c, ok := core.ConstInt(bo.Y); ok {
				n, cst = bo.X, c
			} else if c, ok := core.ConstInt(bo.X); ok {
				n, cst = bo.Y, c
				switch op { // c OP n  ->  n OP' c
				case token.LSS:
					op = token.GTR
				case token.LEQ:
					op = token.GEQ
				case token.GTR:
					op = token.LSS
				case token.GEQ:
					op = token.LEQ
				}
			} else {
				continue
			}
			if bt, ok := n.Type().Underlying().(*types.Basic); !ok || bt.Info()&types.IsInteger == 0 {
				continue
			}
			var max int64
			var longSucc *ssa.BasicBlock
			switch op {
			case token.GTR:
				max, longSucc = cst, b.Succs[0]
			case token.GEQ:
				max, longSucc = cst-1, b.Succs[0]
			case token.LEQ:
				max, longSucc = cst, b.Succs[1]
			case token.LSS:
				max, longSucc = cst-1, b.Succs[1]
			default:
				continue
			}
			if max < 4 || !lastResultNonNil(longSucc) {
				continue
			}
			var s sizeFacts
			sizeLeaves(n, ck, map[ssa.Value]bool{}, &s)
			if !s.lenInvoke {
				continue
			}
			if boundIf == nil || max < boundMax {
				boundIf, boundMax, sf = ifi, max, s
			}
		}
	}
	if boundIf == nil {
		return lenChecker{why: "no comparison of an attribute size (derived from the payload's Len()) against a constant whose failing branch returns an error"}
	}
	if boundMax > 65535 {
		return lenChecker{why: fmt.Sprintf("the bound lets through attributes of up to %d octets; the netlink length field holds 65535", boundMax)}
	}
	if !sf.header {
		return lenChecker{why: "the compared size does not include the 4-octet attribute header"}
	}
	// (c) descends into nested lists
	descends := false
	for _, f := range order {
		core.Instrs(f, func(in ssa.Instruction) {
			ta, ok := in.(*ssa.TypeAssert)
			if ok && isAttrListType(ta.AssertedType) {
				descends = true
			}
		})
	}
	loopCall := false
	for _, f := range order {
		core.Instrs(f, func(in ssa.Instruction) {
			if cl, ok := in.(*ssa.Call); ok {
				if g := core.StaticFn(cl); g != nil && ck[g] && blockInLoop(cl.Block()) {
					loopCall = true
				}
			}
		})
	}
	if !descends || !loopCall || !sf.recursive {
		return lenChecker{why: "the checker does not descend into nested attribute lists (type test for nl.AttrList, a call per element, and the nested sizes added to the compared size)"}
	}
	// (d) no size leaves the counting function unchecked
	cf := boundIf.Parent()
	for _, b := range cf.Blocks {
		if r, ok := b.Instrs[len(b.Instrs)-1].(*ssa.Return); ok && len(r.Results) > 0 && core.IsNilConst(r.Results[len(r.Results)-1]) {
			if !boundIf.Block().Dominates(b) {
				return lenChecker{why: "a success return of " + core.FnName(cf) + " is not preceded by the bound comparison"}
			}
		}
	}
	// (e) errors found below are passed up
	for _, f := range order {
		bad := ""
		core.Instrs(f, func(in ssa.Instruction) {
			cl, ok := in.(*ssa.Call)
			if !ok || bad != "" {
				return
			}
			g := core.StaticFn(cl)
			if g == nil || !ck[g] {
				return
			}
			e := errResultOf(cl)
			if e == nil {
				bad = "result of " + core.FnName(g) + " discarded in " + core.FnName(f)
				return
			}
			if !errPropagated(e) {
				bad = "error of " + core.FnName(g) + " not returned by " + core.FnName(f)
			}
		})
		if bad != "" {
			return lenChecker{why: bad}
		}
	}
	return lenChecker{ok: true, max: boundMax}
}

// errResultOf: the SSA value holding the error result of a call (single result or last of a tuple).
func errResultOf(cl *ssa.Call) ssa.Value {
	sig := cl.Call.Signature()
	n := sig.Results().Len()
	if n == 0 || !isErrorType(sig.Results().At(n-1).Type()) {
		return nil
	}
	if n == 1 {
		if cl.Referrers() == nil || len(*cl.Referrers()) == 0 {
			return nil
		}
		return cl
	}
	for _, r := range *cl.Referrers() {
		if ex, ok := r.(*ssa.Extract); ok && ex.Index == n-1 {
			return ex
		}
	}
	return nil
}

func isErrorType(t types.Type) bool {
	return types.Identical(t, types.Universe.Lookup("error").Type())
}

// errPropagated: e is nil-tested and the non-nil branch returns a non-nil error, or e is returned directly.
func errPropagated(e ssa.Value) bool {
	refs := e.Referrers()
	if refs == nil {
		return false
	}
	for _, r := range *refs {
		switch x := r.(type) {
		case *ssa.Return:
			if len(x.Results) > 0 && x.Results[len(x.Results)-1] == e {
				return true
			}
		case *ssa.BinOp:
			y, eq, ok := core.NilCmp(x)
			if !ok || y != e || x.Referrers() == nil {
				continue
			}
			for _, u := range *x.Referrers() {
				if ifi, ok := u.(*ssa.If); ok {
					succ := ifi.Block().Succs[0]
					if eq {
						succ = ifi.Block().Succs[1]
					}
					if lastResultNonNil(succ) {
						return true
					}
				}
			}
		}
	}
	return false
}

// ---- the rule ---------------------------------------------------------------------------------------------

func c07AttrLen(c *core.Ctx, fns []*ssa.Function) {
	p := c.P
	g := &attrGrowth{c: c, top: map[*ssa.Function]string{}, nested: map[*ssa.Function]string{}, busy: map[*ssa.Function]bool{}}
	checkers := map[*ssa.Function]lenChecker{}
	sites, need := 0, 0
	var bounded []string
	for _, fn := range fns {
		idx := map[string]int{}
		core.Instrs(fn, func(in ssa.Instruction) {
			ci, ok := in.(ssa.CallInstruction)
			if !ok {
				return
			}
			f := core.Callee(ci)
			if f == nil || f.Pkg() == nil || f.Pkg().Path() != pkgGnl {
				return
			}
			var arg ssa.Value
			for _, a := range ci.Common().Args {
				if isAttrListType(a.Type()) {
					arg = a
				}
			}
			if arg == nil {
				return
			}
			sites++
			idx[f.Name()]++
			name := fmt.Sprintf("%s:%s", core.FnName(fn), f.Name())
			if idx[f.Name()] > 1 {
				name += fmt.Sprintf("#%d", idx[f.Name()])
			}
			why := g.nestedGrowth(fn)
			if why == "" {
				why = g.listNested(arg)
			}
			if why == "" {
				bounded = append(bounded, name)
				return
			}
			need++
			// a dominating, successful call of a checker on the same list
			var found *ssa.Function
			reason := "no call of an attribute-length checker on this list dominates the hand-over"
			for _, f2 := range []*ssa.Function{fn} {
				core.Instrs(f2, func(in2 ssa.Instruction) {
					k, ok := in2.(*ssa.Call)
					if !ok || found != nil {
						return
					}
					kf := core.StaticFn(k)
					if kf == nil || !p.IsOwnFn(kf) || kf.Blocks == nil {
						return
					}
					same := false
					for _, a := range k.Call.Args {
						if isAttrListType(a.Type()) && core.Unwrap(a) == core.Unwrap(arg) {
							same = true
						}
					}
					if !same {
						return
					}
					e := errResultOf(k)
					if e == nil {
						return
					}
					if !core.InstrDominates(k, in) {
						reason = "the length check by " + core.FnName(kf) + " does not dominate the hand-over"
						return
					}
					if !core.ErrKnown(in.Block(), e, true) {
						reason = "the hand-over is reached although " + core.FnName(kf) + " reported an error (its result is not tested)"
						return
					}
					lc, ok := checkers[kf]
					if !ok {
						lc = checkLenChecker(p, kf)
						checkers[kf] = lc
					}
					if !lc.ok {
						reason = core.FnName(kf) + " is not a sufficient length check: " + lc.why
						return
					}
					found = kf
				})
			}
			c.Check("P8", "attr-length-checked:"+name, in.Pos(), found != nil,
				"this attribute list can contain a nested attribute whose size the datagram decides ("+why+"); go-nl keeps attribute lengths in 16 bits and "+
					"panics (or truncates) when one wraps, so the list must pass a length check before it is handed to go-gtp5gnl"+
					map[bool]string{true: "", false: " — " + reason}[found != nil])
		})
	}
	sort.Strings(bounded)
	c.Extra["P8_sites"] = sites
	c.Extra["P8_sites_with_datagram_sized_nested_attribute"] = need
	c.Extra["P8_sites_bounded"] = strings.Join(bounded, ", ")
	c.Floor("P8", sites, 1, "calls handing an attribute list to go-gtp5gnl")
}

// listNested: the handed-over list itself comes from a helper (or a parameter) whose attributes nest growing values.
func (g *attrGrowth) listNested(arg ssa.Value) string {
	arg = core.Unwrap(arg)
	if f := ownCallResult(g.c.P, arg); f != nil {
		return g.nestedGrowth(f)
	}
	if prm, ok := arg.(*ssa.Parameter); ok {
		for _, e := range g.c.P.Callers(prm.Parent()) {
			if e.Caller != nil && e.Caller.Func != nil && g.c.P.IsOwnFn(e.Caller.Func) {
				if r := g.nestedGrowth(e.Caller.Func); r != "" {
					return r
				}
			}
		}
	}
	return ""
}
