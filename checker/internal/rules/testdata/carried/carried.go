// Package fixture holds positive and negative examples for the iteration-independence engine.
// Function names starting with Bad must be reported, names starting with Ok must not.
package fixture

type item struct {
	addr *int
	id   int
	qers []int
}

func use(int, *int)        {}
func get(int) (*int, bool) { return nil, false }
func pop() (int, bool)     { return 0, false }

// hoisted variable assigned only when present, read in the loop
func BadHoistedConditional(items []item) {
	var addr *int
	for _, it := range items {
		if it.addr != nil {
			addr = it.addr
		}
		if addr != nil {
			use(it.id, addr)
		}
	}
}

// inner search with break; result variable declared outside the outer loop
func BadInnerSearchHoisted(items []item) {
	var found *int
	for _, it := range items {
		for _, q := range it.qers {
			p, ok := get(q)
			if !ok {
				continue
			}
			if *p != 0 {
				found = p
				break
			}
		}
		use(it.id, found)
	}
}

// same, declared per iteration
func OkInnerSearchPerIteration(items []item) {
	for _, it := range items {
		var found *int
		for _, q := range it.qers {
			p, ok := get(q)
			if !ok {
				continue
			}
			if *p != 0 {
				found = p
				break
			}
		}
		use(it.id, found)
	}
}

func OkAccumulator(items []item) []int {
	var out []int
	for _, it := range items {
		if it.addr != nil {
			out = append(out, it.id)
		}
	}
	return out
}

func OkAccumulatorWithFlush(items []item, lim int) [][]int {
	var all [][]int
	var batch []int
	n := 0
	for _, it := range items {
		batch = append(batch, it.id)
		n++
		if n >= lim {
			all = append(all, batch)
			batch = batch[:0]
			n = 0
		}
	}
	return all
}

func OkFirstMatchReadAfter(items []item) *int {
	var first *int
	for _, it := range items {
		if it.addr != nil {
			first = it.addr
		}
	}
	return first
}

func OkAssignedEveryIteration(items []item) {
	var addr *int
	for _, it := range items {
		addr = it.addr
		if addr != nil {
			use(it.id, addr)
		}
	}
}

func OkDrainLoop() {
	for ok := true; ok; {
		_, ok = pop()
	}
}

func OkCounter(items []item) int {
	n := 0
	for _, it := range items {
		if it.addr != nil {
			n++
		}
	}
	return n
}

// switch arms: one arm reads what another arm assigns (IE-order dependence)
func BadArmReadsOtherArm(items []item) {
	method := 0
	for _, it := range items {
		switch it.id {
		case 1:
			method = len(it.qers)
		case 2:
			if method > 0 {
				use(it.id, it.addr)
			}
		}
	}
}

func later(func()) {}

// deferred closure inside a range loop capturing the range variable (module go version < 1.22)
func BadDeferCapturesRangeVar(items []item, m map[int]bool) {
	for _, it := range items {
		if it.addr != nil {
			defer func() {
				delete(m, it.id)
			}()
		}
	}
}

func BadGoCapturesRangeVar(items []item) {
	for k, it := range items {
		go func() {
			use(k, it.addr)
		}()
	}
}

// value passed as an argument: evaluated at the defer statement
func OkDeferWithArgument(items []item, m map[int]bool) {
	for _, it := range items {
		defer func(id int) {
			delete(m, id)
		}(it.id)
	}
}

// closure called immediately
func OkImmediateClosure(items []item) {
	for _, it := range items {
		func() {
			use(it.id, it.addr)
		}()
	}
}
