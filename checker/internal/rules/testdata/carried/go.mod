module fixture

go 1.21
