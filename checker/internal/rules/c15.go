package rules

import (
	"fmt"
	"go/token"
	"go/types"
	"strings"

	"golang.org/x/tools/go/ssa"

	"upfcheck/internal/core"
)

func init() { Registry["C15"] = C15 }

func C15(c *core.Ctx) {
	c.Explain = "Set-exactness of periodic queries is decided as structural facts of the periodic server's single goroutine and of the batching loop, for every add/remove/tick history: " +
		"(R1) the group table and the groups are touched only by the server's own goroutine (confinement, shared with C17); (R2) event arms: DEL removes the (SEID, URR) pair and stops the " +
		"ticker and deletes the group exactly when the WHOLE group became empty (the emptiness test is on the group's session map, nested inside the per-session emptiness test), " +
		"always stopping the ticker before the group is dropped; TIMEOUT looks the group up by the tick's period, copies ALL pairs of that group into the query (two nested ranges " +
		"without exits), hands exactly that map to the query callback, ORs PERIO into every returned report and notifies once per SEID key with that key; a vanished group only logs; " +
		"CLOSE stops every ticker before dropping its group; ADD installs the group under the event's period only after its ticker was created; (R3) batching in queryMultiURR: every " +
		"pair is appended; the in-loop flush resets BOTH the accumulator and the counter; a final flush runs iff the accumulator is non-empty; both flushes hand over the same " +
		"(client, link, accumulator) and their results are concatenated; (R4) URR removal always unregisters (C03 R8)."
	c.Undec = []string{"real tick timing", "stale registrations after Update URR (C03 known finding K4)", "the ticker-stop rendezvous can wedge (C18 known finding K2)"}
	c.Assume = []string{"single goroutine serialises the events (checked by R1)"}
	p := c.P
	serve := fnOf(c, "R2", pkgPerio, "Server", "Serve")
	if serve == nil {
		return
	}
	listF := p.Field(pkgPerio, "Server", "perioList")
	urridsF := p.Field(pkgPerio, "PERIOGroup", "urrids")
	stop := p.Method(pkgPerio, "PERIOGroup", "stopTicker")
	newT := p.Method(pkgPerio, "PERIOGroup", "newTicker")
	if listF == nil || urridsF == nil || stop == nil || newT == nil {
		c.Anchor("R2", "perio.Server.perioList / PERIOGroup.urrids / stopTicker / newTicker")
		return
	}

	// R1 confinement
	classes := p.GoroutineClasses()
	nA := 0
	for _, fn := range p.OwnFuncs() {
		seen := map[string]bool{}
		for _, a := range append(core.FieldAccesses(fn), core.ContainerMutations(fn)...) {
			if a.Field != listF && a.Field != urridsF {
				continue
			}
			if _, local := rootAlloc(a.Base); local {
				continue
			}
			if seen[a.Field.Name()] {
				continue
			}
			seen[a.Field.Name()] = true
			nA++
			cs := core.ClassesOf(classes, fn)
			ok := true
			for _, cl := range cs {
				if cl != "PERIO" {
					ok = false
				}
			}
			c.Check("R1", "own-goroutine:"+core.FnName(fn)+":"+a.Field.Name(), a.Instr.Pos(), ok && len(cs) > 0, fmt.Sprintf("%s is touched only by the periodic server's goroutine (classes %v)", a.Field.Name(), cs))
		}
	}
	c.Floor("R1", nA, 2, "accesses to the group table")

	// arms are identified by the event-type constant compared in the dominating facts
	armOf := func(b *ssa.BasicBlock) int64 {
		for _, eq := range eqFacts(b) {
			if _, fld, ok := core.LoadedField(eq[0]); ok && fld.Name() == "eType" {
				if k, ok := core.ConstInt(eq[1]); ok {
					return k
				}
			}
		}
		return 0
	}
	const (
		tADD, tDEL, tTIMEOUT, tCLOSE = 1, 2, 3, 4
	)
	// R2: stopTicker / delete(perioList)
	var stops []ssa.CallInstruction
	for _, ci := range core.Calls(serve, stop) {
		stops = append(stops, ci)
	}
	nDel := 0
	core.Instrs(serve, func(in ssa.Instruction) {
		dc, ok := in.(*ssa.Call)
		if !ok {
			return
		}
		bi, ok := dc.Call.Value.(*ssa.Builtin)
		if !ok || bi.Name() != "delete" {
			return
		}
		if _, f, ok := core.LoadedField(dc.Call.Args[0]); !ok || f != listF {
			return
		}
		nDel++
		arm := armOf(dc.Block())
		// a stopTicker call on the group of this very iteration dominates the delete, in the same block
		stopped := false
		for _, s := range stops {
			si := s.(ssa.Instruction)
			if si.Block() == dc.Block() && core.InstrDominates(si, dc) {
				// same iteration: receiver is the range value, key is the range key of the same Next
				rv, okR := core.CallRecv(s).(*ssa.Extract)
				kv, okK := dc.Call.Args[1].(*ssa.Extract)
				if okR && okK && rv.Tuple == kv.Tuple {
					stopped = true
				}
			}
		}
		c.Check("R2", fmt.Sprintf("ticker-stopped-before-drop#%d", nDel), dc.Pos(), stopped && (arm == tDEL || arm == tCLOSE),
			"a period group is deleted only right after ITS ticker was stopped (no ticker goroutine is leaked), in the DEL or CLOSE arm")
		if arm == tDEL {
			// exactly when the whole group is empty: fact len(load group.urrids) == 0, where the operand is the field itself
			whole := false
			for _, eq := range eqFacts(dc.Block()) {
				cmp := struct{ X, Y ssa.Value }{eq[0], eq[1]}
				if z, ok := core.ConstInt(cmp.Y); !ok || z != 0 {
					continue
				}
				if lc, ok := cmp.X.(*ssa.Call); ok {
					if b2, ok := lc.Call.Value.(*ssa.Builtin); ok && b2.Name() == "len" {
						if _, fld, ok := core.LoadedField(lc.Call.Args[0]); ok && fld == urridsF {
							whole = true
						}
					}
				}
			}
			c.Check("R2", "drop-iff-group-empty", dc.Pos(), whole, "the group (and its ticker) is dropped exactly when the group's session map is empty — not when one session's URR set is")
		}
	})
	c.Check("R2", "drop-sites", serve.Pos(), nDel == 2, fmt.Sprintf("%d sites delete from the group table (DEL and CLOSE)", nDel))
	for _, s := range stops {
		arm := armOf(s.(ssa.Instruction).Block())
		c.Check("R2", fmt.Sprintf("stop-arm:%d", arm), s.Pos(), arm == tDEL || arm == tCLOSE, "tickers are stopped only in the DEL and CLOSE arms")
	}
	// DEL removes the pair: delete(group.urrids[e.lSeid], e.urrid)
	pairDeleted := false
	core.Instrs(serve, func(in ssa.Instruction) {
		if dc, ok := in.(*ssa.Call); ok && armOf(dc.Block()) == tDEL {
			if bi, ok := dc.Call.Value.(*ssa.Builtin); ok && bi.Name() == "delete" {
				if lk, ok := dc.Call.Args[0].(*ssa.Lookup); ok {
					_, kn := core.FieldPath(lk.Index)
					_, dn := core.FieldPath(dc.Call.Args[1])
					if _, f, ok := core.LoadedField(lk.X); ok && f == urridsF && len(kn) == 1 && kn[0] == "lSeid" && len(dn) == 1 && dn[0] == "urrid" {
						pairDeleted = true
					}
				}
			}
		}
	})
	c.Check("R2", "del-removes-pair", serve.Pos(), pairDeleted, "DEL removes exactly the (event SEID, event URR id) pair")
	// ADD: MapUpdate perioList[e.period] = group dominated by newTicker ok
	addOK := false
	core.Instrs(serve, func(in ssa.Instruction) {
		if mu, ok := in.(*ssa.MapUpdate); ok && armOf(mu.Block()) == tADD {
			if _, f, ok := core.LoadedField(mu.Map); ok && f == listF {
				_, kn := core.FieldPath(mu.Key)
				for _, ci := range core.Calls(serve, newT) {
					if core.InstrDominates(ci.(ssa.Instruction), mu) && core.CallRecv(ci) == mu.Value && len(kn) == 1 && kn[0] == "period" {
						if core.NilKnownAt(mu.Block(), ci.Value(), true) {
							addOK = true
						}
					}
				}
			}
		}
	})
	c.Check("R2", "add-installs-group", serve.Pos(), addOK, "ADD installs a new group under the event's period only after its ticker was created successfully")
	pairAdded := 0
	core.Instrs(serve, func(in ssa.Instruction) {
		if mu, ok := in.(*ssa.MapUpdate); ok && armOf(mu.Block()) == tADD {
			_, kn := core.FieldPath(mu.Key)
			if len(kn) == 1 && kn[0] == "urrid" {
				pairAdded++
			}
		}
	})
	c.Check("R2", "add-inserts-pair", serve.Pos(), pairAdded >= 1, "ADD enters the event's URR id under the event's SEID")

	// TIMEOUT
	var query *ssa.Call
	core.Instrs(serve, func(in ssa.Instruction) {
		if cl, ok := in.(*ssa.Call); ok && armOf(cl.Block()) == tTIMEOUT {
			if _, f, ok := core.LoadedField(cl.Call.Value); ok && f.Name() == "queryURR" {
				query = cl
			}
		}
	})
	if query == nil {
		c.Check("R2", "tick-queries", serve.Pos(), false, "the TIMEOUT arm calls the query callback")
	} else {
		// group looked up by e.period
		var grp ssa.Value
		core.Instrs(serve, func(in ssa.Instruction) {
			if lk, ok := in.(*ssa.Lookup); ok && armOf(lk.Block()) == tTIMEOUT && lk.CommaOk {
				if _, f, ok := core.LoadedField(lk.X); ok && f == listF {
					if _, kn := core.FieldPath(lk.Index); len(kn) == 1 && kn[0] == "period" {
						for _, r := range *lk.Referrers() {
							if ex, ok := r.(*ssa.Extract); ok && ex.Index == 0 {
								grp = ex
							}
						}
					}
				}
			}
		})
		c.Check("R2", "tick-group", query.Pos(), grp != nil, "the group queried is the one registered under the tick's period")
		// the query map is built in the TIMEOUT arm itself, or by a method of the group called there
		// (lSeidUrridsMap = perioGroup.urrIdsBySeid()): then the copy loops are judged inside that method,
		// with its receiver standing for the group
		builder := serve
		base := grp
		inArm := func(b *ssa.BasicBlock) bool { return armOf(b) == tTIMEOUT }
		qmVal := query.Call.Args[0]
		if hc, isCall := qmVal.(*ssa.Call); isCall && !hc.Call.IsInvoke() && armOf(hc.Block()) == tTIMEOUT {
			if h := core.StaticFn(hc); h != nil && h.Blocks != nil && p.IsOwnFn(h) && grp != nil && core.CallRecv(hc) == grp && len(h.Params) >= 1 {
				var ret ssa.Value
				nRet := 0
				core.Instrs(h, func(hin ssa.Instruction) {
					if r, isR := hin.(*ssa.Return); isR && len(r.Results) == 1 {
						nRet++
						ret = r.Results[0]
					}
				})
				if nRet == 1 {
					builder, base, qmVal = h, h.Params[0], ret
					inArm = func(*ssa.BasicBlock) bool { return true }
				}
			}
		}
		qm, isMk := qmVal.(*ssa.MakeMap)
		c.Check("R2", "tick-query-map", query.Pos(), isMk && inArm(qm.Block()), "the query map is built freshly for this tick")
		// two nested ranges over grp.urrids / its values, appending into the query map; no exits
		var outer, inner *ssa.Range
		core.Instrs(builder, func(in ssa.Instruction) {
			if r, ok := in.(*ssa.Range); ok && inArm(r.Block()) {
				if base != nil && core.IsPath(r.X, base, "urrids") {
					outer = r
				} else if ex, ok := r.X.(*ssa.Extract); ok && ex.Index == 2 && outer != nil {
					if nx, ok := ex.Tuple.(*ssa.Next); ok && nx.Iter == ssa.Value(outer) {
						inner = r
					}
				}
			}
		})
		copied := false
		if outer != nil && inner != nil && isMk {
			core.Instrs(builder, func(in ssa.Instruction) {
				if mu, ok := in.(*ssa.MapUpdate); ok && mu.Map == ssa.Value(qm) {
					// key = outer key; value = append(qm[key], inner key)
					ko, ok1 := mu.Key.(*ssa.Extract)
					ap, ok2 := mu.Value.(*ssa.Call)
					if ok1 && ok2 && ko.Index == 1 {
						if nx, ok := ko.Tuple.(*ssa.Next); ok && nx.Iter == ssa.Value(outer) {
							for _, v := range variadicValues(ap.Call.Args[1]) {
								if ki, ok := v.(*ssa.Extract); ok && ki.Index == 1 {
									if nx2, ok := ki.Tuple.(*ssa.Next); ok && nx2.Iter == ssa.Value(inner) {
										copied = true
									}
								}
							}
						}
					}
				}
			})
		}
		c.Check("R2", "tick-copies-all-pairs", query.Pos(), copied, "every (SEID, URR id) pair of the group is entered into the query map (nested ranges over the group's sets)")
		if outer != nil {
			// no exit from the copy loops other than their own end: the query call is dominated by the outer range and
			// every block between them that belongs to the loops branches only on the iterators
			exits := false
			_ = exits
			hdrO := outer.Block().Succs[0]
			bad := false
			for _, b := range builder.Blocks {
				if b == hdrO || !inNaturalLoop(b, hdrO) {
					continue
				}
				for _, s := range b.Succs {
					if !inNaturalLoop(s, hdrO) {
						bad = true
					}
				}
			}
			isLoop := func(h *ssa.BasicBlock) bool {
				for _, pr := range h.Preds {
					if h.Dominates(pr) {
						return true
					}
				}
				return false
			}
			if !isLoop(hdrO) || (inner != nil && !isLoop(inner.Block().Succs[0])) {
				bad = true // a "loop" whose body always leaves it copies at most one element
			}
			c.Check("R2", "tick-copy-loop-complete", outer.Pos(), !bad, "nothing inside the copy loops leaves them early")
		}
		// results: OR PERIO into each, notify once per key
		var res ssa.Value
		for _, r := range *query.Referrers() {
			if ex, ok := r.(*ssa.Extract); ok && ex.Index == 0 {
				res = ex
			}
		}
		marked := false
		core.Instrs(serve, func(in ssa.Instruction) {
			if st, ok := in.(*ssa.Store); ok && armOf(st.Block()) == tTIMEOUT {
				if or, ok := st.Val.(*ssa.BinOp); ok && or.Op == token.OR {
					if k, ok := core.ConstInt(or.Y); ok && k == 1 {
						marked = true
					}
				}
			}
		})
		c.Check("R2", "tick-marks-perio", query.Pos(), marked, "every report of a tick is OR-ed with the PERIO usage-report trigger (bit 0)")
		notified := false
		var nfy ssa.CallInstruction
		core.Instrs(serve, func(in ssa.Instruction) {
			if ci, ok := in.(ssa.CallInstruction); ok && ci.Common().IsInvoke() && ci.Common().Method.Name() == "NotifySessReport" {
				nfy = ci
			}
		})
		if nfy != nil && res != nil {
			// inside a range over the result, SEID = range key
			if ld, ok := nfy.Common().Args[0].(*ssa.UnOp); ok {
				if al, ok := ld.X.(*ssa.Alloc); ok {
					as := map[string][]ssa.Value{}
					structAssigns(al, "", as, 0)
					if v := as["SEID"]; len(v) == 1 {
						if ex, ok := v[0].(*ssa.Extract); ok && ex.Index == 1 {
							if nx, ok := ex.Tuple.(*ssa.Next); ok {
								if rng, ok := nx.Iter.(*ssa.Range); ok && rng.X == res {
									notified = true
								}
							}
						}
					}
				}
			}
		}
		c.Check("R2", "tick-notifies-per-session", query.Pos(), notified, "one session report per SEID key of the query result, addressed with that key")
		// each session's notification owns its report list (shared with C10 R5): a list re-used for the
		// next session of the same tick would deliver that session's reports under this SEID
		freshReportLists(c, "R2")
		independentIterations(c, "R2", []*ssa.Function{p.SSAFn(p.Method(pkgPerio, "Server", "Serve")), p.SSAFn(p.Method(pkgFwd, "Gtp5g", "queryMultiURR"))})
	}

	// registrations and removals reach the server (a dropped ADD is a URR never queried, a dropped DEL one queried for ever)
	evtCh := p.Field(pkgPerio, "Server", "evtCh")
	losslessPost(c, "R2", p.SSAFn(p.Method(pkgPerio, "Server", "AddPeriodReportTimer")), evtCh, "registration with the periodic server")
	losslessPost(c, "R2", p.SSAFn(p.Method(pkgPerio, "Server", "DelPeriodReportTimer")), evtCh, "unregistration from the periodic server")

	tickAlwaysPosted(c, "R2")

	// R3 batching
	c15Batching(c)

	// R4
	sub, _ := core.NewCtx(c.P, "C03", c.Tier, c.Seed, c.OutDir, "")
	c03Periodic(sub, "R8", false)
	okR4 := true
	for _, f := range sub.Findings {
		if strings.Contains(f.Key, "del-on-remove") || strings.Contains(f.Key, "del-caller") {
			okR4 = false
		}
	}
	c.Check("R4", "removal-unregisters", token.NoPos, okR4, "the driver's Remove URR always unregisters the URR from periodic reporting before the rule is removed (C03 R8)")
	// "exactly the set ... currently registered with that period": the server keeps one entry per (SEID, URR, period
	// group) and a removal clears one group, so a URR must be registered once (C03 R8 add-caller)
	okOnce := true
	for _, f := range sub.Findings {
		if strings.Contains(f.Key, "add-caller") || strings.Contains(f.Key, "add-once") {
			okOnce = false
		}
	}
	c.Check("R4", "registered-once", token.NoPos, okOnce, "a URR is registered with the periodic server by Create URR only, or behind an unregistration of the same (SEID, URR): a second registration is queried at both cadences and survives the URR's removal (C03 R8)")
	// "none whose session has ended": every way a session ends (deletion, re-association of its node, SEID-0
	// report response) closes the session, and closing removes each of its URRs through Remove URR
	// (shared with C01 R5/R6)
	if calls, _ := driverCalls(c); calls != nil {
		sets := idSets(c, calls)
		renameRule(c, "R5", "R4", func() { c01Close(c, sets) })
		c01EndPaths(c, "R4", false)
		// Close only removes what the session still knows: a URR id is forgotten only where its final report is
		// emitted (C01 R4) - an id dropped on a failed create keeps its periodic registration for ever
		shareFrom(c, "C01", "R4", func(o *core.Obligation) bool {
			return o.Rule == "R4" && strings.Contains(o.Key, "/R4/forget-") && strings.Contains(o.Key, ":URR:")
		}, 2, "places that forget a URR id")
	}
}

func c15Batching(c *core.Ctx) {
	_ = c.P
	fn := fnOf(c, "R3", pkgFwd, "Gtp5g", "queryMultiURR")
	if fn == nil {
		return
	}
	var flushes []*ssa.Call
	core.Instrs(fn, func(in ssa.Instruction) {
		if cl, ok := in.(*ssa.Call); ok && core.Callee(cl) != nil && core.Callee(cl).Name() == "GetMultiReportsOID" {
			flushes = append(flushes, cl)
		}
	})
	if len(flushes) != 2 {
		c.Check("R3", "flush-sites", fn.Pos(), false, fmt.Sprintf("%d GetMultiReportsOID calls (in-loop flush and final flush expected)", len(flushes)))
		return
	}
	inLoop, final := flushes[0], flushes[1]
	if !inAnyLoop(inLoop) {
		inLoop, final = final, inLoop
	}
	c.Check("R3", "flush-sites", fn.Pos(), inAnyLoop(inLoop) && !inAnyLoop(final), "one flush inside the batching loop and one after it")
	// same client / link in both; the accumulator in both
	a, b := inLoop.Call.Args, final.Call.Args
	sameClient := a[0] == b[0]
	_, l1 := core.FieldPath(a[1])
	_, l2 := core.FieldPath(b[1])
	c.Check("R3", "flush-agree-client", final.Pos(), sameClient, "both flushes use the same netlink client value (the one selected by the ps flag)")
	c.Check("R3", "flush-agree-link", final.Pos(), strings.Join(l1, ".") == strings.Join(l2, ".") && len(l1) > 0, "both flushes address the same link")
	// accumulator: phi chain of appends of OID{seid, urrId}
	appended := false
	var acc *ssa.Phi
	if ap, ok := a[2].(*ssa.Call); ok {
		if bi, ok := ap.Call.Value.(*ssa.Builtin); ok && bi.Name() == "append" {
			acc, _ = ap.Call.Args[0].(*ssa.Phi)
			for _, v := range variadicValues(ap.Call.Args[1]) {
				vals := sliceLiteralValues(v)
				if len(vals) == 2 {
					k0, ok0 := core.Unwrap(vals[0]).(*ssa.Extract)
					appended = ok0 && k0.Index == 1
				}
			}
		}
	}
	c.Check("R3", "batch-appends-every-pair", inLoop.Pos(), appended && acc != nil, "every (SEID, URR id) pair of the query map is appended to the batch before the flush test")
	isEmpty := func(v ssa.Value) bool {
		var rec func(v ssa.Value, d int) bool
		rec = func(v ssa.Value, d int) bool {
			switch x := v.(type) {
			case *ssa.Const:
				return x.IsNil()
			case *ssa.Slice:
				return core.LenInterval(x, nil).Hi == 0
			case *ssa.MakeSlice:
				k, ok := core.ConstInt(x.Len)
				return ok && k == 0
			case *ssa.Phi:
				if d > 3 {
					return false
				}
				for _, e := range x.Edges {
					if !rec(e, d+1) {
						return false
					}
				}
				return true
			}
			return false
		}
		return rec(v, 0)
	}
	// after the in-loop flush the accumulator restarts empty AND the counter restarts at 0
	resetAcc, resetCnt := false, false
	if acc != nil {
		// every way back into the loop from behind the flush (also from its error handling) restarts empty
		nAfter, nEmpty := 0, 0
		for i, e := range acc.Edges {
			pred := acc.Block().Preds[i]
			if inLoop.Block().Dominates(pred) {
				nAfter++
				// x[:0], nil or make(.., 0), possibly merged after the error check
				if isEmpty(e) {
					nEmpty++
				}
			}
		}
		resetAcc = nAfter > 0 && nAfter == nEmpty
		// counter phi in the same header
		for _, in := range acc.Block().Instrs {
			ph, ok := in.(*ssa.Phi)
			if !ok || ph == acc || !isIntType(ph.Type()) {
				continue
			}
			nA, nZ := 0, 0
			for i, e := range ph.Edges {
				if inLoop.Block().Dominates(ph.Block().Preds[i]) {
					nA++
					if k, ok := core.ConstInt(e); ok && k == 0 {
						nZ++
					}
				}
			}
			if nA > 0 && nA == nZ {
				resetCnt = true
			}
		}
	}
	// the counter counts exactly what the accumulator holds: wherever control merges, the counter
	// restarts at 0 on precisely the edges on which the accumulator restarts empty
	if acc != nil {
		// families
		accFam, cntFam := map[ssa.Value]bool{}, map[ssa.Value]bool{}
		var grow func(v ssa.Value, fam map[ssa.Value]bool)
		grow = func(v ssa.Value, fam map[ssa.Value]bool) {
			if v == nil || fam[v] {
				return
			}
			switch x := v.(type) {
			case *ssa.Phi:
				fam[v] = true
				for _, e := range x.Edges {
					grow(e, fam)
				}
			case *ssa.Call:
				if bi, ok := x.Call.Value.(*ssa.Builtin); ok && bi.Name() == "append" {
					fam[v] = true
					grow(x.Call.Args[0], fam)
				}
			case *ssa.BinOp:
				if x.Op == token.ADD {
					fam[v] = true
					grow(x.X, fam)
				}
			}
		}
		grow(acc, accFam)
		for _, in := range acc.Block().Instrs {
			if ph, ok := in.(*ssa.Phi); ok && ph != acc && isIntType(ph.Type()) {
				grow(ph, cntFam)
			}
		}
		phiIn := func(b *ssa.BasicBlock, fam map[ssa.Value]bool) *ssa.Phi {
			for _, in := range b.Instrs {
				if ph, ok := in.(*ssa.Phi); ok && fam[ph] {
					return ph
				}
			}
			return nil
		}
		nM := 0
		for _, b := range fn.Blocks {
			cp, ap := phiIn(b, cntFam), phiIn(b, accFam)
			if cp == nil && ap == nil {
				continue
			}
			nM++
			agree, why := true, ""
			for i := range b.Preds {
				zero, empty := false, false
				if cp != nil {
					k, ok := core.ConstInt(cp.Edges[i])
					zero = ok && k == 0
				}
				if ap != nil {
					empty = isEmpty(ap.Edges[i])
				}
				if zero != empty {
					agree = false
					why = fmt.Sprintf("on the edge from block %d the counter restarts=%v but the accumulator restarts=%v", b.Preds[i].Index, zero, empty)
				}
			}
			pos := token.NoPos
			if cp != nil {
				pos = cp.Pos()
			} else {
				pos = ap.Pos()
			}
			c.Check("R3", fmt.Sprintf("counter-tracks-accumulator#%d", nM), pos, agree, "the batch counter and the batch restart together at every control-flow merge "+why)
		}
		c.Floor("R3", nM, 2, "merge points of the batch counter / accumulator")
	}
	c.Check("R3", "flush-resets-accumulator", inLoop.Pos(), resetAcc, "on every path back into the loop after a batch request (also a failed one) the accumulator restarts empty (otherwise later requests repeat the earlier URRs and exceed the per-message limit)")
	c.Check("R3", "flush-resets-counter", inLoop.Pos(), resetCnt, "after a full batch was sent the batch counter restarts at 0")
	// final flush iff non-empty, with the accumulator as left by the loop
	nonEmpty := false
	for _, f := range core.FactsAt(final.Block()) {
		if cmp, ok := f.V.(*ssa.BinOp); ok {
			if lc, ok := cmp.X.(*ssa.Call); ok {
				if bi, ok := lc.Call.Value.(*ssa.Builtin); ok && bi.Name() == "len" && lc.Call.Args[0] == b[2] {
					if z, ok := core.ConstInt(cmp.Y); ok && z == 0 && ((cmp.Op == token.GTR && f.True) || (cmp.Op == token.NEQ && f.True) || (cmp.Op == token.EQL && !f.True)) {
						nonEmpty = true
					}
				}
			}
		}
	}
	c.Check("R3", "final-flush-iff-nonempty", final.Pos(), nonEmpty, "the remainder is flushed exactly when the accumulator is non-empty")
	// results of both flushes are appended to the reports
	concat := 0
	for _, fl := range flushes {
		for _, r := range *fl.Referrers() {
			if ex, ok := r.(*ssa.Extract); ok && ex.Index == 0 {
				for _, u := range *ex.Referrers() {
					if ap, ok := u.(*ssa.Call); ok {
						if bi, ok := ap.Call.Value.(*ssa.Builtin); ok && bi.Name() == "append" {
							concat++
						}
					}
				}
			}
		}
	}
	c.Check("R3", "results-concatenated", fn.Pos(), concat == 2, "the reports of every flush are appended to the result")
	// the batch limit is the library's
	lim := false
	core.Instrs(fn, func(in ssa.Instruction) {
		if cl, ok := in.(*ssa.Call); ok && core.Callee(cl) != nil && core.Callee(cl).Name() == "MaxNetlinkUsageReportNum" {
			lim = true
		}
	})
	c.Check("R3", "batch-limit", fn.Pos(), lim, "the batch size is the netlink library's report limit")
	// the flush test: evaluated for "count == limit" it flushes, for "count == limit-1" it does not - a batch
	// never holds more than the limit (`>` instead of `>=` sends limit+1, which one netlink reply cannot hold)
	{
		var limV ssa.Value
		core.Instrs(fn, func(in ssa.Instruction) {
			if cl, ok := in.(*ssa.Call); ok && core.Callee(cl) != nil && core.Callee(cl).Name() == "MaxNetlinkUsageReportNum" {
				limV = cl
			}
		})
		decided := false
		for _, f := range core.FactsAt(inLoop.Block()) {
			cmp, ok := f.V.(*ssa.BinOp)
			if !ok || limV == nil {
				continue
			}
			var cntLeft bool
			switch {
			case cmp.Y == limV && isIntType(cmp.X.Type()):
				cntLeft = true
			case cmp.X == limV && isIntType(cmp.Y.Type()):
				cntLeft = false
			default:
				continue
			}
			truth := func(cnt, lim int) bool {
				l, r := cnt, lim
				if !cntLeft {
					l, r = lim, cnt
				}
				var v bool
				switch cmp.Op {
				case token.LSS:
					v = l < r
				case token.LEQ:
					v = l <= r
				case token.GTR:
					v = l > r
				case token.GEQ:
					v = l >= r
				case token.EQL:
					v = l == r
				case token.NEQ:
					v = l != r
				}
				return v == f.True // the flush block is entered when the condition has this value
			}
			decided = true
			c.Check("R3", "flush-at-limit", cmp.Pos(), truth(56, 56) && !truth(55, 56),
				fmt.Sprintf("the batch is sent when it holds exactly the limit (at count==limit: flush=%v, at limit-1: flush=%v)", truth(56, 56), truth(55, 56)))
		}
		if !decided {
			c.Undecided("R3", "flush-at-limit", inLoop.Pos(), "the in-loop flush is not guarded by a comparison of the batch counter with MaxNetlinkUsageReportNum()")
		}
	}
	_ = types.Typ
}

// tickAlwaysPosted: a ticker goroutine posts every tick: the send on the event channel is conditional only
// on the select arm that received from the ticker and on the channel being non-nil. Any further condition
// (a "one tick pending" flag, a rate limit) makes ticks depend on state that some other path must reset -
// one missed reset and the period is never queried again.
func tickAlwaysPosted(c *core.Ctx, rule string) {
	p := c.P
	classes := p.GoroutineClasses()
	tick := classes["TICK"]
	if tick == nil {
		c.Anchor(rule, "goroutine class TICK (ticker goroutines of the periodic server)")
		return
	}
	n := 0
	for _, root := range tick.Roots {
		core.Instrs(root, func(in ssa.Instruction) {
			sd, ok := in.(*ssa.Send)
			if !ok {
				return
			}
			n++
			extra := ""
			for _, f := range core.FactsAt(sd.Block()) {
				// the select arm: index == k
				if cmp, ok := f.V.(*ssa.BinOp); ok {
					if ex, ok := cmp.X.(*ssa.Extract); ok {
						if _, isSel := ex.Tuple.(*ssa.Select); isSel {
							continue
						}
					}
					// evtCh != nil
					if x, _, ok := core.NilCmp(cmp); ok && core.Unwrap(x) == core.Unwrap(sd.Chan) {
						continue
					}
				}
				if f.V == sd.Chan {
					continue
				}
				extra = fmt.Sprintf("%T %s", f.V, f.V.String())
			}
			c.Check(rule, "tick-always-posted:"+core.FnName(root), sd.Pos(), extra == "", "every tick is posted to the periodic server (the send depends only on the ticker arm and on the channel being non-nil) "+extra)
		})
	}
	c.Floor(rule, n, 1, "tick posts in ticker goroutines")
}
