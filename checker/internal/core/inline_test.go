package core

import (
	"bytes"
	"go/ast"
	"go/importer"
	"go/parser"
	"go/token"
	"go/types"
	"strings"
	"testing"

	"golang.org/x/tools/go/ssa"
	"golang.org/x/tools/go/ssa/ssautil"
)

// The fixture exercises the build-time expansion and the clean-up passes of the vendored go/ssa
// (xtools/go/ssa/inline_upf.go, thread_upf.go): multi-result helpers with early error returns, a pointer-receiver
// helper type, a literal callback, a method-value callback, a nil callback and a local closure.
const inlineFixture = `package p

import "errors"

type table struct{ items []*int }

func (t *table) helperLookup(k int) (*int, error) {
	if k == 0 {
		return nil, errors.New("zero")
	}
	if k > len(t.items) {
		return nil, errors.New("range")
	}
	v := t.items[k-1]
	if v == nil {
		return nil, errors.New("empty")
	}
	return v, nil
}

func (t *table) Get(k int) (int, error) {
	v, err := t.helperLookup(k)
	if err != nil {
		return 0, err
	}
	return *v, nil
}

type helperCursor struct {
	xs  []int
	pos int
}

func (c *helperCursor) helperNext() (int, bool) {
	if c.pos >= len(c.xs) {
		return 0, false
	}
	v := c.xs[c.pos]
	c.pos++
	return v, true
}

func Sum(xs []int) int {
	c := helperCursor{xs: xs}
	s := 0
	for {
		v, ok := c.helperNext()
		if !ok {
			break
		}
		s += v
	}
	return s
}

func helperEach(xs []int, f func(int)) {
	for _, x := range xs {
		if f != nil {
			f(x)
		}
	}
}

type acc struct{ n int }

func (a *acc) add(x int) { a.n += x }

func Total(xs []int) int {
	t := 0
	helperEach(xs, func(x int) { t += x })
	return t
}

func TotalM(xs []int) int {
	a := &acc{}
	helperEach(xs, a.add)
	return a.n
}

func Nothing(xs []int) { helperEach(xs, nil) }

func helperSum[T int | int64](xs []T) (T, error) {
	var s T
	for _, x := range xs {
		if x < 0 {
			return 0, errors.New("negative")
		}
		s += x
	}
	return s, nil
}

func SumBoth(a []int, b []int64) (int64, error) {
	x, err := helperSum(a)
	if err != nil {
		return 0, err
	}
	y, err := helperSum(b)
	if err != nil {
		return 0, err
	}
	return int64(x) + y, nil
}

func Twice(x int) int {
	double := func(v int) int { return v + v }
	return double(double(x))
}
`

func buildFixture(t *testing.T) *ssa.Package {
	t.Helper()
	fset := token.NewFileSet()
	f, err := parser.ParseFile(fset, "p.go", inlineFixture, 0)
	if err != nil {
		t.Fatal(err)
	}
	old := ssa.InlineFilter
	ssa.InlineFilter = func(callee *types.Func) bool { return strings.HasPrefix(callee.Name(), "helper") }
	t.Cleanup(func() { ssa.InlineFilter = old })
	pkg, _, err := ssautil.BuildPackage(&types.Config{Importer: importer.ForCompiler(fset, "source", nil)}, fset,
		types.NewPackage("p", "p"), []*ast.File{f}, ssa.SanityCheckFunctions|ssa.InstantiateGenerics)
	if err != nil {
		t.Fatal(err)
	}
	return pkg
}

func fnText(fn *ssa.Function) string {
	var b bytes.Buffer
	fn.WriteTo(&b)
	return b.String()
}

func TestExpansionAndThreading(t *testing.T) {
	pkg := buildFixture(t)
	get := pkg.Prog.FuncValue(pkg.Type("table").Object().Type().(*types.Named).Method(0))
	for i := 0; i < 2; i++ {
		m := pkg.Type("table").Object().Type().(*types.Named).Method(i)
		if m.Name() == "Get" {
			get = pkg.Prog.FuncValue(m)
		}
	}
	txt := fnText(get)
	if strings.Contains(txt, "helperLookup(") {
		t.Errorf("the helper call was not expanded:\n%s", txt)
	}
	// threaded: the success path has no phi — the loaded element flows straight to the dereference
	for _, b := range get.Blocks {
		for _, in := range b.Instrs {
			if _, ok := in.(*ssa.Phi); ok && len(b.Preds) > 0 {
				if r, isRet := b.Instrs[len(b.Instrs)-1].(*ssa.Return); isRet && len(r.Results) == 2 {
					if c, isC := r.Results[1].(*ssa.Const); isC && c.IsNil() {
						t.Errorf("a phi feeds the success return: the merge block was not threaded\n%s", txt)
					}
				}
			}
		}
	}
	sum := pkg.Func("Sum")
	if s := fnText(sum); strings.Contains(s, "helperNext(") || strings.Contains(s, "local helperCursor") || strings.Contains(s, "new helperCursor") {
		t.Errorf("cursor not expanded / not split into scalars:\n%s", s)
	}
	tot := pkg.Func("Total")
	if s := fnText(tot); strings.Contains(s, "make closure") || strings.Contains(s, "helperEach(") {
		t.Errorf("literal callback not expanded or its closure not removed:\n%s", s)
	}
	totm := pkg.Func("TotalM")
	if s := fnText(totm); strings.Contains(s, "helperEach(") || !strings.Contains(s, ".add(") {
		t.Errorf("method-value callback not turned into a static call:\n%s", s)
	}
	none := pkg.Func("Nothing")
	for _, b := range none.Blocks {
		for _, in := range b.Instrs {
			if c, ok := in.(*ssa.Call); ok && c.Call.StaticCallee() == nil && !c.Call.IsInvoke() {
				if _, isB := c.Call.Value.(*ssa.Builtin); !isB {
					t.Errorf("a call through the nil callback survived constant-branch folding:\n%s", fnText(none))
				}
			}
		}
	}
	sb := pkg.Func("SumBoth")
	if s := fnText(sb); strings.Contains(s, "helperSum[") {
		t.Errorf("instances of the generic helper not expanded:\n%s", s)
	}
	tw := pkg.Func("Twice")
	if s := fnText(tw); strings.Contains(s, "make closure") || strings.Contains(s, "double(") {
		t.Errorf("local closure not expanded:\n%s", s)
	}
}
