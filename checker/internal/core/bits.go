package core

import (
	"fmt"
	"go/token"
	"go/types"
	"strings"

	"golang.org/x/tools/go/ssa"
)

// Bit provenance: every bit of a value is 0, 1, bit Idx of source Src, or unknown.
type BitKind uint8

const (
	BUnknown BitKind = iota
	BZero
	BOne
	BSrc
)

type Bit struct {
	Kind BitKind
	Src  any // ssa.Value or a symbolic name (string)
	Idx  int
}

type BitVec []Bit // index 0 = least significant bit

func ConstBits(v uint64, w int) BitVec {
	out := make(BitVec, w)
	for i := 0; i < w; i++ {
		if v>>uint(i)&1 == 1 {
			out[i] = Bit{Kind: BOne}
		} else {
			out[i] = Bit{Kind: BZero}
		}
	}
	return out
}

func SrcBits(src any, w int) BitVec {
	out := make(BitVec, w)
	for i := range out {
		out[i] = Bit{BSrc, src, i}
	}
	return out
}

func UnknownBits(w int) BitVec { return make(BitVec, w) }

func (b BitVec) Resize(w int, signed bool) BitVec {
	out := make(BitVec, w)
	for i := range out {
		switch {
		case i < len(b):
			out[i] = b[i]
		case signed && len(b) > 0 && b[len(b)-1].Kind != BZero:
			if b[len(b)-1].Kind == BOne {
				out[i] = Bit{Kind: BOne}
			} else {
				out[i] = Bit{} // sign bit unknown/sourced: extension unknown
			}
		default:
			out[i] = Bit{Kind: BZero}
		}
	}
	return out
}

func (b BitVec) Shl(n int) BitVec {
	out := make(BitVec, len(b))
	for i := range out {
		if i-n >= 0 && i-n < len(b) {
			out[i] = b[i-n]
		} else {
			out[i] = Bit{Kind: BZero}
		}
	}
	return out
}

func (b BitVec) Shr(n int) BitVec { // logical
	out := make(BitVec, len(b))
	for i := range out {
		if i+n < len(b) {
			out[i] = b[i+n]
		} else {
			out[i] = Bit{Kind: BZero}
		}
	}
	return out
}

func bitAnd(a, b Bit) Bit {
	switch {
	case a.Kind == BZero || b.Kind == BZero:
		return Bit{Kind: BZero}
	case a.Kind == BOne:
		return b
	case b.Kind == BOne:
		return a
	case a.Kind == BSrc && b.Kind == BSrc && a.Src == b.Src && a.Idx == b.Idx:
		return a
	}
	return Bit{}
}

func bitOr(a, b Bit) Bit {
	switch {
	case a.Kind == BOne || b.Kind == BOne:
		return Bit{Kind: BOne}
	case a.Kind == BZero:
		return b
	case b.Kind == BZero:
		return a
	case a.Kind == BSrc && b.Kind == BSrc && a.Src == b.Src && a.Idx == b.Idx:
		return a
	}
	return Bit{}
}

func bitNot(a Bit) Bit {
	switch a.Kind {
	case BZero:
		return Bit{Kind: BOne}
	case BOne:
		return Bit{Kind: BZero}
	}
	return Bit{}
}

func bitXor(a, b Bit) Bit {
	switch {
	case a.Kind == BZero:
		return b
	case b.Kind == BZero:
		return a
	case a.Kind == BOne:
		return bitNot(b)
	case b.Kind == BOne:
		return bitNot(a)
	}
	return Bit{}
}

func zip(a, b BitVec, f func(Bit, Bit) Bit) BitVec {
	out := make(BitVec, len(a))
	for i := range out {
		var y Bit = Bit{Kind: BZero}
		if i < len(b) {
			y = b[i]
		}
		out[i] = f(a[i], y)
	}
	return out
}

func (a BitVec) And(b BitVec) BitVec { return zip(a, b, bitAnd) }
func (a BitVec) Or(b BitVec) BitVec  { return zip(a, b, bitOr) }
func (a BitVec) Xor(b BitVec) BitVec { return zip(a, b, bitXor) }
func (a BitVec) AndNot(b BitVec) BitVec {
	return zip(a, b, func(x, y Bit) Bit { return bitAnd(x, bitNot(y)) })
}

// Add: exact when no bit position has two possibly-non-zero operands (no carries), or both constant.
func (a BitVec) Add(b BitVec) BitVec {
	if va, ok := a.Const(); ok {
		if vb, ok := b.Const(); ok {
			return ConstBits(va+vb, len(a))
		}
	}
	disjoint := true
	for i := range a {
		if i < len(b) && a[i].Kind != BZero && b[i].Kind != BZero {
			disjoint = false
		}
	}
	if disjoint {
		return a.Or(b)
	}
	return UnknownBits(len(a))
}

func (a BitVec) Const() (uint64, bool) {
	var v uint64
	for i, b := range a {
		switch b.Kind {
		case BOne:
			if i < 64 {
				v |= 1 << uint(i)
			}
		case BZero:
		default:
			return 0, false
		}
	}
	return v, true
}

// String renders e.g. "[7..4]=PDUType[3..0] [3..0]=0".
func (a BitVec) String() string {
	var parts []string
	i := len(a) - 1
	for i >= 0 {
		j := i
		switch a[i].Kind {
		case BZero, BOne, BUnknown:
			for j-1 >= 0 && a[j-1].Kind == a[i].Kind {
				j--
			}
			sym := map[BitKind]string{BZero: "0", BOne: "1", BUnknown: "?"}[a[i].Kind]
			parts = append(parts, fmt.Sprintf("[%d..%d]=%s", i, j, sym))
		case BSrc:
			for j-1 >= 0 && a[j-1].Kind == BSrc && a[j-1].Src == a[i].Src && a[j-1].Idx == a[j].Idx-1 {
				j--
			}
			parts = append(parts, fmt.Sprintf("[%d..%d]=%s[%d..%d]", i, j, srcName(a[i].Src), a[i].Idx, a[j].Idx))
		}
		i = j - 1
	}
	return strings.Join(parts, " ")
}

func srcName(s any) string {
	switch x := s.(type) {
	case string:
		return x
	case ssa.Value:
		return x.Name()
	}
	return fmt.Sprint(s)
}

// IsField reports whether bits [lo, lo+n) of the vector are exactly bits [slo, slo+n) of src.
func (a BitVec) IsField(lo, n int, src any, slo int) bool {
	for i := 0; i < n; i++ {
		if lo+i >= len(a) {
			return false
		}
		b := a[lo+i]
		if b.Kind != BSrc || b.Src != src || b.Idx != slo+i {
			return false
		}
	}
	return true
}

// IsZero reports whether bits [lo, lo+n) are all zero.
func (a BitVec) IsZero(lo, n int) bool {
	for i := 0; i < n; i++ {
		if lo+i < len(a) && a[lo+i].Kind != BZero {
			return false
		}
	}
	return true
}

func widthOf(t types.Type) (w int, signed bool, ok bool) {
	b, isB := t.Underlying().(*types.Basic)
	if !isB {
		return 0, false, false
	}
	switch b.Kind() {
	case types.Bool:
		return 1, false, true
	case types.Int8:
		return 8, true, true
	case types.Uint8:
		return 8, false, true
	case types.Int16:
		return 16, true, true
	case types.Uint16:
		return 16, false, true
	case types.Int32:
		return 32, true, true
	case types.Uint32:
		return 32, false, true
	case types.Int, types.Int64:
		return 64, true, true
	case types.Uint, types.Uint64, types.Uintptr:
		return 64, false, true
	}
	return 0, false, false
}

// WidthOf exposes the bit width of an integer type.
func WidthOf(t types.Type) (int, bool) {
	w, _, ok := widthOf(t)
	return w, ok
}

// BitsOf evaluates the provenance of an SSA integer expression.  Leaves (parameters, loads, call
// results...) are sources identified by their SSA value; `leaf` may map a value to another
// source identity or vector (return nil to use the default).
func BitsOf(v ssa.Value, leaf func(ssa.Value) BitVec) BitVec {
	return bitsOf(v, leaf, 0)
}

func bitsOf(v ssa.Value, leaf func(ssa.Value) BitVec, depth int) BitVec {
	w, signed, ok := widthOf(v.Type())
	if !ok {
		return nil
	}
	if depth > 24 {
		return UnknownBits(w)
	}
	if leaf != nil {
		if bv := leaf(v); bv != nil {
			return bv.Resize(w, false)
		}
	}
	switch x := v.(type) {
	case *ssa.Const:
		if x.Value == nil {
			return ConstBits(0, w)
		}
		if n, ok := ConstInt(x); ok {
			return ConstBits(uint64(n), w)
		}
		return UnknownBits(w)
	case *ssa.Convert:
		_, sSigned, sok := widthOf(x.X.Type())
		if !sok {
			return UnknownBits(w)
		}
		return bitsOf(x.X, leaf, depth+1).Resize(w, sSigned)
	case *ssa.ChangeType:
		return bitsOf(x.X, leaf, depth+1).Resize(w, signed)
	case *ssa.BinOp:
		a := bitsOf(x.X, leaf, depth+1)
		if a == nil {
			return UnknownBits(w)
		}
		switch x.Op {
		case token.SHL, token.SHR:
			n, ok := ConstInt(x.Y)
			if !ok {
				if c, ok2 := bitsOf(x.Y, leaf, depth+1).Const(); ok2 {
					n, ok = int64(c), true
				}
			}
			if !ok || n < 0 {
				return UnknownBits(w)
			}
			if x.Op == token.SHL {
				return a.Shl(int(n))
			}
			if signed && a[len(a)-1].Kind != BZero {
				return UnknownBits(w) // arithmetic shift of possibly negative value
			}
			return a.Shr(int(n))
		}
		b := bitsOf(x.Y, leaf, depth+1)
		if b == nil {
			return UnknownBits(w)
		}
		b = b.Resize(w, false)
		switch x.Op {
		case token.AND:
			return a.And(b)
		case token.OR:
			return a.Or(b)
		case token.XOR:
			return a.Xor(b)
		case token.AND_NOT:
			return a.AndNot(b)
		case token.ADD:
			return a.Add(b)
		case token.MUL:
			// multiplication by a power of two constant = shift
			if c, ok := b.Const(); ok && c != 0 && c&(c-1) == 0 {
				n := 0
				for c>>uint(n) != 1 {
					n++
				}
				return a.Shl(n)
			}
		case token.QUO:
			if c, ok := b.Const(); ok && c != 0 && c&(c-1) == 0 && !signed {
				n := 0
				for c>>uint(n) != 1 {
					n++
				}
				return a.Shr(n)
			}
		}
		return UnknownBits(w)
	case *ssa.UnOp:
		if x.Op == token.XOR {
			a := bitsOf(x.X, leaf, depth+1)
			out := make(BitVec, len(a))
			for i := range a {
				out[i] = bitNot(a[i])
			}
			return out
		}
	}
	return SrcBits(v, w)
}
