package core

import (
	_ "embed"
	"encoding/json"
	"go/types"
	"os"
	"sort"
	"strings"
	"sync"

	"golang.org/x/tools/go/packages"
	"golang.org/x/tools/go/ssa"
)

// reffuncs.json lists every function and method declared in go-upf's own packages on the reference tree (the
// tree the rules were written for).  A declared function that is NOT in this list was introduced by a later
// change — typically by extracting part of a known function into a helper, or by giving a group of loose
// values a small type with methods.  The SSA builder (vendored go/ssa, inline_upf.go) expands static calls of
// such functions into their callers, so that the rules see the known functions with the code they contained;
// on the reference tree itself nothing is expanded.  A new function that takes the place of a known one that
// has disappeared (a rename, or a method turned into a plain function) is resolved as that known function by
// Program.Method/Func and is not expanded.
//
//go:embed reffuncs.json
var refFuncsJSON []byte

var (
	refFuncs    map[string]bool
	refFuncOnce sync.Once
)

func refFuncSet() map[string]bool {
	refFuncOnce.Do(func() {
		var l []string
		_ = json.Unmarshal(refFuncsJSON, &l)
		refFuncs = map[string]bool{}
		for _, n := range l {
			refFuncs[n] = true
		}
	})
	return refFuncs
}

// declaredFuncs lists the functions and methods declared in the own packages of a loaded program.
func declaredFuncs(roots []*packages.Package) []*types.Func {
	var out []*types.Func
	packages.Visit(roots, nil, func(pk *packages.Package) {
		if !strings.HasPrefix(pk.PkgPath, ModPath) || pk.TypesInfo == nil {
			return
		}
		for _, obj := range pk.TypesInfo.Defs {
			if f, ok := obj.(*types.Func); ok && f.Pkg() != nil {
				if sig, ok := f.Type().(*types.Signature); ok && sig.Recv() != nil {
					if _, isIface := sig.Recv().Type().Underlying().(*types.Interface); isIface {
						continue
					}
				}
				out = append(out, f)
			}
		}
	})
	sort.Slice(out, func(i, j int) bool { return out[i].FullName() < out[j].FullName() })
	return out
}

// WriteRefFuncs regenerates reffuncs.json from the tree at repo (developer aid: `dbg <repo> reffuncs <file>`).
func WriteRefFuncs(repo, file string) error {
	cfg := &packages.Config{Mode: packages.LoadAllSyntax, Dir: repo, Env: Env()}
	roots, err := packages.Load(cfg, "./...")
	if err != nil {
		return err
	}
	var names []string
	for _, f := range declaredFuncs(roots) {
		names = append(names, f.FullName())
	}
	b, _ := json.MarshalIndent(names, "", " ")
	return os.WriteFile(file, append(b, '\n'), 0o644)
}

// NewFunctions: the declared functions that are not part of the reference tree and do not replace a missing one.
var NewFunctions = map[string]bool{}

// installInlineFilter decides, before the SSA form is built, which functions are expanded into their callers.
func installInlineFilter(roots []*packages.Package) {
	ref := refFuncSet()
	if os.Getenv("UPF_NO_INLINE") != "" || len(ref) == 0 {
		ssa.InlineFilter = nil
		return
	}
	decl := declaredFuncs(roots)
	present := map[string]bool{}
	for _, f := range decl {
		present[f.FullName()] = true
	}
	// names of reference functions that are gone, per package (a new function of that — or nearly that — name
	// takes their place and stays a function of its own)
	missing := map[string][]string{}
	for n := range ref {
		if !present[n] {
			i := strings.LastIndex(n, ".")
			pkg := n[:i]
			pkg = strings.TrimPrefix(pkg, "(*")
			pkg = strings.TrimPrefix(pkg, "(")
			if j := strings.LastIndex(pkg, "."); j >= 0 && strings.Contains(pkg[j:], ")") {
				pkg = pkg[:j]
			}
			missing[pkg] = append(missing[pkg], n[i+1:])
		}
	}
	isNew := map[*types.Func]bool{}
	NewFunctions = map[string]bool{}
	for _, f := range decl {
		if ref[f.FullName()] {
			continue
		}
		replaces := false
		for _, m := range missing[f.Pkg().Path()] {
			if m == f.Name() || nearName(m, f.Name()) {
				replaces = true
			}
		}
		if replaces || f.Name() == "init" || f.Name() == "main" {
			continue
		}
		isNew[f] = true
		NewFunctions[f.FullName()] = true
	}
	if len(isNew) == 0 {
		ssa.InlineFilter = nil
		return
	}
	ssa.InlineFilter = func(callee *types.Func) bool { return isNew[callee] }
}
