package core

import (
	"sort"
	"strings"

	"golang.org/x/tools/go/ssa"
)

// GClass is a goroutine class: a root function and everything it reaches without crossing a
// `go` statement.
type GClass struct {
	Name  string
	Roots []*ssa.Function
	Reach map[*ssa.Function]*ssa.Function // function -> predecessor on a shortest call path
}

// known roots -> class names (role anchors; unknown roots get "G:<function>")
var classByRoot = []struct{ pkg, typ, name, anon, class string }{
	{"internal/pfcp", "PfcpServer", "main", "", "EL"},
	{"internal/pfcp", "PfcpServer", "receiver", "", "RCV"},
	{"internal/forwarder/perio", "Server", "Serve", "", "PERIO"},
	{"internal/forwarder/perio", "PERIOGroup", "newTicker", "$1", "TICK"},
	{"internal/forwarder", "", "OpenGtp5g", "$1", "MUX"},
	{"pkg/app", "UpfApp", "listenShutdownEvent", "", "SHUT"},
	{"internal/pfcp", "TxTransaction", "startTimer", "$1", "TMR"},
	{"internal/pfcp", "RxTransaction", "startTimer", "$1", "TMR"},
}

// GoroutineClasses discovers the goroutine roots of own code: callees of `go` statements,
// callbacks handed to time.AfterFunc, and main.main.
func (p *Program) GoroutineClasses() map[string]*GClass {
	if p.gclasses == nil {
		p.gclasses = p.goroutineClasses()
	}
	return p.gclasses
}

func (p *Program) goroutineClasses() map[string]*GClass {
	roots := map[*ssa.Function]bool{}
	spawner := map[*ssa.Function]*ssa.Function{} // root -> the declared function that starts it
	timerRoot := map[*ssa.Function]bool{}        // started by time.AfterFunc
	outer := func(fn *ssa.Function) *ssa.Function {
		for fn.Parent() != nil {
			fn = fn.Parent()
		}
		return fn
	}
	for _, fn := range p.OwnFuncs() {
		Instrs(fn, func(in ssa.Instruction) {
			switch x := in.(type) {
			case *ssa.Go:
				if f := goTarget(x.Call.Value, x.Common()); f != nil {
					roots[f] = true
					spawner[f] = outer(fn)
				}
			case *ssa.Call:
				if f := Callee(x); f != nil && IsPkgFunc(f, "time", "AfterFunc") && len(x.Call.Args) == 2 {
					if t := funcValue(x.Call.Args[1]); t != nil {
						roots[t] = true
						spawner[t] = outer(fn)
						timerRoot[t] = true
					}
				}
			}
		})
	}
	if pk := p.Pkg("cmd"); pk != nil {
		if sp := p.SSA.Package(pk.Types); sp != nil {
			if m := sp.Func("main"); m != nil {
				roots[m] = true
			}
		}
	}
	out := map[string]*GClass{}
	var rs []*ssa.Function
	for r := range roots {
		rs = append(rs, r)
	}
	sort.Slice(rs, func(i, j int) bool { return rs[i].String() < rs[j].String() })
	for _, r := range rs {
		name := ""
		for _, k := range classByRoot {
			var decl *ssa.Function
			if k.typ == "" {
				decl = p.SSAFn(p.Func(k.pkg, k.name))
			} else {
				decl = p.SSAFn(p.Method(k.pkg, k.typ, k.name))
			}
			if decl == nil {
				continue
			}
			if k.anon == "" && r == decl {
				name = k.class
			}
			// a goroutine / timer callback started inside decl: the closure of the pinned tree, or - after a
			// refactoring - a named function or method value started from the same place
			if k.anon != "" && (r.Parent() == decl && strings.HasSuffix(r.Name(), k.anon) || (spawner[r] == decl && r != decl)) {
				name = k.class
			}
		}
		// transaction timer callbacks are a role, not a place: whatever time.AfterFunc is handed inside
		// the pfcp package (the timer may be armed by the constructor instead of startTimer)
		if name == "" && timerRoot[r] && spawner[r] != nil && FnPkg(spawner[r]) != nil && strings.HasSuffix(FnPkg(spawner[r]).Path(), "internal/pfcp") {
			name = "TMR"
		}
		if name == "" {
			if r.Name() == "main" && r.Pkg != nil && r.Pkg.Pkg.Name() == "main" {
				name = "MAIN"
			} else {
				name = "G:" + FnName(r)
			}
		}
		g := out[name]
		if g == nil {
			g = &GClass{Name: name}
			out[name] = g
		}
		g.Roots = append(g.Roots, r)
	}
	for _, g := range out {
		g.Reach = p.ReachFrom(g.Roots, true)
	}
	return out
}

func goTarget(v ssa.Value, cc *ssa.CallCommon) *ssa.Function {
	if f := cc.StaticCallee(); f != nil {
		return f
	}
	return funcValue(v)
}

func funcValue(v ssa.Value) *ssa.Function {
	switch x := v.(type) {
	case *ssa.Function:
		return x
	case *ssa.MakeClosure:
		if f, ok := x.Fn.(*ssa.Function); ok {
			return f
		}
	}
	return nil
}

// ClassesOf returns the names of the classes whose reach contains fn.
func ClassesOf(classes map[string]*GClass, fn *ssa.Function) []string {
	var out []string
	for n, g := range classes {
		if _, ok := g.Reach[fn]; ok {
			out = append(out, n)
		}
	}
	sort.Strings(out)
	return out
}
