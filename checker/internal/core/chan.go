package core

import (
	"fmt"
	"go/token"
	"go/types"
	"sort"
	"strings"

	"golang.org/x/tools/go/ssa"
)

// ChanOp is one channel operation of the program.
type ChanOp struct {
	Kind     string // send | recv | close | make
	Instr    ssa.Instruction
	Fn       *ssa.Function
	Chan     string // channel identity (see ChanIDs)
	Blocking bool   // false inside a select with default
	Multi    bool   // one of several arms of a blocking select (waits for ANY of them)
	Cap      int64  // for make: capacity (-1 unknown)
}

// chanPkgs: packages whose channel operations are inventoried (own code + the netlink libraries it drives).
func (p *Program) chanScope(fn *ssa.Function) bool {
	pk := FnPkg(fn)
	if pk == nil {
		return false
	}
	if p.IsOwn(pk) {
		return !strings.Contains(pk.Path(), "/testtools/")
	}
	switch pk.Path() {
	case PkgNL, PkgGtp5gnl, "github.com/khirono/go-genl", "github.com/khirono/go-rtnllink", "github.com/khirono/go-rtnlroute":
		return true
	}
	return false
}

// ChanID resolves a channel value to an identity: the struct field it is loaded from, the make site,
// or — through parameters and closure variables — what the callers pass.
func (p *Program) ChanID(v ssa.Value) string { return p.chanID(v, 0) }

func (p *Program) chanID(v ssa.Value, depth int) string {
	if depth > 10 || v == nil {
		return "?"
	}
	v = Unwrap(v)
	switch x := v.(type) {
	case *ssa.MakeChan:
		// a channel made for a struct field (a completion signal sent along inside a message) is that field
		if refs := x.Referrers(); refs != nil {
			for _, r := range *refs {
				if st, ok := r.(*ssa.Store); ok && st.Val == x {
					if fa, ok := st.Addr.(*ssa.FieldAddr); ok {
						return "field:" + fieldOwner(fa) + "." + FieldOfAddr(fa).Name()
					}
				}
			}
		}
		return "make:" + p.Pos(x.Pos())
	case *ssa.UnOp:
		if x.Op == token.MUL {
			if fa, ok := x.X.(*ssa.FieldAddr); ok {
				f := FieldOfAddr(fa)
				return "field:" + fieldOwner(fa) + "." + f.Name()
			}
			if fv, ok := x.X.(*ssa.FreeVar); ok {
				return p.freeVarChan(fv, depth+1)
			}
		}
	case *ssa.Field:
		return "field:" + strings.TrimPrefix(x.X.Type().String(), ModPath+"/") + "." + FieldOfField(x).Name()
	case *ssa.FreeVar:
		return p.freeVarChan(x, depth+1)
	case *ssa.Parameter:
		// unify over the call sites of the function
		fn := x.Parent()
		idx := -1
		for i, pr := range fn.Params {
			if pr == x {
				idx = i
			}
		}
		ids := map[string]bool{}
		for _, e := range p.Callers(fn) {
			if e.Site == nil {
				continue
			}
			args := e.Site.Common().Args
			if e.Site.Common().IsInvoke() {
				continue
			}
			if idx < len(args) {
				ids[p.chanID(args[idx], depth+1)] = true
			}
		}
		if len(ids) == 1 {
			for id := range ids {
				return id
			}
		}
	case *ssa.Phi:
		ids := map[string]bool{}
		for _, e := range x.Edges {
			ids[p.chanID(e, depth+1)] = true
		}
		if len(ids) == 1 {
			for id := range ids {
				return id
			}
		}
	case *ssa.Call:
		// context.Context.Done() and similar: a close-only signal channel
		if f := Callee(x); f != nil && f.Name() == "Done" {
			return "done:" + p.Pos(x.Pos())
		}
	}
	if ct, ok := v.Type().Underlying().(*types.Chan); ok {
		return "elem:" + ct.Elem().String()
	}
	return "?"
}

func fieldOwner(fa *ssa.FieldAddr) string {
	t := fa.X.Type()
	if pt, ok := t.Underlying().(*types.Pointer); ok {
		t = pt.Elem()
	}
	s := t.String()
	s = strings.TrimPrefix(s, ModPath+"/")
	return s
}

func (p *Program) freeVarChan(fv *ssa.FreeVar, depth int) string {
	fn := fv.Parent()
	par := fn.Parent()
	if par == nil {
		return "?"
	}
	idx := -1
	for i, f := range fn.FreeVars {
		if f == fv {
			idx = i
		}
	}
	ids := map[string]bool{}
	for _, b := range par.Blocks {
		for _, in := range b.Instrs {
			if mc, ok := in.(*ssa.MakeClosure); ok && mc.Fn == ssa.Value(fn) && idx < len(mc.Bindings) {
				bnd := mc.Bindings[idx]
				// binding is the variable's cell (Alloc) or the value (parameter captured by value is a cell too)
				if al, ok := bnd.(*ssa.Alloc); ok {
					if val, ok := SingleStore(al); ok {
						ids[p.chanID(val, depth+1)] = true
						continue
					}
				}
				ids[p.chanID(bnd, depth+1)] = true
			}
		}
	}
	if len(ids) == 1 {
		for id := range ids {
			return id
		}
	}
	return "?"
}

// ChanOps inventories the channel operations of own code and the netlink libraries.
func (p *Program) ChanOps() []ChanOp {
	var out []ChanOp
	var fns []*ssa.Function
	for fn := range p.AllFuncs() {
		if fn.Blocks != nil && p.chanScope(fn) {
			fns = append(fns, fn)
		}
	}
	sort.Slice(fns, func(i, j int) bool { return fns[i].String() < fns[j].String() })
	for _, fn := range fns {
		Instrs(fn, func(in ssa.Instruction) {
			switch x := in.(type) {
			case *ssa.Send:
				out = append(out, ChanOp{Kind: "send", Instr: in, Fn: fn, Chan: p.ChanID(x.Chan), Blocking: true})
			case *ssa.UnOp:
				if x.Op == token.ARROW {
					out = append(out, ChanOp{Kind: "recv", Instr: in, Fn: fn, Chan: p.ChanID(x.X), Blocking: true})
				}
			case *ssa.Select:
				n := len(x.States)
				for _, st := range x.States {
					k := "recv"
					if st.Dir == types.SendOnly {
						k = "send"
					}
					out = append(out, ChanOp{Kind: k, Instr: in, Fn: fn, Chan: p.ChanID(st.Chan), Blocking: x.Blocking, Multi: x.Blocking && n > 1})
				}
			case *ssa.Call:
				if bi, ok := x.Call.Value.(*ssa.Builtin); ok && bi.Name() == "close" {
					out = append(out, ChanOp{Kind: "close", Instr: in, Fn: fn, Chan: p.ChanID(x.Call.Args[0]), Blocking: false})
				}
			case *ssa.MakeChan:
				c := int64(-1)
				if n, ok := ConstInt(x.Size); ok {
					c = n
				}
				out = append(out, ChanOp{Kind: "make", Instr: in, Fn: fn, Chan: p.ChanID(x), Cap: c})
			case *ssa.Range:
				// range over a channel is lowered to UnOp ARROW with CommaOk: handled above
			}
		})
	}
	return out
}

// ChanAlias maps make-site identities to the field they are stored into (a channel made in a
// constructor and kept in a struct field is that field's channel).
func (p *Program) ChanAlias(ops []ChanOp) map[string]string {
	alias := map[string]string{}
	for _, op := range ops {
		if op.Kind != "make" {
			continue
		}
		mk := op.Instr.(*ssa.MakeChan)
		for _, r := range *mk.Referrers() {
			if st, ok := r.(*ssa.Store); ok && st.Val == ssa.Value(mk) {
				if fa, ok := st.Addr.(*ssa.FieldAddr); ok {
					alias[op.Chan] = "field:" + fieldOwner(fa) + "." + FieldOfAddr(fa).Name()
				}
			}
		}
	}
	return alias
}

func (o ChanOp) String() string {
	return fmt.Sprintf("%s %s in %s", o.Kind, o.Chan, FnName(o.Fn))
}
