package core

import (
	"go/token"
	"go/types"
	"math"

	"golang.org/x/tools/go/ssa"
)

// Interval over int64 (values of uint64 above MaxInt64 are represented as +Inf).
type Interval struct{ Lo, Hi int64 }

const (
	NegInf = math.MinInt64
	PosInf = math.MaxInt64
)

var Top = Interval{NegInf, PosInf}

func (a Interval) Within(lo, hi int64) bool { return a.Lo >= lo && a.Hi <= hi }
func (a Interval) IsConst() (int64, bool) {
	return a.Lo, a.Lo == a.Hi && a.Lo != NegInf && a.Lo != PosInf
}

func addSat(a, b int64) int64 {
	if a == NegInf || b == NegInf {
		return NegInf
	}
	if a == PosInf || b == PosInf {
		return PosInf
	}
	s := a + b
	if (a > 0 && b > 0 && s < 0) || s == PosInf {
		return PosInf
	}
	if (a < 0 && b < 0 && s >= 0) || s == NegInf {
		return NegInf
	}
	return s
}

func negSat(a int64) int64 {
	switch a {
	case NegInf:
		return PosInf
	case PosInf:
		return NegInf
	}
	return -a
}

func mulSat(a, b int64) int64 {
	if a == 0 || b == 0 {
		return 0
	}
	inf := (a == PosInf || a == NegInf || b == PosInf || b == NegInf)
	neg := (a < 0) != (b < 0)
	if !inf {
		p := a * b
		if p/b == a && p != NegInf && p != PosInf {
			return p
		}
	}
	if neg {
		return NegInf
	}
	return PosInf
}

func typeRange(t types.Type) Interval {
	b, ok := t.Underlying().(*types.Basic)
	if !ok {
		return Top
	}
	switch b.Kind() {
	case types.Int8:
		return Interval{math.MinInt8, math.MaxInt8}
	case types.Int16:
		return Interval{math.MinInt16, math.MaxInt16}
	case types.Int32:
		return Interval{math.MinInt32, math.MaxInt32}
	case types.Int, types.Int64:
		return Interval{NegInf, PosInf}
	case types.Uint8:
		return Interval{0, math.MaxUint8}
	case types.Uint16:
		return Interval{0, math.MaxUint16}
	case types.Uint32:
		return Interval{0, math.MaxUint32}
	case types.Uint, types.Uint64, types.Uintptr:
		return Interval{0, PosInf}
	}
	return Top
}

func meet(a, b Interval) Interval {
	if b.Lo > a.Lo {
		a.Lo = b.Lo
	}
	if b.Hi < a.Hi {
		a.Hi = b.Hi
	}
	return a
}

func join(a, b Interval) Interval {
	if b.Lo < a.Lo {
		a.Lo = b.Lo
	}
	if b.Hi > a.Hi {
		a.Hi = b.Hi
	}
	return a
}

// lenOf: v is `len(x)` → x.
func lenOf(v ssa.Value) (ssa.Value, bool) {
	c, ok := v.(*ssa.Call)
	if !ok {
		return nil, false
	}
	b, ok := c.Call.Value.(*ssa.Builtin)
	if !ok || b.Name() != "len" || len(c.Call.Args) != 1 {
		return nil, false
	}
	return c.Call.Args[0], true
}

// sameQuantity: identical SSA values, or len() of the same (immutable) SSA slice/string/map value
// — slices are values in SSA, so len(x) of one SSA value x never changes.  Maps and channels are
// excluded (their length changes).
func sameQuantity(a, b ssa.Value) bool {
	a, b = stripIntConv(a), stripIntConv(b)
	if a == b {
		return true
	}
	xa, oka := lenOf(a)
	xb, okb := lenOf(b)
	if oka && okb && xa == xb {
		switch xa.Type().Underlying().(type) {
		case *types.Slice, *types.Basic, *types.Array, *types.Pointer:
			return true
		}
	}
	return false
}

// stripIntConv removes integer conversions that cannot change a non-negative length value
// (int -> uint64, int -> int64 ...) — only used for len() quantities.
func stripIntConv(v ssa.Value) ssa.Value {
	for {
		c, ok := v.(*ssa.Convert)
		if !ok {
			return v
		}
		if _, isLen := lenOf(c.X); !isLen {
			return v
		}
		tr := typeRange(c.Type())
		if tr.Lo <= 0 && tr.Hi == PosInf {
			v = c.X
			continue
		}
		return v
	}
}

// EvalInt computes an interval for integer value v as seen at block `at` (facts of dominating
// branches refine it).  Sound over-approximation; unknown constructs give the type's range.
func EvalInt(v ssa.Value, at *ssa.BasicBlock) Interval {
	return evalInt(v, at, 0)
}

func evalInt(v ssa.Value, at *ssa.BasicBlock, depth int) Interval {
	r := typeRange(v.Type())
	if depth > 12 {
		return r
	}
	switch x := v.(type) {
	case *ssa.Const:
		if n, ok := ConstInt(x); ok {
			if x.Uint64() > math.MaxInt64 && typeRange(x.Type()).Lo == 0 {
				return Interval{PosInf, PosInf}
			}
			return Interval{n, n}
		}
	case *ssa.Call:
		if b, ok := x.Call.Value.(*ssa.Builtin); ok {
			switch b.Name() {
			case "len", "cap":
				r = Interval{0, PosInf}
				if a, ok := x.Call.Args[0].Type().Underlying().(*types.Array); ok {
					r = Interval{a.Len(), a.Len()}
				}
				if ms, ok := x.Call.Args[0].(*ssa.MakeSlice); ok && b.Name() == "len" {
					r = meet(r, evalInt(ms.Len, at, depth+1))
				}
				if sl, ok := x.Call.Args[0].(*ssa.Slice); ok && b.Name() == "len" {
					if iv, ok := sliceLen(sl, at, depth+1); ok {
						r = meet(r, iv)
					}
				}
			case "max":
				r = evalInt(x.Call.Args[0], at, depth+1)
				for _, a := range x.Call.Args[1:] {
					o := evalInt(a, at, depth+1)
					if o.Lo > r.Lo {
						r.Lo = o.Lo
					}
					if o.Hi > r.Hi {
						r.Hi = o.Hi
					}
				}
			case "min":
				r = evalInt(x.Call.Args[0], at, depth+1)
				for _, a := range x.Call.Args[1:] {
					o := evalInt(a, at, depth+1)
					if o.Lo < r.Lo {
						r.Lo = o.Lo
					}
					if o.Hi < r.Hi {
						r.Hi = o.Hi
					}
				}
			}
		}
	case *ssa.BinOp:
		a := evalInt(x.X, at, depth+1)
		b := evalInt(x.Y, at, depth+1)
		var o Interval
		ok := true
		switch x.Op {
		case token.ADD:
			o = Interval{addSat(a.Lo, b.Lo), addSat(a.Hi, b.Hi)}
		case token.SUB:
			o = Interval{addSat(a.Lo, negSat(b.Hi)), addSat(a.Hi, negSat(b.Lo))}
		case token.MUL:
			c := []int64{mulSat(a.Lo, b.Lo), mulSat(a.Lo, b.Hi), mulSat(a.Hi, b.Lo), mulSat(a.Hi, b.Hi)}
			o = Interval{c[0], c[0]}
			for _, y := range c[1:] {
				o = join(o, Interval{y, y})
			}
		case token.AND:
			// x & m with m >= 0 constant (or either side non-negative bounded): result in [0, min(hi)]
			switch {
			case b.Lo >= 0 && b.Hi != PosInf:
				o = Interval{0, b.Hi}
				if a.Lo >= 0 && a.Hi < o.Hi {
					o.Hi = a.Hi
				}
			case a.Lo >= 0 && a.Hi != PosInf:
				o = Interval{0, a.Hi}
			default:
				ok = false
			}
		case token.REM:
			if b.Lo > 0 && b.Hi != PosInf && a.Lo >= 0 {
				o = Interval{0, b.Hi - 1}
			} else {
				ok = false
			}
		case token.QUO:
			if b.Lo > 0 && a.Lo >= 0 {
				o = Interval{a.Lo / maxI(b.Hi, 1), a.Hi}
				if a.Hi != PosInf {
					o.Hi = a.Hi / b.Lo
				}
				if b.Hi == PosInf {
					o.Lo = 0
				}
			} else {
				ok = false
			}
		case token.SHR:
			if a.Lo >= 0 && b.Lo >= 0 && b.Lo == b.Hi && b.Lo < 63 {
				o = Interval{a.Lo >> uint(b.Lo), a.Hi}
				if a.Hi != PosInf {
					o.Hi = a.Hi >> uint(b.Lo)
				}
			} else {
				ok = false
			}
		default:
			ok = false
		}
		if ok {
			// wrap-around: if the mathematical result leaves the type's range the Go result wraps
			if o.Within(r.Lo, r.Hi) {
				r = o
			}
		}
	case *ssa.Convert:
		a := evalInt(x.X, at, depth+1)
		if _, isInt := x.X.Type().Underlying().(*types.Basic); isInt && a.Within(r.Lo, r.Hi) {
			r = a
		}
	case *ssa.ChangeType:
		r = meet(r, evalInt(x.X, at, depth+1))
	case *ssa.Phi:
		var o Interval
		for i, e := range x.Edges {
			// evaluate each edge at its predecessor block: facts there apply to the incoming value
			iv := evalInt(e, x.Block().Preds[i], depth+4)
			if i == 0 {
				o = iv
			} else {
				o = join(o, iv)
			}
		}
		r = meet(r, o)
	}
	// refine by dominating comparisons on the same quantity
	if at != nil {
		for _, f := range FactsAt(at) {
			b, ok := f.V.(*ssa.BinOp)
			if !ok {
				continue
			}
			r = refineCmp(r, v, b, f.True, at, depth)
		}
	}
	return r
}

func maxI(a, b int64) int64 {
	if a > b {
		return a
	}
	return b
}

func sliceLen(sl *ssa.Slice, at *ssa.BasicBlock, depth int) (Interval, bool) {
	// len(x[lo:hi]) = hi - lo
	var lo Interval = Interval{0, 0}
	if sl.Low != nil {
		lo = evalInt(sl.Low, at, depth)
	}
	if sl.High == nil {
		if p, ok := sl.X.Type().Underlying().(*types.Pointer); ok {
			if a, ok := p.Elem().Underlying().(*types.Array); ok {
				return Interval{addSat(a.Len(), negSat(lo.Hi)), addSat(a.Len(), negSat(lo.Lo))}, true
			}
		}
		return Top, false
	}
	hi := evalInt(sl.High, at, depth)
	return Interval{addSat(hi.Lo, negSat(lo.Hi)), addSat(hi.Hi, negSat(lo.Lo))}, true
}

// refineCmp narrows r (the interval of v) using comparison b known to be `truth`.
func refineCmp(r Interval, v ssa.Value, b *ssa.BinOp, truth bool, at *ssa.BasicBlock, depth int) Interval {
	op := b.Op
	var other ssa.Value
	switch {
	case sameQuantity(b.X, v):
		other = b.Y
	case sameQuantity(b.Y, v):
		other = b.X
		// mirror: c OP v  ==  v OP' c
		switch op {
		case token.LSS:
			op = token.GTR
		case token.GTR:
			op = token.LSS
		case token.LEQ:
			op = token.GEQ
		case token.GEQ:
			op = token.LEQ
		}
	default:
		return r
	}
	if !truth {
		switch op {
		case token.LSS:
			op = token.GEQ
		case token.GTR:
			op = token.LEQ
		case token.LEQ:
			op = token.GTR
		case token.GEQ:
			op = token.LSS
		case token.EQL:
			op = token.NEQ
		case token.NEQ:
			op = token.EQL
		default:
			return r
		}
	}
	if depth > 8 {
		return r
	}
	// evaluate the other side without facts recursion on v (avoid cycles): at=nil
	o := evalInt(other, nil, depth+4)
	switch op {
	case token.LSS:
		if o.Hi != PosInf {
			r = meet(r, Interval{NegInf, o.Hi - 1})
		}
	case token.LEQ:
		r = meet(r, Interval{NegInf, o.Hi})
	case token.GTR:
		if o.Lo != NegInf {
			r = meet(r, Interval{o.Lo + 1, PosInf})
		}
	case token.GEQ:
		r = meet(r, Interval{o.Lo, PosInf})
	case token.EQL:
		r = meet(r, o)
	case token.NEQ:
		if c, ok := o.IsConst(); ok {
			if r.Lo == c {
				r.Lo = c + 1
			}
			if r.Hi == c {
				r.Hi = c - 1
			}
		}
	}
	return r
}

// LenInterval bounds len(v) for a slice/array value v as seen at block `at`.
func LenInterval(v ssa.Value, at *ssa.BasicBlock) Interval {
	r := Interval{0, PosInf}
	switch x := v.(type) {
	case *ssa.MakeSlice:
		r = meet(r, evalInt(x.Len, at, 1))
	case *ssa.Slice:
		if iv, ok := sliceLen(x, at, 1); ok {
			r = meet(r, iv)
		} else if x.High == nil {
			// x[lo:] of a slice: len(X) - lo
			base := LenInterval(x.X, at)
			lo := Interval{0, 0}
			if x.Low != nil {
				lo = evalInt(x.Low, at, 1)
			}
			r = meet(r, Interval{addSat(base.Lo, negSat(lo.Hi)), addSat(base.Hi, negSat(lo.Lo))})
		}
	default:
		if a, ok := v.Type().Underlying().(*types.Array); ok {
			return Interval{a.Len(), a.Len()}
		}
	}
	// facts about len(v) of this very value
	if at != nil {
		for _, f := range FactsAt(at) {
			b, ok := f.V.(*ssa.BinOp)
			if !ok {
				continue
			}
			for _, side := range []ssa.Value{b.X, b.Y} {
				if x, ok := lenOf(stripIntConv(side)); ok && x == v {
					r = refineCmp(r, stripIntConv(side), b, f.True, at, 1)
				}
			}
		}
	}
	return r
}
