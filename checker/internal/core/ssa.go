package core

import (
	"go/constant"
	"go/token"
	"go/types"
	"sort"

	"golang.org/x/tools/go/callgraph"
	"golang.org/x/tools/go/ssa"
)

// Callee returns the declared function or interface method a call refers to
// (nil for calls of function values that are not statically known).
func Callee(c ssa.CallInstruction) *types.Func {
	cc := c.Common()
	if cc.IsInvoke() {
		return cc.Method
	}
	if f := cc.StaticCallee(); f != nil {
		if o, ok := f.Object().(*types.Func); ok {
			return o
		}
		// instantiated generic or wrapper: use origin
		if f.Origin() != nil {
			if o, ok := f.Origin().Object().(*types.Func); ok {
				return o
			}
		}
	}
	return nil
}

// StaticFn returns the SSA callee for static calls (including closures), else nil.
func StaticFn(c ssa.CallInstruction) *ssa.Function {
	return c.Common().StaticCallee()
}

// Instrs iterates over all instructions of fn (not of nested closures).
func Instrs(fn *ssa.Function, f func(ssa.Instruction)) {
	for _, b := range fn.Blocks {
		for _, in := range b.Instrs {
			f(in)
		}
	}
}

// WithAnon returns fn and all its (transitively) nested anonymous functions.
func WithAnon(fn *ssa.Function) []*ssa.Function {
	out := []*ssa.Function{fn}
	for _, a := range fn.AnonFuncs {
		out = append(out, WithAnon(a)...)
	}
	return out
}

// Calls returns the call instructions (call, go, defer) in fn whose callee is target.
func Calls(fn *ssa.Function, target *types.Func) []ssa.CallInstruction {
	var out []ssa.CallInstruction
	Instrs(fn, func(in ssa.Instruction) {
		if c, ok := in.(ssa.CallInstruction); ok && target != nil && Callee(c) == target {
			out = append(out, c)
		}
	})
	return out
}

// CallsMatching returns call instructions in fn satisfying pred on the callee object.
func CallsMatching(fn *ssa.Function, pred func(*types.Func) bool) []ssa.CallInstruction {
	var out []ssa.CallInstruction
	Instrs(fn, func(in ssa.Instruction) {
		if c, ok := in.(ssa.CallInstruction); ok {
			if f := Callee(c); f != nil && pred(f) {
				out = append(out, c)
			}
		}
	})
	return out
}

// CallArgs returns the actual arguments excluding the receiver.
func CallArgs(c ssa.CallInstruction) []ssa.Value {
	cc := c.Common()
	if cc.IsInvoke() {
		return cc.Args
	}
	if f := Callee(c); f != nil {
		if sig, ok := f.Type().(*types.Signature); ok && (sig.Recv() != nil || PseudoMethod[f]) && len(cc.Args) > 0 {
			return cc.Args[1:]
		}
	}
	return cc.Args
}

// CallRecv returns the receiver value of a method call (nil if none).
func CallRecv(c ssa.CallInstruction) ssa.Value {
	cc := c.Common()
	if cc.IsInvoke() {
		return cc.Value
	}
	if f := Callee(c); f != nil {
		if sig, ok := f.Type().(*types.Signature); ok && (sig.Recv() != nil || PseudoMethod[f]) && len(cc.Args) > 0 {
			return cc.Args[0]
		}
	}
	return nil
}

// ---- path facts -------------------------------------------------------------------------

// Fact: value V is known to be True/false on every path reaching a block.
type Fact struct {
	V    ssa.Value
	True bool
}

// FactsAt returns the branch conditions known on every path to block b: for each block x on
// b's dominator chain that has exactly one predecessor p ending in an If, the edge p->x fixes
// p's condition.  Negations are unfolded.
func FactsAt(b *ssa.BasicBlock) []Fact {
	var out []Fact
	for x := b; x != nil; x = x.Idom() {
		if len(x.Preds) != 1 {
			continue
		}
		p := x.Preds[0]
		if len(p.Instrs) == 0 {
			continue
		}
		iff, ok := p.Instrs[len(p.Instrs)-1].(*ssa.If)
		if !ok || p.Succs[0] == p.Succs[1] {
			continue
		}
		out = appendFact(out, iff.Cond, p.Succs[0] == x)
	}
	return out
}

// ExpandFact lists what follows from "v is t" (negations and comparisons with boolean constants unfolded).
func ExpandFact(v ssa.Value, t bool) []Fact { return appendFact(nil, v, t) }

// TrueImplies: the facts (over fn's own values) that hold whenever the boolean function fn returns true,
// for the shape `return a && b && ...` (one return whose value is a phi of false constants and one
// computed edge, or a plain value).  ok=false for any other shape.
func TrueImplies(fn *ssa.Function) ([]Fact, bool) {
	if fn == nil || fn.Blocks == nil || fn.Signature.Results().Len() != 1 {
		return nil, false
	}
	var ret *ssa.Return
	n := 0
	Instrs(fn, func(in ssa.Instruction) {
		if r, ok := in.(*ssa.Return); ok {
			ret = r
			n++
		}
	})
	if n != 1 {
		return nil, false
	}
	switch x := ret.Results[0].(type) {
	case *ssa.Phi:
		var facts []Fact
		live := 0
		for i, e := range x.Edges {
			if k, ok := e.(*ssa.Const); ok && k.Value != nil && k.Value.Kind() == constant.Bool && !constant.BoolVal(k.Value) {
				continue
			}
			live++
			facts = append(FactsAt(x.Block().Preds[i]), appendFact(nil, e, true)...)
			// the edge itself may be conditional on the predecessor's branch
			p := x.Block().Preds[i]
			if iff, ok := p.Instrs[len(p.Instrs)-1].(*ssa.If); ok && p.Succs[0] != p.Succs[1] {
				facts = appendFact(facts, iff.Cond, p.Succs[0] == x.Block())
			}
		}
		if live != 1 {
			return nil, false
		}
		return facts, true
	default:
		return append(FactsAt(ret.Block()), appendFact(nil, ret.Results[0], true)...), true
	}
}

func appendFact(out []Fact, v ssa.Value, t bool) []Fact { return appendFactD(out, v, t, 0) }

func appendFactD(out []Fact, v ssa.Value, t bool, depth int) []Fact {
	out = append(out, Fact{v, t})
	if u, ok := v.(*ssa.UnOp); ok && u.Op == token.NOT {
		out = appendFactD(out, u.X, !t, depth)
	}
	// the value of a short-circuit expression (a && b && c, a || b): a phi of boolean constants and one computed
	// edge. If only one edge can have produced t, control came through it: that edge's value is t, and everything
	// known at the end of its predecessor holds as well.
	if ph, ok := v.(*ssa.Phi); ok && depth < 4 {
		live := -1
		n := 0
		for i, e := range ph.Edges {
			if k, ok := e.(*ssa.Const); ok && k.Value != nil && k.Value.Kind() == constant.Bool && constant.BoolVal(k.Value) != t {
				continue
			}
			live = i
			n++
		}
		if n == 1 {
			if _, isConst := ph.Edges[live].(*ssa.Const); !isConst {
				out = appendFactD(out, ph.Edges[live], t, depth+1)
			}
			p := ph.Block().Preds[live]
			out = append(out, FactsAt(p)...)
			if iff, ok := p.Instrs[len(p.Instrs)-1].(*ssa.If); ok && p.Succs[0] != p.Succs[1] {
				out = appendFactD(out, iff.Cond, p.Succs[0] == ph.Block(), depth+1)
			}
		}
	}
	// x == true / x != false / ...: a fact about x itself
	if b, ok := v.(*ssa.BinOp); ok && (b.Op == token.EQL || b.Op == token.NEQ) {
		for _, pr := range [][2]ssa.Value{{b.X, b.Y}, {b.Y, b.X}} {
			if k, ok := pr[1].(*ssa.Const); ok && k.Value != nil && k.Value.Kind() == constant.Bool {
				kv := constant.BoolVal(k.Value)
				// (x == kv) is t  =>  x is (kv == t) for EQL, (kv != t) for NEQ
				val := kv == t
				if b.Op == token.NEQ {
					val = kv != t
				}
				out = appendFactD(out, pr[0], val, depth)
			}
		}
	}
	return out
}

// KnownAt reports whether v is known to equal want at block b.
func KnownAt(b *ssa.BasicBlock, v ssa.Value, want bool) bool {
	for _, f := range FactsAt(b) {
		if f.V == v && f.True == want {
			return true
		}
	}
	return false
}

// IsNilConst reports whether v is the nil constant.
func IsNilConst(v ssa.Value) bool {
	c, ok := v.(*ssa.Const)
	return ok && c.IsNil()
}

// NilCmp decomposes v as `x == nil` / `x != nil`; eq tells which.
func NilCmp(v ssa.Value) (x ssa.Value, eq bool, ok bool) {
	b, isb := v.(*ssa.BinOp)
	if !isb || (b.Op != token.EQL && b.Op != token.NEQ) {
		return nil, false, false
	}
	switch {
	case IsNilConst(b.Y):
		return b.X, b.Op == token.EQL, true
	case IsNilConst(b.X):
		return b.Y, b.Op == token.EQL, true
	}
	return nil, false, false
}

// NonNilAt reports whether x is known non-nil at block b (by a dominating nil comparison on the
// same SSA value).  isNil=true asks for "known nil".
func NilKnownAt(b *ssa.BasicBlock, x ssa.Value, isNil bool) bool {
	for _, f := range FactsAt(b) {
		if y, eq, ok := NilCmp(f.V); ok && sameValue(y, x) {
			if (eq == f.True) == isNil {
				return true
			}
		}
	}
	return false
}

// sameValue: identical SSA values, or loads of the same address with no way to tell them apart
// is NOT assumed — only pointer equality (plus trivial ChangeType/MakeInterface unwrapping).
func sameValue(a, b ssa.Value) bool {
	return Unwrap(a) == Unwrap(b)
}

// Unwrap strips value-preserving conversions and loads of single-assignment spill cells
// (parameters and locals captured by closures are spilled to an Alloc that is stored once).
func Unwrap(v ssa.Value) ssa.Value {
	for i := 0; i < 32; i++ {
		switch x := v.(type) {
		case *ssa.ChangeType:
			v = x.X
		case *ssa.MakeInterface:
			v = x.X
		case *ssa.ChangeInterface:
			v = x.X
		case *ssa.UnOp:
			if x.Op == token.MUL {
				if a, ok := x.X.(*ssa.Alloc); ok {
					if val, ok := SingleStore(a); ok {
						v = val
						continue
					}
					if val, ok := forwardedStore(x, a); ok {
						v = val
						continue
					}
				}
				if fv, ok := x.X.(*ssa.FreeVar); ok {
					if val, ok := freeVarBinding(fv); ok {
						v = val
						continue
					}
				}
			}
			return v
		default:
			return v
		}
	}
	return v
}

// SingleStore: the Alloc is written exactly once in its function (and not by closures capturing it)
// and its address does not otherwise escape; returns the stored value.
func SingleStore(a *ssa.Alloc) (ssa.Value, bool) {
	refs := a.Referrers()
	if refs == nil {
		return nil, false
	}
	var val ssa.Value
	n := 0
	for _, r := range *refs {
		switch y := r.(type) {
		case *ssa.Store:
			if y.Addr != ssa.Value(a) {
				return nil, false // address stored somewhere
			}
			n++
			val = y.Val
		case *ssa.UnOp, *ssa.DebugRef:
		case *ssa.MakeClosure:
			fn, ok := y.Fn.(*ssa.Function)
			if !ok {
				return nil, false
			}
			for i, b := range y.Bindings {
				if b == ssa.Value(a) && i < len(fn.FreeVars) {
					if !freeVarReadOnly(fn.FreeVars[i]) {
						return nil, false
					}
				}
			}
		case *ssa.FieldAddr, *ssa.IndexAddr:
			return nil, false // aggregate local: not a scalar spill
		default:
			return nil, false
		}
	}
	if n != 1 {
		return nil, false
	}
	return val, true
}

func freeVarReadOnly(fv *ssa.FreeVar) bool {
	refs := fv.Referrers()
	if refs == nil {
		return true
	}
	for _, r := range *refs {
		switch y := r.(type) {
		case *ssa.UnOp, *ssa.DebugRef:
		case *ssa.MakeClosure:
			fn, ok := y.Fn.(*ssa.Function)
			if !ok {
				return false
			}
			for i, b := range y.Bindings {
				if b == ssa.Value(fv) && i < len(fn.FreeVars) && !freeVarReadOnly(fn.FreeVars[i]) {
					return false
				}
			}
		default:
			return false
		}
	}
	return true
}

// freeVarBinding: a free variable of a closure that is created at exactly one site, bound to a
// single-store cell of the enclosing function: the captured value itself.
func freeVarBinding(fv *ssa.FreeVar) (ssa.Value, bool) {
	fn := fv.Parent()
	par := fn.Parent()
	if par == nil {
		return nil, false
	}
	idx := -1
	for i, f := range fn.FreeVars {
		if f == fv {
			idx = i
		}
	}
	var bound ssa.Value
	n := 0
	for _, b := range par.Blocks {
		for _, in := range b.Instrs {
			if mc, ok := in.(*ssa.MakeClosure); ok && mc.Fn == ssa.Value(fn) && idx < len(mc.Bindings) {
				n++
				bound = mc.Bindings[idx]
			}
		}
	}
	if n != 1 {
		return nil, false
	}
	if a, ok := bound.(*ssa.Alloc); ok {
		return SingleStore(a)
	}
	return nil, false
}

// ErrNilAt: err value known nil / non-nil at block.
func ErrKnown(b *ssa.BasicBlock, err ssa.Value, isNil bool) bool { return NilKnownAt(b, err, isNil) }

// Dominates reports whether instruction a executes before b on every path to b
// (same block: order; else block dominance).
func InstrDominates(a, b ssa.Instruction) bool {
	if a.Block() == b.Block() {
		for _, in := range a.Block().Instrs {
			if in == a {
				return true
			}
			if in == b {
				return false
			}
		}
		return false
	}
	return a.Block().Dominates(b.Block())
}

// Reaches reports whether control can flow from instruction a to instruction b within the function
// (b after a in the same block, or b's block reachable from a's block's successors).
func Reaches(a, b ssa.Instruction) bool {
	if a.Block() == b.Block() {
		ia, ib := -1, -1
		for i, in := range a.Block().Instrs {
			if in == a {
				ia = i
			}
			if in == b {
				ib = i
			}
		}
		if ia < ib {
			return true
		}
	}
	seen := map[*ssa.BasicBlock]bool{}
	var stack []*ssa.BasicBlock
	stack = append(stack, a.Block().Succs...)
	for len(stack) > 0 {
		x := stack[len(stack)-1]
		stack = stack[:len(stack)-1]
		if seen[x] {
			continue
		}
		seen[x] = true
		if x == b.Block() {
			return true
		}
		stack = append(stack, x.Succs...)
	}
	return false
}

// ---- fields ----------------------------------------------------------------------------

// FieldOfAddr returns the struct field addressed by a FieldAddr.
func FieldOfAddr(fa *ssa.FieldAddr) *types.Var {
	t := fa.X.Type().Underlying()
	if p, ok := t.(*types.Pointer); ok {
		t = p.Elem().Underlying()
	}
	if st, ok := t.(*types.Struct); ok && fa.Field < st.NumFields() {
		return st.Field(fa.Field)
	}
	return nil
}

func FieldOfField(f *ssa.Field) *types.Var {
	if st, ok := f.X.Type().Underlying().(*types.Struct); ok && f.Field < st.NumFields() {
		return st.Field(f.Field)
	}
	return nil
}

// LoadedField: v is a load `*(&base.f)` or a Field extraction; returns base and field.
func LoadedField(v ssa.Value) (base ssa.Value, f *types.Var, ok bool) {
	v = Unwrap(v)
	switch x := v.(type) {
	case *ssa.UnOp:
		if x.Op == token.MUL {
			if fa, ok := x.X.(*ssa.FieldAddr); ok {
				return fa.X, FieldOfAddr(fa), true
			}
		}
	case *ssa.Field:
		return x.X, FieldOfField(x), true
	}
	return nil, nil, false
}

// IsLoadOfField: v loads field f of base value `base` (pointer identity on base).
func IsFieldOf(v ssa.Value, base ssa.Value, f *types.Var) bool {
	b, g, ok := LoadedField(v)
	return ok && g == f && sameValue(b, base)
}

// FieldAccess describes a read or write of a struct field.
type FieldAccess struct {
	Field *types.Var
	Write bool
	Instr ssa.Instruction
	Base  ssa.Value
}

// FieldAccesses lists direct accesses to struct fields in fn (not in callees): a FieldAddr that is
// stored through (write; also map update / delete / append-assign through the loaded container are
// attributed by the caller), loaded (read), or whose address escapes (counted as write).
func FieldAccesses(fn *ssa.Function) []FieldAccess {
	var out []FieldAccess
	Instrs(fn, func(in ssa.Instruction) {
		switch x := in.(type) {
		case *ssa.FieldAddr:
			f := FieldOfAddr(x)
			if f == nil {
				return
			}
			refs := x.Referrers()
			if refs == nil {
				return
			}
			for _, r := range *refs {
				switch y := r.(type) {
				case *ssa.Store:
					if y.Addr == x {
						out = append(out, FieldAccess{f, true, y, x.X})
					} else {
						out = append(out, FieldAccess{f, true, y, x.X}) // address stored: escapes
					}
				case *ssa.UnOp:
					if y.Op == token.MUL {
						out = append(out, FieldAccess{f, false, y, x.X})
					}
				case *ssa.FieldAddr, *ssa.IndexAddr:
					// nested access: treated as read of the outer field here; inner handled separately
					out = append(out, FieldAccess{f, false, r, x.X})
				case *ssa.DebugRef:
				default:
					// address passed to a call etc.: may be written
					out = append(out, FieldAccess{f, true, r, x.X})
				}
			}
		case *ssa.Field:
			if f := FieldOfField(x); f != nil {
				out = append(out, FieldAccess{f, false, x, x.X})
			}
		}
	})
	return out
}

// ContainerMutations lists map updates, deletes and element stores whose container value was loaded
// from a struct field: these mutate the state the field refers to.
func ContainerMutations(fn *ssa.Function) []FieldAccess {
	var out []FieldAccess
	fieldOf := func(v ssa.Value) (*types.Var, ssa.Value) {
		if b, f, ok := LoadedField(v); ok {
			return f, b
		}
		return nil, nil
	}
	Instrs(fn, func(in ssa.Instruction) {
		switch x := in.(type) {
		case *ssa.MapUpdate:
			if f, b := fieldOf(x.Map); f != nil {
				out = append(out, FieldAccess{f, true, x, b})
			}
		case *ssa.Call:
			if bi, ok := x.Call.Value.(*ssa.Builtin); ok && len(x.Call.Args) > 0 {
				switch bi.Name() {
				case "delete", "close", "clear":
					if f, b := fieldOf(x.Call.Args[0]); f != nil {
						out = append(out, FieldAccess{f, true, x, b})
					}
				}
			}
		case *ssa.Store:
			if ia, ok := x.Addr.(*ssa.IndexAddr); ok {
				if f, b := fieldOf(ia.X); f != nil {
					out = append(out, FieldAccess{f, true, x, b})
				}
			}
		case *ssa.Send:
			if f, b := fieldOf(x.Chan); f != nil {
				out = append(out, FieldAccess{f, true, x, b})
			}
		}
	})
	return out
}

// ---- constants ---------------------------------------------------------------------------

func ConstInt(v ssa.Value) (int64, bool) {
	c, ok := Unwrap(v).(*ssa.Const)
	if !ok || c.Value == nil {
		return 0, false
	}
	if c.Value.Kind() != constant.Int {
		return 0, false
	}
	n, exact := constant.Int64Val(c.Value)
	if !exact {
		if u, ok2 := constant.Uint64Val(c.Value); ok2 {
			return int64(u), true
		}
		return 0, false
	}
	return n, true
}

// ---- call graph --------------------------------------------------------------------------

// ReachFrom returns the functions reachable from roots through call edges, not crossing `go`
// statements when stopAtGo is set.  The result maps each function to its predecessor (for paths).
func (p *Program) ReachFrom(roots []*ssa.Function, stopAtGo bool) map[*ssa.Function]*ssa.Function {
	cg := p.CallGraph()
	pred := map[*ssa.Function]*ssa.Function{}
	var q []*ssa.Function
	for _, r := range roots {
		if r == nil {
			continue
		}
		if _, ok := pred[r]; !ok {
			pred[r] = nil
			q = append(q, r)
		}
	}
	for len(q) > 0 {
		f := q[0]
		q = q[1:]
		n := cg.Nodes[f]
		if n == nil {
			continue
		}
		outs := append([]*callgraph.Edge(nil), n.Out...)
		sort.Slice(outs, func(i, j int) bool { return p.fnString(outs[i].Callee.Func) < p.fnString(outs[j].Callee.Func) })
		for _, e := range outs {
			if stopAtGo {
				if _, isGo := e.Site.(*ssa.Go); isGo {
					continue
				}
			}
			g := e.Callee.Func
			if _, ok := pred[g]; !ok {
				pred[g] = f
				q = append(q, g)
			}
		}
	}
	return pred
}

// PathTo renders the call path root -> ... -> fn from a ReachFrom result.
func PathTo(pred map[*ssa.Function]*ssa.Function, fn *ssa.Function) []string {
	var rev []string
	for f := fn; f != nil; f = pred[f] {
		rev = append(rev, FnName(f))
		if pred[f] == nil {
			break
		}
	}
	for i, j := 0, len(rev)-1; i < j; i, j = i+1, j-1 {
		rev[i], rev[j] = rev[j], rev[i]
	}
	return rev
}

// Callers returns the (function, site) pairs calling fn in the call graph.
func (p *Program) Callers(fn *ssa.Function) []*callgraph.Edge {
	n := p.CallGraph().Nodes[fn]
	if n == nil {
		return nil
	}
	in := append([]*callgraph.Edge(nil), n.In...)
	sort.Slice(in, func(i, j int) bool {
		if in[i].Caller.Func.String() != in[j].Caller.Func.String() {
			return in[i].Caller.Func.String() < in[j].Caller.Func.String()
		}
		return in[i].Pos() < in[j].Pos()
	})
	return in
}

// FieldPath decomposes v = root.f1.f2...fn (loads of fields through pointers or struct values).
// The root is returned unwrapped (spill cells and conversions removed).
func FieldPath(v ssa.Value) (root ssa.Value, path []string) {
	for i := 0; i < 16; i++ {
		b, f, ok := LoadedField(v)
		if !ok {
			break
		}
		path = append([]string{f.Name()}, path...)
		v = b
		// nested struct fields are addressed without an intermediate load: &(&x.A).B
		for j := 0; j < 8; j++ {
			fa, ok := v.(*ssa.FieldAddr)
			if !ok {
				break
			}
			path = append([]string{FieldOfAddr(fa).Name()}, path...)
			v = fa.X
		}
	}
	return Unwrap(v), path
}

// IsPath: v is root.f1...fn.
func IsPath(v ssa.Value, root ssa.Value, names ...string) bool {
	r, p := FieldPath(v)
	if r != Unwrap(root) || len(p) != len(names) {
		return false
	}
	for i := range p {
		if p[i] != names[i] {
			return false
		}
	}
	return true
}

// MentionsField: the expression tree of v (through arithmetic and conversions) contains a load of a
// field named `name`.
func MentionsField(v ssa.Value, name string, depth int) bool {
	if depth > 12 || v == nil {
		return false
	}
	if _, f, ok := LoadedField(v); ok && f.Name() == name {
		return true
	}
	switch x := v.(type) {
	case *ssa.BinOp:
		return MentionsField(x.X, name, depth+1) || MentionsField(x.Y, name, depth+1)
	case *ssa.Convert:
		return MentionsField(x.X, name, depth+1)
	case *ssa.ChangeType:
		return MentionsField(x.X, name, depth+1)
	case *ssa.UnOp:
		if x.Op != token.MUL {
			return MentionsField(x.X, name, depth+1)
		}
	case *ssa.Phi:
		for _, e := range x.Edges {
			if MentionsField(e, name, depth+1) {
				return true
			}
		}
	}
	return false
}

// forwardedStore: the load reads a local cell that was stored earlier in the same basic block (the
// latest such store; sequential semantics): the loaded value is the stored one.
func forwardedStore(load *ssa.UnOp, a *ssa.Alloc) (ssa.Value, bool) {
	b := load.Block()
	if b == nil {
		return nil, false
	}
	var val ssa.Value
	for _, in := range b.Instrs {
		if in == ssa.Instruction(load) {
			break
		}
		if st, ok := in.(*ssa.Store); ok && st.Addr == ssa.Value(a) {
			val = st.Val
		}
	}
	return val, val != nil
}

// ResolvedCall is a call of `target` made by fn directly or through thin own wrappers (functions that
// pass their own parameters on): Args are target's arguments (receiver first for methods) expressed as
// values of fn, nil where a wrapper computes the argument itself.
type ResolvedCall struct {
	Site ssa.CallInstruction // the call instruction in fn
	Args []ssa.Value
	Via  []*ssa.Function
}

// CallsThrough finds the calls of target in fn, looking through own wrapper functions up to `depth` levels.
func (p *Program) CallsThrough(fn *ssa.Function, target *types.Func, depth int) []ResolvedCall {
	var out []ResolvedCall
	Instrs(fn, func(in ssa.Instruction) {
		ci, ok := in.(ssa.CallInstruction)
		if !ok {
			return
		}
		f := Callee(ci)
		if f == nil {
			return
		}
		if f == target {
			out = append(out, ResolvedCall{Site: ci, Args: append([]ssa.Value{}, ci.Common().Args...)})
			return
		}
		if depth <= 0 || ci.Common().IsInvoke() || !p.IsOwn(f.Pkg()) {
			return
		}
		w := ci.Common().StaticCallee()
		if w == nil || w.Blocks == nil || w == fn {
			return
		}
		for _, inner := range p.CallsThrough(w, target, depth-1) {
			args := make([]ssa.Value, len(inner.Args))
			for i, a := range inner.Args {
				a = Unwrap(a)
				switch y := a.(type) {
				case *ssa.Parameter:
					for k, pr := range w.Params {
						if pr == y && k < len(ci.Common().Args) {
							args[i] = ci.Common().Args[k]
						}
					}
				case *ssa.Const:
					args[i] = y
				}
			}
			out = append(out, ResolvedCall{Site: ci, Args: args, Via: append([]*ssa.Function{w}, inner.Via...)})
		}
	})
	return out
}

// fnString caches ssa.Function.String (it renders the receiver type every time).
func (p *Program) fnString(fn *ssa.Function) string {
	if p.fnNames == nil {
		p.fnNames = map[*ssa.Function]string{}
	}
	if s, ok := p.fnNames[fn]; ok {
		return s
	}
	s := fn.String()
	p.fnNames[fn] = s
	return s
}
