package core

import (
	"encoding/json"
	"fmt"
	"go/token"
	"os"
	"path/filepath"
	"sort"
	"strings"
	"time"
)

// Finding is one reported violation (or undecided obligation) of a rule.
type Finding struct {
	Property string   `json:"property"`
	Rule     string   `json:"rule"`
	Key      string   `json:"key"`  // <prop>/<rule>/<construct>, never a line number
	Kind     string   `json:"kind"` // violation | undecided | analysis-error
	Pos      string   `json:"pos"`
	Func     string   `json:"function,omitempty"`
	Msg      string   `json:"message"`
	Path     []string `json:"path,omitempty"` // call path / cycle / offending exit for path & graph rules
	Known    bool     `json:"known"`
}

// Obligation is one decided instance of a rule.
type Obligation struct {
	Rule string `json:"rule"`
	Key  string `json:"key"`
	Pos  string `json:"pos,omitempty"`
	Desc string `json:"desc"`
	OK   bool   `json:"ok"`
}

type KnownEntry struct {
	Property string `json:"property"`
	Rule     string `json:"rule"`
	Key      string `json:"key"`
	Status   string `json:"status"` // known | fixed
	Commit   string `json:"commit,omitempty"`
	What     string `json:"what"`
}

type Ctx struct {
	P        *Program
	Prop     string
	Tier     string
	Seed     int64
	Start    time.Time
	OutDir   string
	Findings []*Finding
	Obls     []*Obligation
	Obs      []string       // observations (printed in evidence, never counted)
	Counts   map[string]int // per-rule instance counts
	Undec    []string       // undecided clauses (honest remainder)
	Assume   []string       // assumptions / trusted base
	Explain  string         // coverage.explanation
	Extra    map[string]any // extra coverage keys
	known    map[string]*KnownEntry
	seenKeys map[string]bool
}

func NewCtx(p *Program, prop, tier string, seed int64, outDir, knownFile string) (*Ctx, error) {
	c := &Ctx{P: p, Prop: prop, Tier: tier, Seed: seed, Start: time.Now(), OutDir: outDir,
		Counts: map[string]int{}, Extra: map[string]any{}, known: map[string]*KnownEntry{}, seenKeys: map[string]bool{}}
	if knownFile != "" {
		b, err := os.ReadFile(knownFile)
		if err != nil {
			return nil, fmt.Errorf("known findings: %w", err)
		}
		var ks []KnownEntry
		if err := json.Unmarshal(b, &ks); err != nil {
			return nil, fmt.Errorf("known findings: %w", err)
		}
		for i := range ks {
			if ks[i].Status == "known" {
				c.known[ks[i].Key] = &ks[i]
			}
		}
	}
	return c, nil
}

func (c *Ctx) pos(pos token.Pos) string {
	if c.P == nil {
		return "-"
	}
	return c.P.Pos(pos)
}

func (c *Ctx) key(rule, construct string) string {
	return c.Prop + "/" + rule + "/" + construct
}

// Check records an obligation; when it does not hold, a finding is produced.
func (c *Ctx) Check(rule, construct string, pos token.Pos, ok bool, desc string) bool {
	k := c.key(rule, construct)
	c.Counts[rule]++
	c.Obls = append(c.Obls, &Obligation{Rule: rule, Key: k, Pos: c.pos(pos), Desc: desc, OK: ok})
	if !ok {
		c.add(&Finding{Property: c.Prop, Rule: rule, Key: k, Kind: "violation", Pos: c.pos(pos), Msg: desc})
	}
	return ok
}

// Fail reports a violation that is not tied to a pre-enumerated obligation (who-may rules).
func (c *Ctx) Fail(rule, construct string, pos token.Pos, msg string, path ...string) {
	k := c.key(rule, construct)
	c.Obls = append(c.Obls, &Obligation{Rule: rule, Key: k, Pos: c.pos(pos), Desc: msg, OK: false})
	c.add(&Finding{Property: c.Prop, Rule: rule, Key: k, Kind: "violation", Pos: c.pos(pos), Msg: msg, Path: path})
}

// Undecided reports a construct the rule cannot decide in its recognised forms (fail closed).
func (c *Ctx) Undecided(rule, construct string, pos token.Pos, msg string) {
	k := c.key(rule, construct)
	c.Obls = append(c.Obls, &Obligation{Rule: rule, Key: k, Pos: c.pos(pos), Desc: "UNDECIDED: " + msg, OK: false})
	c.add(&Finding{Property: c.Prop, Rule: rule, Key: k, Kind: "undecided", Pos: c.pos(pos),
		Msg: "cannot decide (construct not in a recognised form): " + msg})
}

// Anchor reports a missing anchor (type, function, field) — an analysis error, fail closed.
func (c *Ctx) Anchor(rule, what string) {
	k := c.key(rule, "anchor:"+what)
	c.add(&Finding{Property: c.Prop, Rule: rule, Key: k, Kind: "analysis-error", Pos: "-",
		Msg: "anchor not found in the current source: " + what})
}

// Floor fails when a rule matched fewer instances than confirmed by hand (no vacuous pass).
func (c *Ctx) Floor(rule string, got, min int, what string) {
	if got < min {
		c.add(&Finding{Property: c.Prop, Rule: rule, Key: c.key(rule, "floor:"+what), Kind: "undecided", Pos: "-",
			Msg: fmt.Sprintf("rule matched %d %s, fewer than the %d confirmed by hand — the rule no longer sees the code it was written for", got, what, min)})
	}
}

func (c *Ctx) Observe(format string, a ...any) { c.Obs = append(c.Obs, fmt.Sprintf(format, a...)) }

func (c *Ctx) add(f *Finding) {
	if c.seenKeys[f.Key] {
		// same construct reported twice by one rule: keep the first, append the message
		for _, g := range c.Findings {
			if g.Key == f.Key && !strings.Contains(g.Msg, f.Msg) {
				g.Msg += " | " + f.Msg
			}
		}
		return
	}
	c.seenKeys[f.Key] = true
	if _, ok := c.known[f.Key]; ok {
		f.Known = true
	}
	c.Findings = append(c.Findings, f)
}

// Finish prints the verdict lines, writes evidence and replay files, and returns the exit code.
func (c *Ctx) Finish() int {
	if c.P != nil {
		var rn []string
		for a, b := range c.P.Renamed {
			rn = append(rn, a+" -> "+b)
		}
		sort.Strings(rn)
		for _, r := range rn {
			c.Observe("anchor resolved to a near-miss name (rename tolerated, judged structurally): %s", r)
		}
	}
	sort.SliceStable(c.Findings, func(i, j int) bool { return c.Findings[i].Key < c.Findings[j].Key })
	vdir := filepath.Join(c.OutDir, c.Prop+".violations")
	os.RemoveAll(vdir)
	nviol := 0
	for _, f := range c.Findings {
		if f.Known {
			k := c.known[f.Key]
			fmt.Printf("KNOWN-FINDING: property=%s key=%s %s\n", c.Prop, f.Key, k.What)
			continue
		}
		nviol++
		os.MkdirAll(vdir, 0o755)
		path := filepath.Join(vdir, fmt.Sprintf("%d.json", nviol))
		b, _ := json.MarshalIndent(f, "", " ")
		os.WriteFile(path, b, 0o644)
		fmt.Printf("VIOLATION property=%s replay=%s\n", c.Prop, path)
		fmt.Printf("  rule=%s kind=%s key=%s\n  at %s\n  %s\n", f.Rule, f.Kind, f.Key, f.Pos, f.Msg)
		for _, s := range f.Path {
			fmt.Printf("    %s\n", s)
		}
	}
	c.writeEvidence(nviol)
	if kf := os.Getenv("UPF_DUMP_KEYS"); kf != "" {
		// developer aid: all obligation keys, for checking that keys are stable between runs
		var ks []string
		for _, o := range c.Obls {
			ks = append(ks, fmt.Sprintf("%s ok=%v", o.Key, o.OK))
		}
		sort.Strings(ks)
		if f, err := os.OpenFile(kf, os.O_APPEND|os.O_CREATE|os.O_WRONLY, 0o644); err == nil {
			fmt.Fprintln(f, strings.Join(ks, "\n"))
			f.Close()
		}
	}
	nOK := 0
	for _, o := range c.Obls {
		if o.OK {
			nOK++
		}
	}
	fmt.Printf("%s %s: %d obligations, %d discharged, %d violation(s), %d known finding(s), %.1fs\n",
		c.Prop, c.Tier, len(c.Obls), nOK, nviol, len(c.Findings)-nviol, time.Since(c.Start).Seconds())
	if nviol > 0 {
		return 1
	}
	return 0
}

func (c *Ctx) writeEvidence(nviol int) {
	nOK := 0
	var samples []any
	perRule := map[string][]*Obligation{}
	for _, o := range c.Obls {
		if o.OK {
			nOK++
		}
		perRule[o.Rule] = append(perRule[o.Rule], o)
	}
	rules := make([]string, 0, len(perRule))
	for r := range perRule {
		rules = append(rules, r)
	}
	sort.Strings(rules)
	for _, r := range rules {
		os := perRule[r]
		for i, o := range os {
			if i >= 6 {
				break
			}
			st := "ok"
			if !o.OK {
				st = "FAILS"
			}
			samples = append(samples, fmt.Sprintf("[%s] %s @%s: %s — %s", r, strings.TrimPrefix(o.Key, c.Prop+"/"+r+"/"), o.Pos, o.Desc, st))
		}
	}
	var known []string
	for _, f := range c.Findings {
		if f.Known {
			known = append(known, f.Key)
		}
	}
	cov := map[string]any{
		"explanation":          c.Explain,
		"obligations":          len(c.Obls),
		"discharged":           nOK,
		"rule_instance_counts": c.Counts,
		"samples":              samples,
		"undecided_remainder":  c.Undec,
		"observations":         c.Obs,
		"known_findings":       known,
		"checker_cmd":          fmt.Sprintf("./check.sh %s %s", c.Prop, c.Tier),
		"trusted_base":         c.Assume,
		"exhaustive":           false,
	}
	if c.P != nil {
		cov["packages_analysed"] = len(c.P.Roots)
		cov["own_functions"] = len(c.P.OwnFuncs())
		cov["load_seconds"] = c.P.LoadSecs
	}
	for k, v := range c.Extra {
		cov[k] = v
	}
	ev := map[string]any{
		"property_id": c.Prop,
		"tier":        c.Tier,
		"seed":        c.Seed,
		"level":       "other",
		"coverage":    cov,
		"assumptions": c.Assume,
		"wall_s":      time.Since(c.Start).Seconds(),
		"violations":  nviol,
	}
	b, _ := json.MarshalIndent(ev, "", " ")
	os.MkdirAll(c.OutDir, 0o755)
	os.WriteFile(filepath.Join(c.OutDir, c.Prop+".json"), b, 0o644)
}
