package core

import (
	"bufio"
	"bytes"
	"fmt"
	"go/ast"
	"go/token"
	"go/types"
	"os/exec"
	"path/filepath"
	"regexp"
	"strings"

	"golang.org/x/tools/go/ssa"
)

// BCE: the Go compiler's prove pass as a sound in-bounds oracle.  `go build
// -gcflags=<own>=-d=ssa/check_bce/debug=1` lists every bounds check the compiler could NOT
// eliminate; an own index/slice expression whose '[' position is absent from that list is proven
// in bounds on every path.
type BCE struct {
	Unproven map[string]string // "relfile:line:col" -> kind (IsInBounds / IsSliceInBounds)
	Raw      int
}

var bceLine = regexp.MustCompile(`^(.+\.go):(\d+):(\d+): Found (IsInBounds|IsSliceInBounds)`)

func (p *Program) RunBCE() (*BCE, error) {
	// one compiler run per loaded program (the source does not change under a run)
	if p.bce != nil || p.bceErr != nil {
		return p.bce, p.bceErr
	}
	p.bce, p.bceErr = p.runBCE()
	return p.bce, p.bceErr
}

func (p *Program) runBCE() (*BCE, error) {
	cmd := exec.Command("go", "build", "-gcflags="+ModPath+"/...=-d=ssa/check_bce/debug=1", "./...")
	cmd.Dir = p.Repo
	cmd.Env = Env()
	var out bytes.Buffer
	cmd.Stdout = &out
	cmd.Stderr = &out
	if err := cmd.Run(); err != nil {
		return nil, fmt.Errorf("go build (bounds oracle) failed: %v: %s", err, lastLines(out.String(), 5))
	}
	b := &BCE{Unproven: map[string]string{}}
	sc := bufio.NewScanner(&out)
	for sc.Scan() {
		m := bceLine.FindStringSubmatch(sc.Text())
		if m == nil {
			continue
		}
		b.Raw++
		f := m[1]
		if filepath.IsAbs(f) {
			if r, err := filepath.Rel(p.Repo, f); err == nil {
				f = r
			}
		}
		f = strings.TrimPrefix(f, "./")
		b.Unproven[fmt.Sprintf("%s:%s:%s", f, m[2], m[3])] = m[4]
	}
	if b.Raw == 0 {
		// the pinned tree has dozens of unproven checks (library code inlined): zero means the
		// compiler flag no longer reports anything and the oracle cannot be trusted
		return nil, fmt.Errorf("bounds oracle printed no report at all (compiler flag not effective)")
	}
	return b, nil
}

func lastLines(s string, n int) string {
	ls := strings.Split(strings.TrimSpace(s), "\n")
	if len(ls) > n {
		ls = ls[len(ls)-n:]
	}
	return strings.Join(ls, " | ")
}

// IndexSite is an own index or slice expression subject to a run-time bounds check.
type IndexSite struct {
	Fn     *ssa.Function
	Expr   ast.Expr // *ast.IndexExpr or *ast.SliceExpr
	Lbrack token.Pos
	Proven bool // by the compiler
}

// IndexSites lists the bounds-checked index/slice expressions in the syntax of fn (nested
// function literals excluded: they are functions of their own).
func (p *Program) IndexSites(fn *ssa.Function, bce *BCE) []IndexSite {
	node := fn.Syntax()
	if node == nil {
		return nil
	}
	info := p.InfoOf(FnPkg(fn))
	var body *ast.BlockStmt
	switch n := node.(type) {
	case *ast.FuncDecl:
		body = n.Body
	case *ast.FuncLit:
		body = n.Body
	}
	if body == nil || info == nil {
		return nil
	}
	var out []IndexSite
	var scan func(body *ast.BlockStmt, info *types.Info, depth int)
	scan = func(body *ast.BlockStmt, info *types.Info, depth int) {
		ast.Inspect(body, func(n ast.Node) bool {
			switch x := n.(type) {
			case *ast.FuncLit:
				return false
			case *ast.CallExpr:
				// the body of a function that the SSA builder expanded into fn (inline.go) belongs to fn
				if callee := CalleeOfExpr(info, x); callee != nil && NewFunctions[callee.FullName()] && depth < 5 {
					if fd := p.Decl(callee); fd != nil && fd.Body != nil && callee.Pkg() != nil {
						if ci := p.InfoOf(callee.Pkg()); ci != nil {
							scan(fd.Body, ci, depth+1)
						}
					}
				}
			case *ast.IndexExpr:
				tv, ok := info.Types[x.X]
				if !ok {
					return true
				}
				switch u := tv.Type.Underlying().(type) {
				case *types.Map:
					return true
				case *types.Signature:
					return true // generic instantiation
				case *types.Array:
					if iv, ok := info.Types[x.Index]; ok && iv.Value != nil {
						return true // constant index into an array: checked at compile time
					}
					_ = u
				case *types.Pointer, *types.Slice, *types.Basic:
				default:
					return true
				}
				if tv.IsType() {
					return true
				}
				out = append(out, IndexSite{Fn: fn, Expr: x, Lbrack: x.Lbrack})
			case *ast.SliceExpr:
				out = append(out, IndexSite{Fn: fn, Expr: x, Lbrack: x.Lbrack})
			}
			return true
		})
	}
	scan(body, info, 0)
	for i := range out {
		ps := p.Fset.Position(out[i].Lbrack)
		rel, _ := filepath.Rel(p.Repo, ps.Filename)
		_, un := bce.Unproven[fmt.Sprintf("%s:%d:%d", rel, ps.Line, ps.Column)]
		out[i].Proven = !un
	}
	return out
}

// InstrAt finds the SSA IndexAddr/Index/Slice/Lookup instruction generated for an index site.
func InstrAt(fn *ssa.Function, lbrack token.Pos) ssa.Instruction {
	var found ssa.Instruction
	Instrs(fn, func(in ssa.Instruction) {
		if found != nil {
			return
		}
		switch x := in.(type) {
		case *ssa.IndexAddr:
			if x.Pos() == lbrack {
				found = x
			}
		case *ssa.Index:
			if x.Pos() == lbrack {
				found = x
			}
		case *ssa.Slice:
			if x.Pos() == lbrack {
				found = x
			}
		}
	})
	return found
}
