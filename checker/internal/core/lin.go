package core

import (
	"fmt"
	"go/token"
	"go/types"
	"sort"
	"strings"

	"golang.org/x/tools/go/ssa"
)

// Linear-relational bounds discharge (a small on-demand variant of ABCD, Bodik/Gupta/Sarkar 2000),
// used for decoder code where an offset is tested against a length symbolically
// (`if l < offset+4 { return }; b[offset:offset+4]`).  Integer values are normalised to linear forms
// over opaque SSA values and len() terms; the comparisons that hold on every path to a block give
// constraints `form <= 0`; a requirement is proven when it is the sum of at most two constraints
// plus a remainder whose upper bound (from the interval engine) is <= 0.
//
// Sound under: no signed overflow in offset arithmetic (all operands derive from octets / 16-bit
// fields and slice lengths), and field loads canonicalised only when LinEnv.StableField allows it.

type Lin struct {
	C int64
	T map[string]int64
	V map[string]ssa.Value // term -> representative value (nil for len terms)
}

func (l Lin) String() string {
	var ks []string
	for k := range l.T {
		ks = append(ks, k)
	}
	sort.Strings(ks)
	var sb strings.Builder
	for _, k := range ks {
		fmt.Fprintf(&sb, "%+d*%s ", l.T[k], k)
	}
	fmt.Fprintf(&sb, "%+d", l.C)
	return sb.String()
}

func linConst(c int64) Lin { return Lin{C: c, T: map[string]int64{}, V: map[string]ssa.Value{}} }

func (a Lin) addScaled(b Lin, k int64) Lin {
	r := linConst(a.C + k*b.C)
	for t, c := range a.T {
		r.T[t] = c
		r.V[t] = a.V[t]
	}
	for t, c := range b.T {
		r.T[t] += k * c
		if _, ok := r.V[t]; !ok {
			r.V[t] = b.V[t]
		}
		if r.T[t] == 0 {
			delete(r.T, t)
			delete(r.V, t)
		}
	}
	return r
}

// LinEnv carries the per-function canonicalisation policy.
type LinEnv struct {
	// StableField: loads of this field through the same base may be identified within the function.
	StableField func(fn *ssa.Function, f *types.Var) bool
	// ForwardLoad: the value a field load is known to yield (the single dominating store of the function).
	ForwardLoad func(load *ssa.UnOp) (ssa.Value, bool)
	nest        int
}

func (e *LinEnv) fwd(v ssa.Value) ssa.Value {
	for i := 0; i < 4; i++ {
		u, ok := v.(*ssa.UnOp)
		if !ok || u.Op != token.MUL || e.ForwardLoad == nil {
			return v
		}
		w, ok := e.ForwardLoad(u)
		if !ok {
			return v
		}
		v = w
	}
	return v
}

func (e *LinEnv) key(v ssa.Value) string {
	v = e.fwd(v)
	switch x := v.(type) {
	case *ssa.ChangeType:
		return e.key(x.X)
	case *ssa.UnOp:
		if x.Op == token.MUL {
			if fa, ok := x.X.(*ssa.FieldAddr); ok {
				if f := FieldOfAddr(fa); f != nil && e.StableField != nil && x.Parent() != nil && e.StableField(x.Parent(), f) {
					return "ld(" + e.key(fa.X) + "." + f.Name() + ")"
				}
			}
		}
	case *ssa.Const:
		return "k:" + x.String()
	}
	return v.Name()
}

func isIntType(t types.Type) bool {
	b, ok := t.Underlying().(*types.Basic)
	return ok && b.Info()&types.IsInteger != 0
}

// LinOf normalises an integer value.
func (e *LinEnv) LinOf(v ssa.Value) Lin { return e.linOf(v, 0) }

func (e *LinEnv) opaque(v ssa.Value) Lin {
	r := linConst(0)
	k := e.key(v)
	r.T[k] = 1
	r.V[k] = v
	return r
}

func (e *LinEnv) linOf(v ssa.Value, depth int) Lin {
	if depth > 16 {
		return e.opaque(v)
	}
	v = e.fwd(v)
	switch x := v.(type) {
	case *ssa.Const:
		if n, ok := ConstInt(x); ok {
			return linConst(n)
		}
	case *ssa.ChangeType:
		if isIntType(x.X.Type()) {
			return e.linOf(x.X, depth+1)
		}
	case *ssa.Convert:
		if isIntType(x.X.Type()) && isIntType(x.Type()) {
			// value preserving if every possible source value fits the destination type
			src := typeRange(x.X.Type())
			if iv := e.ivOf(x.X); iv.Lo > src.Lo || iv.Hi < src.Hi {
				src = meet(src, iv)
			}
			dst := typeRange(x.Type())
			// an unsigned 64-bit source has values above the signed range although both bounds print as +inf
			wide := typeRange(x.X.Type()).Lo == 0 && typeRange(x.X.Type()).Hi == PosInf && dst.Lo < 0 && src.Hi == PosInf
			if src.Within(dst.Lo, dst.Hi) && !wide {
				return e.linOf(x.X, depth+1)
			}
		}
	case *ssa.BinOp:
		if !isIntType(x.Type()) {
			break
		}
		signed := typeRange(x.Type()).Lo < 0
		switch x.Op {
		case token.ADD:
			return e.linOf(x.X, depth+1).addScaled(e.linOf(x.Y, depth+1), 1)
		case token.SUB:
			if signed {
				return e.linOf(x.X, depth+1).addScaled(e.linOf(x.Y, depth+1), -1)
			}
			// unsigned x - c: the mathematical difference when x >= c is known where the subtraction is made
			if k, ok := ConstInt(x.Y); ok && k >= 0 && e.nest == 0 && x.Block() != nil {
				a := e.linOf(x.X, depth+1)
				e.nest++
				noWrap := e.ProveLE0(linConst(k).addScaled(a, -1), x.Block())
				e.nest--
				if noWrap {
					a.C -= k
					return a
				}
			}
		case token.MUL:
			if k, ok := ConstInt(x.Y); ok && k >= 0 && k < 1<<20 {
				return linConst(0).addScaled(e.linOf(x.X, depth+1), k)
			}
			if k, ok := ConstInt(x.X); ok && k >= 0 && k < 1<<20 {
				return linConst(0).addScaled(e.linOf(x.Y, depth+1), k)
			}
		}
	case *ssa.Call:
		if b, ok := x.Call.Value.(*ssa.Builtin); ok && b.Name() == "len" && len(x.Call.Args) == 1 {
			return e.lenLin(x.Call.Args[0], depth+1)
		}
	}
	return e.opaque(v)
}

// LenLin: the length of a slice / string / array value as a linear form.
func (e *LinEnv) LenLin(v ssa.Value) Lin { return e.lenLin(v, 0) }

func isByteSlice(t types.Type) bool {
	s, ok := t.Underlying().(*types.Slice)
	if !ok {
		return false
	}
	el, ok := s.Elem().Underlying().(*types.Basic)
	return ok && el.Kind() == types.Uint8
}

func isStringT(t types.Type) bool {
	b, ok := t.Underlying().(*types.Basic)
	return ok && b.Kind() == types.String
}

func (e *LinEnv) lenLin(v ssa.Value, depth int) Lin {
	if depth > 16 {
		return e.lenTerm(v)
	}
	if a, ok := v.Type().Underlying().(*types.Array); ok {
		return linConst(a.Len())
	}
	if p, ok := v.Type().Underlying().(*types.Pointer); ok {
		if a, ok := p.Elem().Underlying().(*types.Array); ok {
			return linConst(a.Len())
		}
	}
	switch x := v.(type) {
	case *ssa.ChangeType:
		return e.lenLin(x.X, depth+1)
	case *ssa.Convert:
		// string(bytes) / []byte(string): same length
		if (isByteSlice(x.X.Type()) && isStringT(x.Type())) || (isStringT(x.X.Type()) && isByteSlice(x.Type())) {
			return e.lenLin(x.X, depth+1)
		}
	case *ssa.MakeSlice:
		return e.linOf(x.Len, depth+1)
	case *ssa.Slice:
		lo := linConst(0)
		if x.Low != nil {
			lo = e.linOf(x.Low, depth+1)
		}
		if x.High != nil {
			return e.linOf(x.High, depth+1).addScaled(lo, -1)
		}
		return e.lenLin(x.X, depth+1).addScaled(lo, -1)
	}
	return e.lenTerm(v)
}

func (e *LinEnv) lenTerm(v ssa.Value) Lin {
	r := linConst(0)
	k := "len(" + e.key(v) + ")"
	r.T[k] = 1
	r.V[k] = nil
	return r
}

// constraints known at block b, each as a form that is <= 0.
func (e *LinEnv) constraintsAt(b *ssa.BasicBlock) []Lin {
	var out []Lin
	for _, f := range FactsAt(b) {
		c, ok := f.V.(*ssa.BinOp)
		if !ok || !isIntType(c.X.Type()) || !isIntType(c.Y.Type()) {
			continue
		}
		x, y := e.LinOf(c.X), e.LinOf(c.Y)
		le := func(a, b Lin, strict bool) { // a <= b  (a < b when strict)
			r := a.addScaled(b, -1)
			if strict {
				r.C++
			}
			out = append(out, r)
		}
		op, t := c.Op, f.True
		switch {
		case op == token.LSS && t, op == token.GEQ && !t:
			le(x, y, true)
		case op == token.LEQ && t, op == token.GTR && !t:
			le(x, y, false)
		case op == token.GTR && t, op == token.LEQ && !t:
			le(y, x, true)
		case op == token.GEQ && t, op == token.LSS && !t:
			le(y, x, false)
		case op == token.EQL && t, op == token.NEQ && !t:
			le(x, y, false)
			le(y, x, false)
		case op == token.NEQ && t, op == token.EQL && !t:
			// x != 0 for an unsigned x: x >= 1
			if typeRange(c.X.Type()).Lo == 0 {
				if k, ok := ConstInt(c.Y); ok && k == 0 {
					le(linConst(1), x, false)
				}
			}
			if typeRange(c.Y.Type()).Lo == 0 {
				if k, ok := ConstInt(c.X); ok && k == 0 {
					le(linConst(1), y, false)
				}
			}
		}
	}
	return out
}

func (e *LinEnv) ivOf(v ssa.Value) Interval {
	var at *ssa.BasicBlock
	if in, ok := v.(ssa.Instruction); ok {
		at = in.Block()
	}
	return evalInt(v, at, 6)
}

// lower bound of a value, with an inductive treatment of phi cycles: the bound of a phi is the minimum
// over its (flattened) edges; an edge of the form phi + rest with rest >= 0 does not lower it.
func (e *LinEnv) lbOf(v ssa.Value, at *ssa.BasicBlock, assume map[*ssa.Phi]bool, depth int) int64 {
	if depth > 24 {
		return NegInf
	}
	v = e.fwd(v)
	tr := typeRange(v.Type())
	best := tr.Lo
	if iv := evalInt(v, at, 8); iv.Lo > best {
		best = iv.Lo
	}
	switch x := v.(type) {
	case *ssa.Const:
		if n, ok := ConstInt(x); ok {
			return n
		}
	case *ssa.Convert:
		if isIntType(x.X.Type()) {
			src := e.lbOf(x.X, at, assume, depth+1)
			st := typeRange(x.X.Type())
			wide := st.Lo == 0 && st.Hi == PosInf && tr.Lo < 0 && evalInt(x.X, at, 8).Hi == PosInf
			if src >= tr.Lo && st.Hi <= tr.Hi && !wide && src > best {
				best = src
			}
		}
	case *ssa.ChangeType:
		if l := e.lbOf(x.X, at, assume, depth+1); l > best {
			best = l
		}
	case *ssa.BinOp:
		if x.Op == token.ADD && tr.Lo < 0 {
			a, b := e.lbOf(x.X, at, assume, depth+1), e.lbOf(x.Y, at, assume, depth+1)
			if a != NegInf && b != NegInf && addSat(a, b) > best {
				best = addSat(a, b)
			}
		}
	case *ssa.Phi:
		if assume[x] {
			return NegInf // inside a cycle only the `phi + rest` shape below is accepted
		}
		as := map[*ssa.Phi]bool{}
		for k := range assume {
			as[k] = true
		}
		type leaf struct {
			v  ssa.Value
			at *ssa.BasicBlock
		}
		var leaves []leaf
		var flat func(ph *ssa.Phi)
		flat = func(ph *ssa.Phi) {
			as[ph] = true
			for i, ed := range ph.Edges {
				if q, ok := ed.(*ssa.Phi); ok {
					if !as[q] {
						flat(q)
					}
					continue
				}
				leaves = append(leaves, leaf{ed, ph.Block().Preds[i]})
			}
		}
		flat(x)
		var m int64 = PosInf
	leafLoop:
		for _, lf := range leaves {
			l := e.linOf(lf.v, 0)
			for p := range as {
				if c, ok := l.T[e.key(p)]; ok && c == 1 {
					rest := l.addScaled(e.opaque(p), -1)
					if e.lbLin(rest, lf.at, as, depth+1) >= 0 {
						continue leafLoop
					}
				}
			}
			lb := e.lbOf(lf.v, lf.at, as, depth+1)
			if lb < 0 && depth < 4 && len(assume) == 0 && e.nest == 0 {
				// the comparisons on the way to this edge may give what intervals cannot (end -= 2 behind `end < 2`);
				// not re-entered: the proof below bounds its terms through lbOf again
				e.nest++
				if e.ProveLE0(linConst(0).addScaled(l, -1), lf.at) {
					lb = 0
				}
				e.nest--
			}
			if lb < m {
				m = lb
			}
		}
		if m != PosInf && m > best {
			best = m
		}
	}
	return best
}

func (e *LinEnv) lbLin(l Lin, at *ssa.BasicBlock, assume map[*ssa.Phi]bool, depth int) int64 {
	s := l.C
	for t, c := range l.T {
		v := l.V[t]
		var lo, hi int64 = 0, PosInf // len terms
		if v != nil {
			lo = e.lbOf(v, at, assume, depth+1)
			hi = evalInt(v, at, 8).Hi
		}
		if c > 0 {
			if lo == NegInf || lo == PosInf {
				return NegInf
			}
			s = addSat(s, mulSat(c, lo))
		} else {
			if hi == PosInf {
				return NegInf
			}
			s = addSat(s, mulSat(c, hi))
		}
	}
	return s
}

func (e *LinEnv) ubLin(l Lin, at *ssa.BasicBlock) int64 {
	s := l.C
	for t, c := range l.T {
		v := l.V[t]
		var lo, hi int64 = 0, PosInf
		if v != nil {
			lo = e.lbOf(v, at, nil, 0)
			hi = evalInt(v, at, 8).Hi
		}
		if c > 0 {
			if hi == PosInf {
				return PosInf
			}
			s = addSat(s, mulSat(c, hi))
		} else {
			if lo == NegInf || lo == PosInf {
				return PosInf
			}
			s = addSat(s, mulSat(c, lo))
		}
	}
	return s
}

// ProveLE0: req <= 0 holds whenever control is at block `at`.
func (e *LinEnv) ProveLE0(req Lin, at *ssa.BasicBlock) bool {
	if e.ubLin(req, at) <= 0 {
		return true
	}
	cs := e.constraintsAt(at)
	for i := range cs {
		r1 := req.addScaled(cs[i], -1)
		if e.ubLin(r1, at) <= 0 {
			return true
		}
		for j := i + 1; j < len(cs); j++ {
			if e.ubLin(r1.addScaled(cs[j], -1), at) <= 0 {
				return true
			}
		}
	}
	return false
}

// ProveIndexSite decides one bounds-checked instruction: every index lies in [0, len), every slice
// expression has 0 <= lo <= hi <= len (len <= cap).  Returns the first requirement that is not proven.
func (e *LinEnv) ProveIndexSite(in ssa.Instruction) (bool, string) {
	at := in.Block()
	need := func(what string, l Lin) (bool, string) {
		if e.ProveLE0(l, at) {
			return true, ""
		}
		return false, what + ": " + l.String() + " <= 0 not derivable"
	}
	index := func(xv, iv ssa.Value) (bool, string) {
		i := e.LinOf(iv)
		if ok, w := need("index >= 0", linConst(0).addScaled(i, -1)); !ok {
			return false, w
		}
		i.C++
		return need("index < len", i.addScaled(e.LenLin(xv), -1))
	}
	switch x := in.(type) {
	case *ssa.IndexAddr:
		return index(x.X, x.Index)
	case *ssa.Index:
		return index(x.X, x.Index)
	case *ssa.Lookup:
		if _, isMap := x.X.Type().Underlying().(*types.Map); isMap {
			return true, ""
		}
		return index(x.X, x.Index)
	case *ssa.Slice:
		lo := linConst(0)
		if x.Low != nil {
			lo = e.LinOf(x.Low)
			if ok, w := need("low >= 0", linConst(0).addScaled(lo, -1)); !ok {
				return false, w
			}
		}
		ln := e.LenLin(x.X)
		if x.Max != nil {
			return false, "three-index slice not handled"
		}
		if x.High == nil {
			return need("low <= len", lo.addScaled(ln, -1))
		}
		hi := e.LinOf(x.High)
		if ok, w := need("low <= high", lo.addScaled(hi, -1)); !ok {
			return false, w
		}
		return need("high <= len", hi.addScaled(ln, -1))
	}
	return false, "not an index instruction"
}
