// Package core holds the program model shared by all rules: loading, SSA, call graph,
// anchors, path facts, goroutine classes, reporting.
package core

import (
	"fmt"
	"go/ast"
	"go/token"
	"go/types"
	"os"
	"path/filepath"
	"sort"
	"strings"

	"golang.org/x/tools/go/callgraph"
	"golang.org/x/tools/go/callgraph/cha"
	"golang.org/x/tools/go/callgraph/vta"
	"golang.org/x/tools/go/packages"
	"golang.org/x/tools/go/ssa"
	"golang.org/x/tools/go/ssa/ssautil"
)

const ModPath = "github.com/free5gc/go-upf"

// Well-known dependency package paths.
const (
	PkgIE      = "github.com/wmnsk/go-pfcp/ie"
	PkgMessage = "github.com/wmnsk/go-pfcp/message"
	PkgGtp5gnl = "github.com/free5gc/go-gtp5gnl"
	PkgNL      = "github.com/khirono/go-nl"
)

type Program struct {
	Repo string
	Fset *token.FileSet
	// Renamed: anchors resolved to a near-miss name (spelling fix), anchor -> actual name
	Renamed map[string]string
	Roots   []*packages.Package
	All     map[string]*packages.Package
	SSA     *ssa.Program

	own      map[*types.Package]bool
	declOf   map[*types.Func]*ast.FuncDecl
	expanded map[*ssa.Function]bool
	bce      *BCE
	ownFuncs []*ssa.Function
	Memo     map[string]any // per-program results of expensive rule-side computations
	gclasses map[string]*GClass
	fnNames  map[*ssa.Function]string
	bceErr   error
	cg       *callgraph.Graph
	allFuncs map[*ssa.Function]bool
	LoadSecs float64
}

// Env returns the offline Go environment used for every go command.
func Env() []string {
	env := []string{}
	for _, e := range os.Environ() {
		if strings.HasPrefix(e, "GOFLAGS=") || strings.HasPrefix(e, "GOWORK=") ||
			strings.HasPrefix(e, "GOPROXY=") || strings.HasPrefix(e, "GOSUMDB=") ||
			strings.HasPrefix(e, "GOTOOLCHAIN=") {
			continue
		}
		env = append(env, e)
	}
	return append(env, "GOFLAGS=-mod=mod", "GOWORK=off", "GOPROXY=off", "GOSUMDB=off", "GOTOOLCHAIN=local")
}

// Load type-checks ./... of the repository (non-test files) with dependencies in syntax form
// and builds SSA for the whole program.  Any load or type error is returned (fail closed).
func Load(repo string) (*Program, error) {
	cfg := &packages.Config{
		Mode:  packages.LoadAllSyntax,
		Dir:   repo,
		Env:   Env(),
		Tests: false,
	}
	roots, err := packages.Load(cfg, "./...")
	if err != nil {
		return nil, fmt.Errorf("load: %w", err)
	}
	p := &Program{Repo: repo, Roots: roots, All: map[string]*packages.Package{},
		own: map[*types.Package]bool{}, declOf: map[*types.Func]*ast.FuncDecl{}}
	var errs []string
	packages.Visit(roots, nil, func(pk *packages.Package) {
		p.All[pk.PkgPath] = pk
		if strings.HasPrefix(pk.PkgPath, ModPath) {
			for _, e := range pk.Errors {
				errs = append(errs, e.Error())
			}
		}
	})
	if len(errs) > 0 {
		return nil, fmt.Errorf("type/load errors in own packages: %s", strings.Join(errs, "; "))
	}
	nOwn := 0
	for _, r := range roots {
		if strings.HasPrefix(r.PkgPath, ModPath) && r.Types != nil {
			nOwn++
			p.own[r.Types] = true
			if p.Fset == nil {
				p.Fset = r.Fset
			}
		}
	}
	if nOwn < 10 {
		return nil, fmt.Errorf("only %d own packages loaded from %s (expected >= 10)", nOwn, repo)
	}
	installInlineFilter(roots)
	prog, _ := ssautil.AllPackages(roots, ssa.InstantiateGenerics)
	prog.Build()
	p.SSA = prog
	for _, r := range roots {
		if !p.own[r.Types] {
			continue
		}
		for _, f := range r.Syntax {
			for _, d := range f.Decls {
				if fd, ok := d.(*ast.FuncDecl); ok {
					if obj, ok := r.TypesInfo.Defs[fd.Name].(*types.Func); ok {
						p.declOf[obj] = fd
					}
				}
			}
		}
	}
	return p, nil
}

func (p *Program) IsOwn(pkg *types.Package) bool { return pkg != nil && p.own[pkg] }

// IsOwnFn reports whether fn (or its enclosing function) is declared in a go-upf package.
func (p *Program) IsOwnFn(fn *ssa.Function) bool {
	for fn != nil && fn.Parent() != nil {
		fn = fn.Parent()
	}
	if fn == nil {
		return false
	}
	if fn.Pkg != nil {
		return p.own[fn.Pkg.Pkg]
	}
	if o := fn.Object(); o != nil {
		return p.own[o.Pkg()]
	}
	return false
}

// Pkg returns a package by path; own packages may be given relative to the module ("internal/pfcp").
func (p *Program) Pkg(path string) *packages.Package {
	if pk, ok := p.All[path]; ok {
		return pk
	}
	if pk, ok := p.All[ModPath+"/"+path]; ok {
		return pk
	}
	return nil
}

// Obj looks a package-level object up.
func (p *Program) Obj(pkg, name string) types.Object {
	pk := p.Pkg(pkg)
	if pk == nil || pk.Types == nil {
		return nil
	}
	return pk.Types.Scope().Lookup(name)
}

func (p *Program) Named(pkg, name string) *types.Named {
	o := p.Obj(pkg, name)
	if o == nil {
		return nil
	}
	n, _ := o.Type().(*types.Named)
	return n
}

// Method returns the method `name` of named type pkg.typ (pointer or value receiver).
func (p *Program) Method(pkg, typ, name string) *types.Func {
	n := p.Named(pkg, typ)
	if n == nil {
		return nil
	}
	for i := 0; i < n.NumMethods(); i++ {
		if m := n.Method(i); m.Name() == name {
			return m
		}
	}
	if it, ok := n.Underlying().(*types.Interface); ok {
		for i := 0; i < it.NumMethods(); i++ {
			if m := it.Method(i); m.Name() == name {
				return m
			}
		}
	}
	if !p.IsOwn(n.Obj().Pkg()) {
		return nil
	}
	// The method may have become a plain function taking the receiver as first parameter
	// (g.checkVersion() -> checkVersion(g)), or have been renamed by a spelling fix (Dispacher ->
	// Dispatcher).  Candidates, most specific first: same-name function, near-miss method, near-miss
	// function; a step resolves only if it has exactly one candidate.  The rules judge the function by
	// its structure, not by its name.
	recvFirst := func(match func(string) bool) (*types.Func, int) {
		var cand *types.Func
		k := 0
		sc := n.Obj().Pkg().Scope()
		for _, fnName := range sc.Names() {
			f, ok := sc.Lookup(fnName).(*types.Func)
			if !ok || !match(fnName) {
				continue
			}
			sig := f.Type().(*types.Signature)
			if sig.Params().Len() == 0 {
				continue
			}
			t := sig.Params().At(0).Type()
			if pt, ok := t.(*types.Pointer); ok {
				t = pt.Elem()
			}
			if nn, ok := t.(*types.Named); ok && nn.Obj() == n.Obj() {
				cand = f
				k++
			}
		}
		return cand, k
	}
	if cand, k := recvFirst(func(s string) bool { return s == name || strings.EqualFold(s, name) }); k == 1 {
		PseudoMethod[cand] = true
		p.noteRename(pkg+"."+typ+"."+name, "func "+cand.Name()+"(recv, ...)")
		return cand
	}
	var cand *types.Func
	k := 0
	for i := 0; i < n.NumMethods(); i++ {
		if m := n.Method(i); nearName(m.Name(), name) {
			cand = m
			k++
		}
	}
	if k == 1 {
		p.noteRename(pkg+"."+typ+"."+name, cand.Name())
		return cand
	}
	if k == 0 {
		if cand, k2 := recvFirst(func(s string) bool { return nearName(s, name) }); k2 == 1 {
			PseudoMethod[cand] = true
			p.noteRename(pkg+"."+typ+"."+name, "func "+cand.Name()+"(recv, ...)")
			return cand
		}
	}
	return nil
}

func (p *Program) Func(pkg, name string) *types.Func {
	if f, ok := p.Obj(pkg, name).(*types.Func); ok {
		return f
	}
	pk := p.Pkg(pkg)
	if pk == nil || pk.Types == nil || !p.IsOwn(pk.Types) {
		return nil
	}
	var cand *types.Func
	k := 0
	for _, n := range pk.Types.Scope().Names() {
		if f, ok := pk.Types.Scope().Lookup(n).(*types.Func); ok && nearName(n, name) {
			cand = f
			k++
		}
	}
	if k == 1 {
		p.noteRename(pkg+"."+name, cand.Name())
		return cand
	}
	return nil
}

// Renamed lists anchors that were resolved to a near-miss name.
func (p *Program) noteRename(anchor, actual string) {
	if p.Renamed == nil {
		p.Renamed = map[string]string{}
	}
	p.Renamed[anchor] = actual
}

// nearName: a and b differ by an edit distance of at most 2 (and are long enough for that to be a
// spelling variant rather than another word).
func nearName(a, b string) bool {
	if a == b || len(a) < 8 || len(b) < 8 {
		return false
	}
	la, lb := len(a), len(b)
	if la-lb > 2 || lb-la > 2 {
		return false
	}
	prev := make([]int, lb+1)
	cur := make([]int, lb+1)
	for j := range prev {
		prev[j] = j
	}
	for i := 1; i <= la; i++ {
		cur[0] = i
		for j := 1; j <= lb; j++ {
			c := prev[j-1]
			if a[i-1] != b[j-1] {
				c++
			}
			if prev[j]+1 < c {
				c = prev[j] + 1
			}
			if cur[j-1]+1 < c {
				c = cur[j-1] + 1
			}
			cur[j] = c
		}
		prev, cur = cur, prev
	}
	return prev[lb] <= 2
}

// Field returns the field `name` of the struct type pkg.typ.
func (p *Program) Field(pkg, typ, name string) *types.Var {
	n := p.Named(pkg, typ)
	if n == nil {
		return nil
	}
	st, ok := n.Underlying().(*types.Struct)
	if !ok {
		return nil
	}
	for i := 0; i < st.NumFields(); i++ {
		if st.Field(i).Name() == name {
			return st.Field(i)
		}
	}
	return nil
}

func (p *Program) Const(pkg, name string) *types.Const {
	c, _ := p.Obj(pkg, name).(*types.Const)
	return c
}

// SSAFn returns the SSA function of a declared function/method.
func (p *Program) SSAFn(f *types.Func) *ssa.Function {
	if f == nil {
		return nil
	}
	return p.SSA.FuncValue(f)
}

// Decl returns the syntax of an own function.
func (p *Program) Decl(f *types.Func) *ast.FuncDecl { return p.declOf[f] }

// Info returns the types.Info of the own package declaring pos/obj.
func (p *Program) InfoOf(pkg *types.Package) *types.Info {
	if pk := p.All[pkg.Path()]; pk != nil {
		return pk.TypesInfo
	}
	return nil
}

// Pos renders a position relative to the repository.
func (p *Program) Pos(pos token.Pos) string {
	if !pos.IsValid() {
		return "-"
	}
	ps := p.Fset.Position(pos)
	rel, err := filepath.Rel(p.Repo, ps.Filename)
	if err != nil || strings.HasPrefix(rel, "..") {
		rel = ps.Filename
		if i := strings.Index(rel, "/pkg/mod/"); i >= 0 {
			rel = rel[i+len("/pkg/mod/"):]
		}
	}
	return fmt.Sprintf("%s:%d:%d", rel, ps.Line, ps.Column)
}

// AllFuncs returns every SSA function of the program (including anonymous ones).
func (p *Program) AllFuncs() map[*ssa.Function]bool {
	if p.allFuncs == nil {
		p.allFuncs = ssautil.AllFunctions(p.SSA)
	}
	return p.allFuncs
}

// OwnFuncs returns the SSA functions declared in go-upf packages (non-test), sorted by position.
// Package testtools/upftest (a manual test client) is excluded.
func (p *Program) OwnFuncs() []*ssa.Function {
	if p.ownFuncs != nil {
		return append([]*ssa.Function(nil), p.ownFuncs...)
	}
	var out []*ssa.Function
	for fn := range p.AllFuncs() {
		if !p.IsOwnFn(fn) || fn.Blocks == nil {
			continue
		}
		if fn.Synthetic != "" && fn.Parent() == nil && fn.Name() != "init" {
			// wrappers/thunks/bound methods: bodies are synthetic, skip
			continue
		}
		if pk := FnPkg(fn); pk != nil && strings.Contains(pk.Path(), "/testtools/") {
			continue
		}
		if p.expandedAway(fn) {
			continue
		}
		out = append(out, fn)
	}
	// order by (file, offset): token.Pos values depend on the order in which the loader happened to
	// register files and differ between runs
	type key struct {
		file string
		off  int
	}
	ks := map[*ssa.Function]key{}
	for _, fn := range out {
		ps := p.Fset.Position(fn.Pos())
		ks[fn] = key{ps.Filename, ps.Offset}
	}
	sort.Slice(out, func(i, j int) bool {
		a, b := ks[out[i]], ks[out[j]]
		if a.file != b.file {
			return a.file < b.file
		}
		if a.off != b.off {
			return a.off < b.off
		}
		return out[i].String() < out[j].String()
	})
	p.ownFuncs = out
	return append([]*ssa.Function(nil), out...)
}

func FnPkg(fn *ssa.Function) *types.Package {
	for fn != nil && fn.Parent() != nil {
		fn = fn.Parent()
	}
	if fn == nil {
		return nil
	}
	if fn.Pkg != nil {
		return fn.Pkg.Pkg
	}
	if o := fn.Object(); o != nil {
		return o.Pkg()
	}
	return nil
}

// CallGraph returns the VTA call graph seeded by CHA (over-approximating for this program).
func (p *Program) CallGraph() *callgraph.Graph {
	if p.cg == nil {
		p.cg = vta.CallGraph(p.AllFuncs(), cha.CallGraph(p.SSA))
	}
	return p.cg
}

// FnName gives a stable readable name: "(*pfcp.Sess).Close", "pfcp.NewRemoteNode", "pfcp.(*TxTransaction).startTimer$1".
func FnName(fn *ssa.Function) string {
	if fn == nil {
		return "<nil>"
	}
	s := fn.String()
	s = strings.ReplaceAll(s, ModPath+"/internal/forwarder/", "")
	s = strings.ReplaceAll(s, ModPath+"/internal/", "")
	s = strings.ReplaceAll(s, ModPath+"/pkg/", "")
	s = strings.ReplaceAll(s, ModPath+"/", "")
	s = strings.ReplaceAll(s, "github.com/wmnsk/go-pfcp/", "")
	s = strings.ReplaceAll(s, "github.com/free5gc/go-gtp5gnl", "gtp5gnl")
	s = strings.ReplaceAll(s, "github.com/khirono/go-nl", "nl")
	return s
}

// expandedAway: fn (or the function it is nested in) is a function that does not exist in the reference tree, every
// call of which the SSA builder expanded into its callers (inline.go): its code is judged where it runs, as part of
// the known functions, and the left-over declaration is nobody's code.
func (p *Program) expandedAway(fn *ssa.Function) bool {
	top := fn
	for top.Parent() != nil {
		top = top.Parent()
	}
	obj, ok := top.Object().(*types.Func)
	if !ok || !NewFunctions[obj.FullName()] {
		return false
	}
	if p.expanded == nil {
		p.expanded = map[*ssa.Function]bool{}
	}
	if v, ok := p.expanded[top]; ok {
		return v
	}
	// expanded at one site at least and called nowhere any more.  A new function nobody calls statically and that was
	// never expanded (a method a library reaches by reflection or through an interface: UnmarshalYAML, String,
	// ServeHTTP; a goroutine body) is code of its own and is judged as such
	away := len(p.Callers(top)) == 0 && ssa.InlinedCalls[obj.FullName()] > 0
	p.expanded[top] = away
	return away
}
