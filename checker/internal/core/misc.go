package core

import (
	"bufio"
	"fmt"
	"go/ast"
	"go/types"
	"os"
	"path/filepath"
	"strconv"
	"strings"

	"golang.org/x/tools/go/ssa"
)

// PrintExcerpt prints a few source lines around "file:line:col" (relative to repo).
func PrintExcerpt(repo, pos string) {
	parts := strings.Split(pos, ":")
	if len(parts) < 2 {
		return
	}
	line, err := strconv.Atoi(parts[1])
	if err != nil {
		return
	}
	f, err := os.Open(filepath.Join(repo, parts[0]))
	if err != nil {
		return
	}
	defer f.Close()
	sc := bufio.NewScanner(f)
	for n := 1; sc.Scan(); n++ {
		if n >= line-3 && n <= line+3 {
			mark := "  "
			if n == line {
				mark = "=>"
			}
			fmt.Printf("%s %5d  %s\n", mark, n, sc.Text())
		}
	}
}

// RecvNamed returns the named type of a method's receiver (pointer stripped), or nil.
func RecvNamed(f *types.Func) *types.Named {
	sig, ok := f.Type().(*types.Signature)
	if !ok {
		return nil
	}
	if sig.Recv() == nil {
		// a method that was turned into a plain function `f(recv *T, ...)` and resolved as such (see
		// Program.Method): its first parameter plays the receiver
		if PseudoMethod[f] && sig.Params().Len() > 0 {
			t := sig.Params().At(0).Type()
			if p, ok := t.(*types.Pointer); ok {
				t = p.Elem()
			}
			n, _ := t.(*types.Named)
			return n
		}
		return nil
	}
	t := sig.Recv().Type()
	if p, ok := t.(*types.Pointer); ok {
		t = p.Elem()
	}
	n, _ := t.(*types.Named)
	return n
}

// IsMethodOf reports whether f is method `name` of type pkgpath.typ.
func IsMethodOf(f *types.Func, pkgpath, typ, name string) bool {
	if f == nil || f.Name() != name {
		return false
	}
	n := RecvNamed(f)
	return n != nil && n.Obj().Name() == typ && n.Obj().Pkg() != nil && n.Obj().Pkg().Path() == pkgpath
}

// IsPkgFunc reports whether f is the package-level function pkgpath.name.
func IsPkgFunc(f *types.Func, pkgpath, name string) bool {
	if f == nil || f.Name() != name || f.Pkg() == nil || f.Pkg().Path() != pkgpath {
		return false
	}
	sig, ok := f.Type().(*types.Signature)
	return ok && sig.Recv() == nil
}

// EndianCall classifies a call to encoding/binary's fixed-width codecs:
// order "little"/"big", op "Uint"/"PutUint", width in bits.
func EndianCall(f *types.Func) (order, op string, width int, ok bool) {
	if f == nil || f.Pkg() == nil || f.Pkg().Path() != "encoding/binary" {
		return
	}
	n := RecvNamed(f)
	if n == nil {
		// interface method binary.ByteOrder.Uint32: order unknown
		return
	}
	switch n.Obj().Name() {
	case "littleEndian":
		order = "little"
	case "bigEndian":
		order = "big"
	default:
		return
	}
	name := f.Name()
	for _, o := range []string{"PutUint", "Uint"} {
		if strings.HasPrefix(name, o) {
			w, err := strconv.Atoi(name[len(o):])
			if err == nil {
				return order, o, w, true
			}
		}
	}
	return
}

// Methods returns the declared methods of a named type sorted by name.
func Methods(n *types.Named) []*types.Func {
	var out []*types.Func
	for i := 0; i < n.NumMethods(); i++ {
		out = append(out, n.Method(i))
	}
	return out
}

// Param returns the i-th declared parameter (excluding receiver) of an SSA function.
func Param(fn *ssa.Function, i int) *ssa.Parameter {
	off := 0
	if fn.Signature.Recv() != nil || isPseudo(fn) {
		off = 1
	}
	if off+i < len(fn.Params) {
		return fn.Params[off+i]
	}
	return nil
}

// Recv returns the receiver parameter of a method.
func Recv(fn *ssa.Function) *ssa.Parameter {
	if (fn.Signature.Recv() != nil || isPseudo(fn)) && len(fn.Params) > 0 {
		return fn.Params[0]
	}
	return nil
}

// PseudoMethod: plain functions `f(recv *T, args...)` that an anchor for method T.f was resolved to
// (the refactoring "method -> function taking the receiver first" keeps the body; the rules keep
// judging it as the method it was).
var PseudoMethod = map[*types.Func]bool{}

func isPseudo(fn *ssa.Function) bool {
	if fn == nil {
		return false
	}
	f, ok := fn.Object().(*types.Func)
	return ok && PseudoMethod[f]
}

// ObjOf resolves an identifier or selector expression to its object.
func ObjOf(info *types.Info, e ast.Expr) types.Object {
	switch x := ast.Unparen(e).(type) {
	case *ast.Ident:
		return info.ObjectOf(x)
	case *ast.SelectorExpr:
		return info.ObjectOf(x.Sel)
	}
	return nil
}

// CalleeOfExpr resolves the function called by a call expression (nil for conversions / func values).
func CalleeOfExpr(info *types.Info, call *ast.CallExpr) *types.Func {
	f, _ := ObjOf(info, call.Fun).(*types.Func)
	return f
}
