module upfcheck

go 1.22.0

toolchain go1.23.5

require golang.org/x/tools v0.29.0

require (
	golang.org/x/mod v0.22.0 // indirect
	golang.org/x/sync v0.10.0 // indirect
)

// a pruned copy of golang.org/x/tools v0.29.0 (go/ssa, go/packages, go/callgraph, go/types, internal/...) whose
// go/ssa builder can inline calls of functions selected by ssa.InlineFilter (see DESIGN.md 8.7)
replace golang.org/x/tools => ./xtools
