package main

import (
	"fmt"
	"golang.org/x/tools/go/packages"
)

func main() {
	cfg := &packages.Config{Mode: packages.LoadAllSyntax, Dir: "/repo", Env: nil}
	pkgs, err := packages.Load(cfg, "./...")
	fmt.Println(len(pkgs), err)
}
