// upfcheck decides the go-upf properties C01..C20 by static analysis of the repository's
// current source.  See /verif/DESIGN.md.
package main

import (
	"encoding/json"
	"flag"
	"fmt"
	"os"
	"path/filepath"
	"runtime/debug"
	"runtime/pprof"
	"sort"
	"strconv"
	"time"

	"upfcheck/internal/core"
	"upfcheck/internal/rules"
)

func main() {
	prop := flag.String("prop", "", "property id (C01..C20)")
	tier := flag.String("tier", "quick", "quick|thorough")
	repo := flag.String("repo", "/repo", "repository root")
	verif := flag.String("verif", "/verif", "verification root (known_findings.json, evidence/)")
	out := flag.String("out", "", "evidence directory (default <verif>/evidence)")
	explain := flag.String("explain", "", "pretty-print a replay file")
	list := flag.Bool("list", false, "list implemented properties")
	flag.Parse()
	if pf := os.Getenv("UPF_CPUPROFILE"); pf != "" {
		if f, err := os.Create(pf); err == nil {
			_ = pprof.StartCPUProfile(f)
			defer pprof.StopCPUProfile()
		}
	}

	if *list {
		var ids []string
		for id := range rules.Registry {
			ids = append(ids, id)
		}
		sort.Strings(ids)
		for _, id := range ids {
			fmt.Println(id)
		}
		return
	}
	if *explain != "" {
		os.Exit(doExplain(*explain, *repo))
	}
	if *out == "" {
		*out = filepath.Join(*verif, "evidence")
	}
	if *prop == "all" {
		// developer mode: load once, run every property (used by the seed matrix)
		p, err := core.Load(*repo)
		if err != nil {
			fmt.Println("LOAD-ERROR", err)
			os.Exit(1)
		}
		var ids []string
		for id := range rules.Registry {
			ids = append(ids, id)
		}
		sort.Strings(ids)
		rc := 0
		for _, id := range ids {
			ctx, _ := core.NewCtx(p, id, *tier, 0, *out, filepath.Join(*verif, "known_findings.json"))
			func() {
				defer func() {
					if r := recover(); r != nil {
						ctx.Anchor("PANIC", fmt.Sprintf("checker panic: %v", r))
					}
				}()
				rules.Registry[id](ctx)
			}()
			if ctx.Finish() != 0 {
				rc = 1
			}
		}
		pprof.StopCPUProfile()
		os.Exit(rc)
	}
	rule, ok := rules.Registry[*prop]
	if !ok {
		fmt.Fprintf(os.Stderr, "unknown property %q\n", *prop)
		os.Exit(2)
	}
	if *out == "" {
		*out = filepath.Join(*verif, "evidence")
	}
	seed, _ := strconv.ParseInt(os.Getenv("VERIF_SEED"), 10, 64)

	t0 := time.Now()
	p, err := core.Load(*repo)
	var ctx *core.Ctx
	if err != nil {
		// fail closed: the property cannot be decided on a tree that does not load
		ctx, _ = core.NewCtx(nil, *prop, *tier, seed, *out, "")
		ctx.Explain = "analysis error: the repository could not be loaded/type-checked"
		ctx.Anchor("LOAD", err.Error())
		os.Exit(ctx.Finish())
	}
	p.LoadSecs = time.Since(t0).Seconds()
	ctx, err = core.NewCtx(p, *prop, *tier, seed, *out, filepath.Join(*verif, "known_findings.json"))
	if err != nil {
		fmt.Fprintln(os.Stderr, err)
		os.Exit(2)
	}
	func() {
		defer func() {
			if r := recover(); r != nil {
				fmt.Fprintf(os.Stderr, "checker panic: %v\n%s\n", r, debug.Stack())
				ctx.Anchor("PANIC", fmt.Sprintf("checker panic: %v", r))
			}
		}()
		rule(ctx)
	}()
	rcF := ctx.Finish()
	pprof.StopCPUProfile()
	os.Exit(rcF)
}

func doExplain(path, repo string) int {
	b, err := os.ReadFile(path)
	if err != nil {
		fmt.Fprintln(os.Stderr, err)
		return 2
	}
	var f core.Finding
	if err := json.Unmarshal(b, &f); err != nil {
		fmt.Fprintln(os.Stderr, err)
		return 2
	}
	fmt.Printf("property %s, rule %s (%s)\nkey      %s\nat       %s\n%s\n", f.Property, f.Rule, f.Kind, f.Key, f.Pos, f.Msg)
	for _, s := range f.Path {
		fmt.Printf("    %s\n", s)
	}
	core.PrintExcerpt(repo, f.Pos)
	return 0
}
