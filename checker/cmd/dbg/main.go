package main

import (
	"fmt"
	"sort"
	"upfcheck/internal/core"
)

func main() {
	p, err := core.Load("/repo")
	if err != nil { panic(err) }
	cl := p.GoroutineClasses()
	var names []string
	for n := range cl { names = append(names, n) }
	sort.Strings(names)
	for _, n := range names {
		g := cl[n]
		own := 0
		for f := range g.Reach { if p.IsOwnFn(f) { own++ } }
		fmt.Println(n, len(g.Roots), g.Roots[0].String(), "reach", len(g.Reach), "own", own)
	}
}
