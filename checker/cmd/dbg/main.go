package main

import (
	"fmt"
	"sort"
	"upfcheck/internal/core"
)

func main() {
	p, err := core.Load("/repo")
	if err != nil {
		panic(err)
	}
	cl := p.GoroutineClasses()
	ops := p.ChanOps()
	alias := p.ChanAlias(ops)
	for _, o := range ops {
		id := o.Chan
		if a, ok := alias[id]; ok {
			id = a
		}
		cs := core.ClassesOf(cl, o.Fn)
		fmt.Printf("%-6s %-60s blocking=%-5v multi=%-5v cap=%-4d %-50s %v %s\n", o.Kind, id, o.Blocking, o.Multi, o.Cap, core.FnName(o.Fn), cs, p.Pos(o.Instr.Pos()))
	}
	var names []string
	for n := range cl {
		names = append(names, n)
	}
	sort.Strings(names)
	fmt.Println(names)
}
