package main

import (
	"fmt"
	"os"

	"upfcheck/internal/core"
	"upfcheck/internal/rules"
)

// developer aid: dbg <repo> [carried|tables]
func main() {
	repo, what := "/repo", "carried"
	if len(os.Args) > 1 {
		repo = os.Args[1]
	}
	if len(os.Args) > 2 {
		what = os.Args[2]
	}
	p, err := core.Load(repo)
	if err != nil {
		panic(err)
	}
	switch what {
	case "tables":
		rules.DumpTables(p)
	default:
		rules.DumpCarried(p, func(s string) { fmt.Println(s) })
	}
}
