package main

import (
	"fmt"
	"os"

	"upfcheck/internal/core"
	"upfcheck/internal/rules"
)

func main() {
	repo := "/repo"
	if len(os.Args) > 1 {
		repo = os.Args[1]
	}
	p, err := core.Load(repo)
	if err != nil {
		panic(err)
	}
	rules.DumpCarried(p, func(s string) { fmt.Println(s) })
}
