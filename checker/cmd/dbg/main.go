package main

import (
	"upfcheck/internal/core"
	"upfcheck/internal/rules"
)

func main() {
	p, err := core.Load("/repo")
	if err != nil {
		panic(err)
	}
	rules.DumpTables(p)
}
