package main

import (
	"fmt"
	"os"

	"golang.org/x/tools/go/ssa"

	"upfcheck/internal/core"
	"upfcheck/internal/rules"
)

// developer aid: dbg <repo> [carried|tables|reffuncs <file>|inlined]
func main() {
	repo, what := "/repo", "carried"
	if len(os.Args) > 1 {
		repo = os.Args[1]
	}
	if len(os.Args) > 2 {
		what = os.Args[2]
	}
	if what == "reffuncs" {
		if err := core.WriteRefFuncs(repo, os.Args[3]); err != nil {
			panic(err)
		}
		return
	}
	p, err := core.Load(repo)
	if err != nil {
		panic(err)
	}
	switch what {
	case "ssa":
		for _, fn := range p.OwnFuncs() {
			if len(os.Args) > 3 && fn.Name() == os.Args[3] {
				fn.WriteTo(os.Stdout)
			}
		}
	case "inlined":
		for n := range core.NewFunctions {
			fmt.Println("new:", n)
		}
		for n, k := range ssa.InlinedCalls {
			fmt.Println("expanded:", n, k)
		}
	case "libsites":
		rules.DumpLibSites(p, func(s string) { fmt.Println(s) })
	case "tables":
		rules.DumpTables(p)
	default:
		rules.DumpCarried(p, func(s string) { fmt.Println(s) })
	}
}
