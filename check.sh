#!/bin/bash
# usage: check.sh <property-id> <quick|thorough>
# Decides one property by static analysis of /repo's current working tree (see DESIGN.md).
cd "$(dirname "$0")"
export GOFLAGS=-mod=mod GOPROXY=off GOSUMDB=off GOTOOLCHAIN=local
unset GOWORK
PROP=$1; TIER=${2:-${VERIF_TIER:-quick}}
if [ ! -x bin/upfcheck ] || [ -n "$(find checker -newer bin/upfcheck -name '*.go' -print -quit 2>/dev/null)" ]; then
  (cd checker && go build -o ../bin/upfcheck ./cmd/upfcheck) || { echo "VIOLATION property=$PROP replay=/verif/evidence/$PROP.build-failed"; exit 1; }
fi
exec bin/upfcheck -prop "$PROP" -tier "$TIER" -repo "${UPF_REPO:-/repo}" -verif /verif
