#!/bin/bash
# usage: check.sh <property-id> <quick|thorough>
# Decides one property by static analysis of /repo's current working tree (see DESIGN.md).
#  quick    : load + SSA + call graph + the property's rules on /repo
#  thorough : quick, plus the sensitivity self-test: every one-edit variant of the catalogue
#             checker/variants/<id>.json (incl. the confirmed seeded changes) is applied to a scratch
#             copy, compiled and analysed; results are recorded in the evidence file.
cd "$(dirname "$0")"
export GOFLAGS=-mod=mod GOPROXY=off GOSUMDB=off GOTOOLCHAIN=local
unset GOWORK
PROP=$1; TIER=${2:-${VERIF_TIER:-quick}}
mkdir -p bin evidence
if [ ! -x bin/upfcheck ] || [ -n "$(find checker -newer bin/upfcheck \( -name '*.go' -o -name '*.json' \) -print -quit 2>/dev/null)" ]; then
  (cd checker && go build -o ../bin/upfcheck ./cmd/upfcheck) || { echo "VIOLATION property=$PROP replay=/verif/evidence/$PROP.build-failed"; exit 1; }
fi
bin/upfcheck -prop "$PROP" -tier "$TIER" -repo "${UPF_REPO:-/repo}" -verif /verif
rc=$?
if [ $rc -ne 0 ] && [ $rc -ne 1 ]; then
  # the analyser itself died (fatal runtime error, killed): fail closed, the property was not decided
  echo "checker exited with status $rc" > "evidence/$PROP.checker-crashed"
  echo "VIOLATION property=$PROP replay=/verif/evidence/$PROP.checker-crashed"
  rc=1
fi
if [ "$TIER" = "thorough" ]; then
  python3 tools/variants.py "$PROP" --jobs 6 --merge "evidence/$PROP.json" | grep -v '^selftest ok'
  # engine fixtures (positive and negative examples of the path / loop engines)
  (cd checker && go test ./internal/... 2>&1 | grep -v '^ok\|no test files' | sed 's/^/ENGINE-SELFTEST: /')
fi
exit $rc
