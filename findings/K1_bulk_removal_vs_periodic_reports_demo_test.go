package pfcp

import (
	"net"
	"sync"
	"testing"
	"time"

	"github.com/wmnsk/go-pfcp/ie"
	"github.com/wmnsk/go-pfcp/message"

	"github.com/free5gc/go-upf/internal/forwarder"
	"github.com/free5gc/go-upf/internal/forwarder/perio"
	"github.com/free5gc/go-upf/internal/report"
	"github.com/free5gc/go-upf/pkg/factory"
)

// k1Driver glues the REAL periodic-report server to the REAL PFCP server the way forwarder.Gtp5g does
// (CreateURR -> AddPeriodReportTimer, RemoveURR -> DelPeriodReportTimer, HandleReport -> ps.Handle with a
// query function); only the kernel query is replaced: it returns one usage report per registered URR and
// can be held, like a slow netlink round trip.
type k1Driver struct {
	forwarder.Empty
	ps      *perio.Server
	entered chan struct{}
	mu      sync.Mutex
	hold    chan struct{}
}

func (d *k1Driver) gate() chan struct{} {
	d.mu.Lock()
	defer d.mu.Unlock()
	return d.hold
}

func (d *k1Driver) setGate(c chan struct{}) {
	d.mu.Lock()
	d.hold = c
	d.mu.Unlock()
}

func (d *k1Driver) CreateURR(lSeid uint64, req *ie.IE) error {
	id, err := req.URRID()
	if err != nil {
		return err
	}
	d.ps.AddPeriodReportTimer(lSeid, id, 400*time.Millisecond)
	return nil
}

func (d *k1Driver) RemoveURR(lSeid uint64, req *ie.IE) ([]report.USAReport, error) {
	id, err := req.URRID()
	if err != nil {
		return nil, err
	}
	d.ps.DelPeriodReportTimer(lSeid, id)
	return nil, nil
}

func (d *k1Driver) HandleReport(h report.Handler) {
	d.ps.Handle(h, func(m map[uint64][]uint32) (map[uint64][]report.USAReport, error) {
		select {
		case d.entered <- struct{}{}:
		default:
		}
		<-d.gate()
		out := map[uint64][]report.USAReport{}
		for seid, ids := range m {
			for _, id := range ids {
				out[seid] = append(out[seid], report.USAReport{URRID: id})
			}
		}
		return out, nil
	})
}

// K1 (the wedge the property quotes): re-association of a node with many sessions makes the event loop
// post one timer-removal event per URR on the periodic server's queue (512) while the periodic server is
// delivering the per-session reports of a tick on the PFCP report queue (128), which only the event loop
// drains.
func TestDemoK1_ReassociationDuringPeriodicReports(t *testing.T) { k1Run(t, 600) }

// Control: the same history with fewer sessions than either queue holds completes.
func TestDemoK1_ControlFewSessions(t *testing.T) { k1Run(t, 100) }

func k1Run(t *testing.T, sessions int) {
	var pwg sync.WaitGroup
	ps, err := perio.OpenServer(&pwg)
	if err != nil {
		t.Fatal(err)
	}
	d := &k1Driver{ps: ps, entered: make(chan struct{}, 1), hold: make(chan struct{})}
	cfg := &factory.Config{Pfcp: &factory.Pfcp{Addr: "127.0.0.1", NodeID: "127.0.0.1", RetransTimeout: time.Hour, MaxRetrans: 1}}
	s := NewPfcpServer(cfg, d)
	s.listen = "127.0.0.1:0"
	d.HandleReport(s)
	var wg sync.WaitGroup
	s.Start(&wg)
	defer s.Stop()
	var upf *net.UDPAddr
	for i := 0; i < 200 && upf == nil; i++ {
		if s.conn != nil {
			upf = s.conn.LocalAddr().(*net.UDPAddr)
		}
		time.Sleep(10 * time.Millisecond)
	}
	if upf == nil {
		t.Fatal("no socket")
	}
	c, err := net.ListenUDP("udp4", &net.UDPAddr{IP: net.IPv4(127, 0, 0, 1)})
	if err != nil {
		t.Fatal(err)
	}
	defer c.Close()
	seq := uint32(0)
	send := func(m func(seq uint32) message.Message) uint32 {
		seq++
		req := m(seq)
		b := make([]byte, req.MarshalLen())
		if err := req.MarshalTo(b); err != nil {
			t.Fatal(err)
		}
		if _, err := c.WriteToUDP(b, upf); err != nil {
			t.Fatal(err)
		}
		return seq
	}
	await := func(want uint32, wait time.Duration) message.Message {
		buf := make([]byte, 65536)
		deadline := time.Now().Add(wait)
		for {
			c.SetReadDeadline(deadline) //nolint
			n, _, err := c.ReadFromUDP(buf)
			if err != nil {
				return nil
			}
			msg, err := message.Parse(buf[:n])
			if err != nil {
				continue
			}
			if _, isReport := msg.(*message.SessionReportRequest); isReport {
				continue
			}
			if msg.Sequence() == want {
				return msg
			}
		}
	}
	assoc := func(q uint32) message.Message {
		return message.NewAssociationSetupRequest(q, ie.NewNodeID("127.0.0.1", "", ""), ie.NewRecoveryTimeStamp(time.Now()))
	}
	if await(send(assoc), 3*time.Second) == nil {
		t.Fatal("no Association Setup Response")
	}
	close(d.gate()) // queries answer immediately while the sessions are set up ...
	for i := 0; i < sessions; i++ {
		i := i
		q := send(func(q uint32) message.Message {
			return message.NewSessionEstablishmentRequest(0, 0, 0, q, 0, ie.NewNodeID("127.0.0.1", "", ""),
				ie.NewFSEID(uint64(0x1000+i), net.IPv4(127, 0, 0, 1), nil),
				ie.NewCreateURR(ie.NewURRID(1), ie.NewMeasurementMethod(0, 1, 0), ie.NewReportingTriggers(0x01, 0), ie.NewMeasurementPeriod(time.Second)))
		})
		if await(q, 3*time.Second) == nil {
			t.Fatalf("session %d not established", i)
		}
	}
	// ... and from now on one query is slow
	slow := make(chan struct{})
	d.setGate(slow)
	for len(d.entered) > 0 {
		<-d.entered
	}
	select {
	case <-d.entered:
	case <-time.After(3 * time.Second):
		t.Fatal("no periodic tick")
	}
	// the periodic server is inside the query of a tick; the SMF restarts and re-associates
	re := send(assoc)
	time.Sleep(500 * time.Millisecond)
	close(slow) // the query returns: one report per session
	rsp := await(re, 5*time.Second)
	hb := await(send(func(q uint32) message.Message {
		return message.NewHeartbeatRequest(q, ie.NewRecoveryTimeStamp(time.Now()), nil)
	}), 3*time.Second)
	if rsp == nil || hb == nil {
		t.Fatalf("control loop wedged with %d sessions: re-association answered=%v, Heartbeat after it answered=%v "+
			"(event loop blocked posting URR removals on the periodic server's full queue; periodic server blocked posting session reports on the full report queue)",
			sessions, rsp != nil, hb != nil)
	}
}
