package forwarder

// Rig for the K6 demonstration (external test package forwarder_test uses it): a real Gtp5g driver whose
// netlink client talks to the fake kernel of seeded/_harness/fakekernel_test.go, with the real
// buffnetlink.Server registered on the same nl.Mux for a second ("multicast") socket and the real
// periodic server.  When armed, the fake kernel answers the next rule request only after it has emitted
// `burst` buffered-packet notifications - what the gtp5g module does when downlink traffic for buffering
// FARs arrives while the control plane is programming a rule.

import (
	"sync"
	"syscall"
	"testing"
	"time"

	"github.com/khirono/go-nl"

	"github.com/free5gc/go-gtp5gnl"
	"github.com/free5gc/go-upf/internal/forwarder/buffnetlink"
	"github.com/free5gc/go-upf/internal/forwarder/perio"
	"github.com/free5gc/go-upf/internal/report"
)

type K6Rig struct {
	G     *Gtp5g
	armed chan int
}

// Arm makes the next CMD_ADD_QER be preceded by n buffered-packet notifications for (seid, pdr).
func (r *K6Rig) Arm(n int) { r.armed <- n }

func NewK6Rig(t *testing.T, seid uint64, pdrid uint16) *K6Rig {
	k := newFakeKernel(t)
	g := k.gtp5g(t)
	rig := &K6Rig{G: g, armed: make(chan int, 1)}

	bufConn := &fkConn{}
	fds, err := syscall.Socketpair(syscall.AF_UNIX, syscall.SOCK_DGRAM, 0)
	if err != nil {
		t.Fatal(err)
	}
	bufConn.fds = fds
	bs := &buffnetlink.Server{}
	if err := k.mux.PushHandler(bufConn, bs); err != nil {
		t.Fatal(err)
	}
	g.bsnl = bs
	var wg sync.WaitGroup
	ps, err := perio.OpenServer(&wg)
	if err != nil {
		t.Fatal(err)
	}
	g.ps = ps

	k.reply = func(r fkReq) ([][]byte, int) {
		if r.Cmd != gtp5gnl.CMD_ADD_QER {
			return nil, 0
		}
		select {
		case n := <-rig.armed:
			inner := nl.AttrList{
				{Type: gtp5gnl.BUFFER_ID, Value: nl.AttrU16(pdrid)},
				{Type: gtp5gnl.BUFFER_ACTION, Value: nl.AttrU16(report.APPLY_ACT_BUFF)},
				{Type: gtp5gnl.BUFFER_SEID, Value: nl.AttrU64(seid)},
				{Type: gtp5gnl.BUFFER_PACKET, Value: nl.AttrBytes([]byte{0x45, 0, 0, 20, 0, 0, 0, 0, 64, 17, 0, 0, 10, 0, 0, 1, 10, 0, 0, 2})},
			}
			body := encBody(gtp5gnl.CMD_BUFFER_GTPU, nl.AttrList{{Type: gtp5gnl.BUFFER, Value: inner}})
			for i := 0; i < n; i++ {
				syscall.Write(bufConn.fds[1], mkmsg(uint16(k.famID), 0, body)) //nolint
			}
			time.Sleep(300 * time.Millisecond) // the notifications are on the wire before the reply
		default:
		}
		return nil, 0
	}
	return rig
}
