package forwarder_test

import (
	"net"
	"sync"
	"testing"
	"time"

	"github.com/wmnsk/go-pfcp/ie"
	"github.com/wmnsk/go-pfcp/message"

	"github.com/free5gc/go-upf/internal/forwarder"
	"github.com/free5gc/go-upf/internal/pfcp"
	"github.com/free5gc/go-upf/pkg/factory"
)

// K6: the PFCP event loop waits inside a netlink call (nl.Client.Do) for a reply that only the nl.Mux
// goroutine can deliver, while that goroutine is blocked in buffnetlink.Server.ServeMsg ->
// PfcpServer.NotifySessReport on the full report queue (128) that only the event loop drains.
//
// Full stack: real PfcpServer on UDP 127.0.0.1:8805, real Gtp5g driver, real nl.Mux, real
// buffnetlink.Server; only the kernel is faked (see K6_rig_forwarder_test.go).  While the UPF programs a
// QER (Session Modification, Create QER) the data plane reports 130 buffered downlink packets.  Afterwards a
// Heartbeat Request must still be answered.
func TestDemoK6_RuleUpdateDuringDownlinkBurst(t *testing.T) { k6Run(t, 130) }

// Control: the same exchange with a burst that fits the report queue is answered (the rig itself does not wedge).
func TestDemoK6_ControlBurstThatFits(t *testing.T) { k6Run(t, 100) }

func k6Run(t *testing.T, burst int) {
	rig := forwarder.NewK6Rig(t, 1, 7)
	cfg := &factory.Config{Pfcp: &factory.Pfcp{Addr: "127.0.0.1", NodeID: "127.0.0.1", RetransTimeout: time.Hour, MaxRetrans: 1}}
	s := pfcp.NewPfcpServer(cfg, rig.G)
	rig.G.HandleReport(s)
	var wg sync.WaitGroup
	s.Start(&wg)
	defer s.Stop()
	time.Sleep(200 * time.Millisecond)

	upf := &net.UDPAddr{IP: net.IPv4(127, 0, 0, 1), Port: factory.UpfPfcpDefaultPort}
	c, err := net.ListenUDP("udp4", &net.UDPAddr{IP: net.IPv4(127, 0, 0, 1)})
	if err != nil {
		t.Fatal(err)
	}
	defer c.Close()
	seq := uint32(0)
	roundTrip := func(m func(seq uint32) message.Message, wait time.Duration) message.Message {
		seq++
		req := m(seq)
		b := make([]byte, req.MarshalLen())
		if err := req.MarshalTo(b); err != nil {
			t.Fatal(err)
		}
		if _, err := c.WriteToUDP(b, upf); err != nil {
			t.Fatal(err)
		}
		buf := make([]byte, 65536)
		deadline := time.Now().Add(wait)
		for {
			c.SetReadDeadline(deadline) //nolint
			n, _, err := c.ReadFromUDP(buf)
			if err != nil {
				return nil
			}
			if msg, err := message.Parse(buf[:n]); err == nil && msg.Sequence() == req.Sequence() {
				if _, isReq := msg.(*message.SessionReportRequest); !isReq {
					return msg
				}
			}
		}
	}
	if rsp := roundTrip(func(q uint32) message.Message {
		return message.NewAssociationSetupRequest(q, ie.NewNodeID("127.0.0.1", "", ""), ie.NewRecoveryTimeStamp(time.Now()))
	}, 3*time.Second); rsp == nil {
		t.Fatal("no Association Setup Response")
	}
	rsp := roundTrip(func(q uint32) message.Message {
		return message.NewSessionEstablishmentRequest(0, 0, 0, q, 0, ie.NewNodeID("127.0.0.1", "", ""), ie.NewFSEID(0x1111, net.IPv4(127, 0, 0, 1), nil))
	}, 3*time.Second)
	est, ok := rsp.(*message.SessionEstablishmentResponse)
	if !ok {
		t.Fatalf("no Session Establishment Response: %v", rsp)
	}
	fseid, err := est.UPFSEID.FSEID()
	if err != nil || fseid.SEID != 1 {
		t.Fatalf("unexpected UP F-SEID %+v %v", fseid, err)
	}
	if rsp := roundTrip(func(q uint32) message.Message {
		return message.NewHeartbeatRequest(q, ie.NewRecoveryTimeStamp(time.Now()), nil)
	}, 3*time.Second); rsp == nil {
		t.Fatal("no Heartbeat Response before the burst")
	}

	rig.Arm(burst) // 130 > REPORT_CHANNEL_LEN (128) + the one the mux goroutine holds
	mod := roundTrip(func(q uint32) message.Message {
		return message.NewSessionModificationRequest(0, 0, 1, q, 0, ie.NewCreateQER(ie.NewQERID(1), ie.NewGateStatus(0, 0)))
	}, 3*time.Second)
	hb := roundTrip(func(q uint32) message.Message {
		return message.NewHeartbeatRequest(q, ie.NewRecoveryTimeStamp(time.Now()), nil)
	}, 3*time.Second)
	if mod == nil || hb == nil {
		t.Fatalf("control loop wedged: Session Modification answered=%v, Heartbeat after it answered=%v "+
			"(event loop waits for the netlink reply; the mux goroutine that would deliver it is blocked posting a buffered-packet report on the full report queue)", mod != nil, hb != nil)
	}
}
