package pfcp

import (
	"net"
	"testing"
	"time"

	"github.com/sirupsen/logrus"
	"github.com/wmnsk/go-pfcp/ie"
	"github.com/wmnsk/go-pfcp/message"

	"github.com/free5gc/go-upf/internal/forwarder"
	"github.com/free5gc/go-upf/pkg/factory"
)

// K5: takeover of a session by a node id that already has its own association.
func TestDemoK5_TakeoverOrphansExistingNode(t *testing.T) {
	cfg := &factory.Config{Pfcp: &factory.Pfcp{Addr: "127.0.0.1", NodeID: "127.0.0.1", RetransTimeout: time.Hour, MaxRetrans: 1}}
	s := NewPfcpServer(cfg, forwarder.Empty{})
	s.log = logrus.NewEntry(logrus.New())
	var err error
	s.conn, err = net.ListenUDP("udp4", &net.UDPAddr{IP: net.IPv4(127, 0, 0, 1)})
	if err != nil {
		t.Fatal(err)
	}
	defer s.conn.Close()
	addrA := &net.UDPAddr{IP: net.IPv4(127, 0, 0, 2), Port: 8805}
	addrB := &net.UDPAddr{IP: net.IPv4(127, 0, 0, 3), Port: 8805}
	seq := uint32(0)
	do := func(m message.Message, addr net.Addr) {
		seq++
		id := addr.String() + "-" + itoa2(m.Sequence())
		s.rxTrans[id] = NewRxTransaction(s, addr, m.Sequence())
		if err := s.reqDispacher(m, addr); err != nil {
			t.Fatal(err)
		}
	}
	do(message.NewAssociationSetupRequest(1, ie.NewNodeID("10.0.0.1", "", ""), ie.NewRecoveryTimeStamp(time.Now())), addrA)
	do(message.NewAssociationSetupRequest(1, ie.NewNodeID("10.0.0.2", "", ""), ie.NewRecoveryTimeStamp(time.Now())), addrB)
	do(message.NewSessionEstablishmentRequest(0, 0, 0, 2, 0, ie.NewNodeID("10.0.0.1", "", ""), ie.NewFSEID(0xa1, net.IPv4(10, 0, 0, 1), nil)), addrA)
	do(message.NewSessionEstablishmentRequest(0, 0, 0, 2, 0, ie.NewNodeID("10.0.0.2", "", ""), ie.NewFSEID(0xb1, net.IPv4(10, 0, 0, 2), nil)), addrB)
	// sessions: UP SEID 1 under node A, UP SEID 2 under node B
	if _, err := s.lnode.Sess(1); err != nil {
		t.Fatal(err)
	}
	if _, err := s.lnode.Sess(2); err != nil {
		t.Fatal(err)
	}
	// node B takes session 1 over
	do(message.NewSessionModificationRequest(0, 0, 1, 3, 0, ie.NewNodeID("10.0.0.2", "", "")), addrB)
	// node B re-associates: every session established under node id B must go (session 2), others stay
	do(message.NewAssociationSetupRequest(4, ie.NewNodeID("10.0.0.2", "", ""), ie.NewRecoveryTimeStamp(time.Now())), addrB)
	if _, err := s.lnode.Sess(2); err == nil {
		t.Errorf("session 2 (established under node id 10.0.0.2) survived the re-association of 10.0.0.2: its node object was orphaned by the takeover")
	}
}

func itoa2(v uint32) string {
	if v == 0 {
		return "0"
	}
	b := []byte{}
	for v > 0 {
		b = append([]byte{byte('0' + v%10)}, b...)
		v /= 10
	}
	return string(b)
}
