package forwarder

import (
	"sync"
	"testing"
	"time"

	"github.com/wmnsk/go-pfcp/ie"

	"github.com/free5gc/go-upf/internal/forwarder/perio"
	"github.com/free5gc/go-upf/internal/report"
)

type k4Handler struct{}

func (k4Handler) NotifySessReport(report.SessReport)      {}
func (k4Handler) PopBufPkt(uint64, uint16) ([]byte, bool) { return nil, false }

// K4: a URR that gains the periodic trigger by Update URR must be queried periodically.
func TestDemoK4_UpdateURRAddsPERIO(t *testing.T) {
	k := newFakeKernel(t)
	g := k.gtp5g(t)
	var wg sync.WaitGroup
	ps, err := perio.OpenServer(&wg)
	if err != nil {
		t.Fatal(err)
	}
	g.ps = ps
	var mu sync.Mutex
	queried := map[uint32]bool{}
	ps.Handle(k4Handler{}, func(m map[uint64][]uint32) (map[uint64][]report.USAReport, error) {
		mu.Lock()
		defer mu.Unlock()
		for _, ids := range m {
			for _, id := range ids {
				queried[id] = true
			}
		}
		return nil, nil
	})
	// URR 5 created with a volume threshold trigger only
	if err := g.CreateURR(9, ie.NewCreateURR(ie.NewURRID(5), ie.NewMeasurementMethod(0, 1, 0), ie.NewReportingTriggers(0x02, 0x00))); err != nil {
		t.Fatal(err)
	}
	// the SMF switches it to periodic reporting, period 1 s
	if _, err := g.UpdateURR(9, ie.NewUpdateURR(ie.NewURRID(5), ie.NewReportingTriggers(0x01, 0x00), ie.NewMeasurementPeriod(time.Second))); err != nil {
		t.Fatal(err)
	}
	time.Sleep(2500 * time.Millisecond)
	mu.Lock()
	defer mu.Unlock()
	if !queried[5] {
		t.Errorf("URR 5 has the periodic trigger since the Update URR, but no periodic query was made for it in 2.5 periods")
	}
}
