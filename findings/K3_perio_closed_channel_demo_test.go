package perio

import (
	"sync"
	"testing"
	"time"
)

func TestDemoK3_EventAfterClose(t *testing.T) {
	var wg sync.WaitGroup
	s, err := OpenServer(&wg)
	if err != nil {
		t.Fatal(err)
	}
	s.Close()
	wg.Wait()
	defer func() {
		if p := recover(); p != nil {
			t.Errorf("URR removal after the periodic server closed: %v", p)
		}
	}()
	// the PFCP event loop may still be removing URRs (session close) when the driver is closed
	s.DelPeriodReportTimer(1, 1)
	_ = time.Second
}
