package forwarder

import (
	"fmt"
	"testing"

	"github.com/wmnsk/go-pfcp/ie"
)

// K7: an SDF Filter IE whose Flow Description length field exceeds the IE's payload.  go-upf hands the IE to
// go-pfcp's (*ie.IE).SDFFilter -> (*SDFFilterFields).UnmarshalBinary, which slices the payload with the
// length it just read from it, without comparing it with the payload's length (sdf-filter.go, the expression
// b[offset+2 : offset+2+int(f.FDLength)] and the following b[offset:]).  The panic unwinds through
// Gtp5g.newSdfFilter -> newPdi -> CreatePDR -> the PFCP event loop, whose recover wrapper logs Fatal: one
// Session Establishment / Modification Request takes the UPF down (C07).
func k7Decode(payload []byte) (err error) {
	defer func() {
		if r := recover(); r != nil {
			err = fmt.Errorf("PANIC: %v", r)
		}
	}()
	g := &Gtp5g{}
	_, e := g.newSdfFilter(ie.New(ie.SDFFilter, payload), ie.SrcInterfaceAccess)
	_ = e // an error return is fine: the rule is refused, the UPF lives
	return nil
}

func TestDemoK7_SDFFilterFDLengthBeyondPayload(t *testing.T) {
	// flags: FD present; spare; FD length 0xffff; one octet of flow description
	if err := k7Decode([]byte{0x01, 0x00, 0xff, 0xff, 'p'}); err != nil {
		t.Errorf("SDF filter with FD length 65535 and a 1-octet description: %v", err)
	}
	// FD length one larger than what is there, followed by the BID flag: the second crash site (b[offset:])
	// is reached when the backing array is longer than the payload (payload sliced out of the datagram)
	dgram := []byte{0x11, 0x00, 0x00, 0x04, 'a', 'b', 'c', 0, 0, 0, 0, 0, 0, 0, 0, 0}
	if err := k7Decode(dgram[:7]); err != nil {
		t.Errorf("SDF filter with FD length 4, 3 octets of description inside a longer datagram: %v", err)
	}
}

func TestDemoK7_ControlWellFormed(t *testing.T) {
	fd := "permit out ip from any to assigned"
	p := append([]byte{0x01, 0x00, byte(len(fd) >> 8), byte(len(fd))}, fd...)
	if err := k7Decode(p); err != nil {
		t.Errorf("well-formed SDF filter: %v", err)
	}
}
