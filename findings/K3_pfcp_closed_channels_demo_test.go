package pfcp

import (
	"sync"
	"testing"
	"time"

	"github.com/sirupsen/logrus"

	"github.com/free5gc/go-upf/internal/forwarder"
	"github.com/free5gc/go-upf/internal/report"
	"github.com/free5gc/go-upf/pkg/factory"
)

// K3: producers that are still alive when the event loop has stopped hit closed channels.
func TestDemoK3_SendOnClosedChannelAtShutdown(t *testing.T) {
	cfg := &factory.Config{Pfcp: &factory.Pfcp{Addr: "127.0.0.1", NodeID: "127.0.0.1", RetransTimeout: time.Hour, MaxRetrans: 1}}
	s := NewPfcpServer(cfg, forwarder.Empty{})
	s.listen = "127.0.0.1:18806"
	s.log = logrus.NewEntry(logrus.New())
	wg := &sync.WaitGroup{}
	s.Start(wg)
	time.Sleep(100 * time.Millisecond)
	s.Stop()
	wg.Wait()
	// the netlink mux goroutine / periodic server are stopped only later (driver.Close()); a notification now:
	for name, f := range map[string]func(){
		"report channel (kernel notification or periodic tick)": func() { s.NotifySessReport(report.SessReport{SEID: 1}) },
		"timeout channel (timer callback in flight)":            func() { s.NotifyTransTimeout(TX, "x") },
	} {
		func() {
			defer func() {
				if p := recover(); p != nil {
					t.Errorf("%s: %v", name, p)
				}
			}()
			f()
		}()
	}
}
