package perio

import (
	"sync"
	"testing"
	"time"

	"github.com/free5gc/go-upf/internal/report"
)

type k2Handler struct{}

func (k2Handler) NotifySessReport(report.SessReport)      {}
func (k2Handler) PopBufPkt(uint64, uint16) ([]byte, bool) { return nil, false }

// K2: the periodic server stops a ticker by an unbuffered rendezvous (stopTicker: pg.stopCh <- struct{}{})
// that only the ticker goroutine can complete - but that goroutine may itself be blocked posting its tick
// on the server's full event queue, which only the (now blocked) server drains.
//
// Schedule (all through the package's own API): the server is busy with a tick (slow data-plane query);
// meanwhile the event loop removes the period's last URR and keeps posting further timer events until the
// 512-deep queue is full and it blocks; the ticker fires again and blocks behind it.  When the query returns,
// the server takes the removal from the queue (which admits the event loop's pending event, not the
// ticker's), finds the group empty and calls stopTicker: wedged for good.
func TestDemoK2_StopTickerWhileTickerBlockedOnFullQueue(t *testing.T) {
	var wg sync.WaitGroup
	s, err := OpenServer(&wg)
	if err != nil {
		t.Fatal(err)
	}
	hold := make(chan struct{})
	entered := make(chan struct{}, 16)
	s.Handle(k2Handler{}, func(map[uint64][]uint32) (map[uint64][]report.USAReport, error) {
		entered <- struct{}{}
		<-hold
		return nil, nil
	})
	const period = 150 * time.Millisecond
	s.AddPeriodReportTimer(1, 1, period)
	<-entered // the server is inside the query of the first tick

	s.DelPeriodReportTimer(1, 1) // last URR of the period: head of the queue
	for len(s.evtCh) < cap(s.evtCh) {
		s.DelPeriodReportTimer(999, 999) // further removals (no-ops for the server), e.g. a bulk session deletion
	}
	posted := make(chan int, 2)
	for i := 0; i < 2; i++ {
		go func(i int) { // the event loop, blocked on the full queue
			s.DelPeriodReportTimer(999, 999)
			posted <- i
		}(i)
	}
	time.Sleep(3 * period) // the ticker fires and blocks behind them
	close(hold)            // the slow query returns

	got := 0
	deadline := time.After(3 * time.Second)
	for got < 2 {
		select {
		case <-posted:
			got++
		case <-deadline:
			t.Fatalf("periodic server wedged: %d of 2 pending timer events were accepted in 3 s after the query returned, queue %d/%d "+
				"(server blocked in stopTicker, ticker goroutine blocked posting its tick)", got, len(s.evtCh), cap(s.evtCh))
		}
	}
}
