// Demonstration for fix 423bef7 (C07 P8): one PFCP datagram makes a nested netlink attribute 65536 octets long;
// go-nl's 16-bit attribute length wraps to 0 and Attr.Encode panics inside Gtp5g.CreatePDR.
// Copy into internal/forwarder/ of a scratch worktree: fails on b6da71c, passes from 423bef7 on.
package forwarder

import (
	"encoding/binary"
	"fmt"
	"strings"
	"syscall"
	"testing"
	"time"
	"unsafe"

	"github.com/khirono/go-nl"
	"github.com/sirupsen/logrus"
	"github.com/wmnsk/go-pfcp/ie"

	"github.com/free5gc/go-gtp5gnl"
)

type f9Conn struct {
	fd  int
	seq int
}

func (c *f9Conn) Fd() int                     { return c.fd }
func (c *f9Conn) Close()                      { syscall.Close(c.fd) }
func (c *f9Conn) Read(b []byte) (int, error)  { return syscall.Read(c.fd, b) }
func (c *f9Conn) Write(b []byte) (int, error) { return syscall.Write(c.fd, b) }
func (c *f9Conn) Writev(iovs []syscall.Iovec) (int, error) {
	var buf []byte
	for _, iov := range iovs {
		buf = append(buf, unsafe.Slice(iov.Base, int(iov.Len))...)
	}
	return syscall.Write(c.fd, buf)
}
func (c *f9Conn) TakeSeq() int { c.seq++; return c.seq }

func f9Kernel(fd int) {
	buf := make([]byte, 256*1024)
	for {
		n, err := syscall.Read(fd, buf)
		if err != nil || n < 20 {
			return
		}
		ack := make([]byte, 36)
		binary.LittleEndian.PutUint32(ack[0:4], 36)
		binary.LittleEndian.PutUint16(ack[4:6], syscall.NLMSG_ERROR)
		copy(ack[8:12], buf[8:12])
		binary.LittleEndian.PutUint32(ack[12:16], 1)
		copy(ack[20:36], buf[0:16])
		if _, err := syscall.Write(fd, ack); err != nil {
			return
		}
	}
}

func f9Open(t *testing.T) *Gtp5g {
	time.Sleep(300 * time.Millisecond)
	fds, err := syscall.Socketpair(syscall.AF_UNIX, syscall.SOCK_SEQPACKET, 0)
	if err != nil {
		t.Fatal(err)
	}
	mux, err := nl.NewMux()
	if err != nil {
		t.Fatal(err)
	}
	go func() { _ = mux.Serve() }()
	go f9Kernel(fds[1])
	g := &Gtp5g{
		mux:    mux,
		client: &gtp5gnl.Client{Client: nl.NewClient(&f9Conn{fd: fds[0]}, mux), ID: 31},
		link:   &Gtp5gLink{link: &gtp5gnl.Link{Name: "upfgtp", Index: 5}},
		log:    logrus.NewEntry(logrus.New()),
	}
	t.Cleanup(func() { mux.Close(); time.Sleep(100 * time.Millisecond); syscall.Close(fds[0]); syscall.Close(fds[1]) })
	return g
}

// f9Call runs CreatePDR on an IE that went through the PFCP wire format, and reports a panic as a string.
func f9Call(t *testing.T, g *Gtp5g, req *ie.IE) (panicked string, err error) {
	b, e := req.Marshal()
	if e != nil {
		t.Fatal(e)
	}
	if len(b) > 65507-16 {
		t.Fatalf("IE of %d octets does not fit one PFCP datagram", len(b))
	}
	parsed, e := ie.Parse(b)
	if e != nil {
		t.Fatal(e)
	}
	done := make(chan struct{})
	go func() {
		defer close(done)
		defer func() {
			if r := recover(); r != nil {
				panicked = fmt.Sprint(r)
			}
		}()
		err = g.CreatePDR(9, parsed)
	}()
	select {
	case <-done:
	case <-time.After(10 * time.Second):
		t.Fatal("timed out")
	}
	return
}

func TestF9_PortListWraps(t *testing.T) {
	g := f9Open(t)
	for _, n := range []int{16382, 16383, 16384} {
		fd := "permit out ip from any to assigned " + strings.TrimSuffix(strings.Repeat("1,", n), ",")
		req := ie.NewCreatePDR(ie.NewPDRID(1), ie.NewPrecedence(200),
			ie.NewPDI(ie.NewSourceInterface(1), ie.NewSDFFilter(fd, "", "", "", 0)), ie.NewFARID(1))
		p, err := f9Call(t, g, req)
		t.Logf("ports=%d panic=%q err=%v", n, p, err)
		if p != "" {
			t.Errorf("CreatePDR with %d ports panicked: %s", n, p)
		}
	}
}

func TestF9_RepeatedIEWraps(t *testing.T) {
	g := f9Open(t)
	for _, k := range []int{8188, 8189} {
		ies := []*ie.IE{ie.NewFTEID(0x01, 0x1234, []byte{10, 0, 0, 1}, nil, 0)}
		for i := 0; i < k; i++ {
			ies = append(ies, ie.NewSourceInterface(0))
		}
		req := ie.NewCreatePDR(ie.NewPDRID(1), ie.NewPrecedence(200), ie.NewPDI(ies...), ie.NewFARID(1))
		p, err := f9Call(t, g, req)
		t.Logf("source-interface IEs=%d panic=%q err=%v", k, p, err)
		if p != "" {
			t.Errorf("CreatePDR with %d Source Interface IEs panicked: %s", k, p)
		}
	}
}
