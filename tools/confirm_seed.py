#!/usr/bin/env python3
"""Confirms a seeded change produced by a sub-agent and files it under /verif/seeded/<prop>-<k>/.

usage: confirm_seed.py <prop> <k> [--outdir /tmp/wt/out] [--wt /tmp/wt/confirm]
Steps (all in a scratch worktree of /repo, never in /repo itself):
  1. clean tree + demonstration  -> demonstration must PASS
  2. apply patch                 -> go build ./... must succeed, demonstration must FAIL
  3. patched tree, no demo       -> the 41 baseline tests must still pass
Writes patch.diff, demo_test.go, meta.json.
"""
import json, os, re, shutil, subprocess, sys

ENV = dict(os.environ, GOFLAGS="-mod=mod", GOPROXY="off", GOSUMDB="off", GOTOOLCHAIN="local")
PKGDIR = {"pfcp": "internal/pfcp", "forwarder": "internal/forwarder", "gtpv1": "internal/gtpv1",
          "buffnetlink": "internal/forwarder/buffnetlink", "perio": "internal/forwarder/perio",
          "report": "internal/report", "factory": "pkg/factory", "app": "pkg/app"}


def sh(cmd, cwd, timeout=600):
    try:
        r = subprocess.run(cmd, cwd=cwd, env=ENV, capture_output=True, text=True, timeout=timeout)
        return r.returncode, (r.stdout + r.stderr)
    except subprocess.TimeoutExpired as e:
        return 124, "TIMEOUT " + str(e)


def main():
    prop, k = sys.argv[1], sys.argv[2]
    outdir = sys.argv[sys.argv.index("--outdir") + 1] if "--outdir" in sys.argv else "/tmp/wt/out"
    wt = sys.argv[sys.argv.index("--wt") + 1] if "--wt" in sys.argv else "/tmp/wt/confirm"
    koff = int(sys.argv[sys.argv.index("--koff") + 1]) if "--koff" in sys.argv else 0
    race = ["-race"] if "--race" in sys.argv else []
    src = os.path.join(outdir, prop)
    patch = os.path.join(src, "seed%s.patch.diff" % k)
    demo = os.path.join(src, "seed%s_demo_test.go" % k)
    if not os.path.exists(wt):
        subprocess.check_call(["git", "-C", "/repo", "worktree", "add", "--detach", wt, "HEAD"], stdout=subprocess.DEVNULL, stderr=subprocess.DEVNULL)
    sh(["git", "checkout", "-q", "--detach", subprocess.check_output(["git", "-C", "/repo", "rev-parse", "HEAD"], text=True).strip()], wt)
    sh(["git", "checkout", "--", "."], wt)
    sh(["git", "clean", "-fdq"], wt)
    text = open(demo).read()
    m = re.search(r"^package (\w+)", text, re.M)
    pkg = m.group(1)
    d = PKGDIR[pkg.replace("_test", "")]
    shutil.copy("/verif/seeded/_harness/fakekernel_test.go", "/dev/null")
    demo_dst = os.path.join(wt, d, "zz_seed_test.go")
    shutil.copy(demo, demo_dst)
    meta = {"property": prop, "seed": int(k) + koff, "round": {0: 1, 2: 2, 5: 3, 8: 4, 11: 5, 14: 6, 17: 7, 20: 8}.get(koff, 1 + koff), "demo_dir": d, "ran": [], "demo_flags": " ".join(race)}
    rc1, out1 = sh(["go", "test"] + race + ["-vet=off", "-count=1", "-timeout", "300s", "-run", "Seed", "./" + d + "/"], wt)
    meta["ran"].append({"cmd": "clean tree: go test -vet=off -count=1 -run Seed ./%s/" % d, "exit": rc1})
    rc, out = sh(["git", "apply", "--whitespace=nowarn", patch], wt)
    meta["ran"].append({"cmd": "git apply patch.diff", "exit": rc})
    rcb, outb = sh(["go", "build", "./..."], wt)
    meta["ran"].append({"cmd": "patched: go build ./...", "exit": rcb})
    rc2, out2 = sh(["go", "test"] + race + ["-vet=off", "-count=1", "-timeout", "300s", "-run", "Seed", "./" + d + "/"], wt)
    meta["ran"].append({"cmd": "patched: go test -vet=off -count=1 -run Seed ./%s/" % d, "exit": rc2,
                        "tail": [l for l in out2.splitlines() if "FAIL" in l or "---" in l or "_test.go" in l][:12]})
    os.remove(demo_dst)
    rc3, out3 = sh(["/verif/tools/baseline.sh", wt], wt, timeout=900)
    meta["ran"].append({"cmd": "patched, without the demo: tools/baseline.sh (41 stable tests)", "exit": rc3, "out": out3.strip()[-200:]})
    ok = rc1 == 0 and rc == 0 and rcb == 0 and rc2 != 0 and rc3 == 0
    meta["confirmed"] = ok
    md = os.path.join(src, "seed%s.md" % k)
    if os.path.exists(md):
        meta["agent_description"] = open(md).read()[:3000]
    sh(["git", "checkout", "--", "."], wt)
    sh(["git", "clean", "-fdq"], wt)
    dst = "/verif/seeded/%s-%d" % (prop, int(k) + koff)
    if ok:
        os.makedirs(dst, exist_ok=True)
        shutil.copy(patch, os.path.join(dst, "patch.diff"))
        shutil.copy(demo, os.path.join(dst, "demo_test.go"))
        json.dump(meta, open(os.path.join(dst, "meta.json"), "w"), indent=1)
    print("%s seed%s: clean-demo=%d apply=%d build=%d patched-demo=%d baseline=%d => %s" % (
        prop, k, rc1, rc, rcb, rc2, rc3, "CONFIRMED" if ok else "REJECTED"))
    if not ok:
        print(out1[-600:] if rc1 else "", out[-300:] if rc else "", outb[-300:] if rcb else "", out3[-300:] if rc3 else "")


if __name__ == "__main__":
    main()
