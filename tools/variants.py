#!/usr/bin/env python3
"""Sensitivity self-test of the checker (DESIGN.md section 6).

For each one-edit variant of the catalogue checker/variants/<prop>.json the current /repo
tree is copied to a scratch directory (outside /repo and /verif), the edit applied, the copy
compiled (go build ./... must succeed: variants are changes that still compile) and the
checker run on the copy.  A `breaking` variant must make the named rule fire on the named
construct; a `benign` variant (behaviour-preserving rewrite) must stay silent.
This analyses edited source; go-upf code is never executed.

usage: variants.py <prop> [--merge evidence.json] [--only name] [--jobs N] [--keep]
Exit 0 always unless --strict (developer mode): misses are reported as SELFTEST-MISS lines.
"""
import json, os, shutil, subprocess, sys, tempfile, concurrent.futures, time

VERIF = os.path.dirname(os.path.dirname(os.path.abspath(__file__)))
REPO = os.environ.get("UPF_REPO", "/repo")
ENV = dict(os.environ, GOFLAGS="-mod=mod", GOPROXY="off", GOSUMDB="off", GOTOOLCHAIN="local")
ENV.pop("GOWORK", None)


def run_variant(prop, v, keep=False):
    t0 = time.time()
    d = tempfile.mkdtemp(prefix="upfvar_")
    res = {"name": v["name"], "kind": "benign" if v.get("benign") else "breaking", "expect": v.get("expect", "")}
    try:
        dst = os.path.join(d, "repo")
        shutil.copytree(REPO, dst, ignore=shutil.ignore_patterns(".git"))
        if v.get("patch"):
            pr = subprocess.run(["git", "apply", "--whitespace=nowarn", os.path.join(VERIF, v["patch"])], cwd=dst, capture_output=True, text=True)
            if pr.returncode != 0:
                res["status"] = "stale"
                res["detail"] = "patch does not apply: " + pr.stderr.strip()[-200:]
                return res
        for e in v.get("edits", []):
            path = os.path.join(dst, e["file"])
            s = open(path).read()
            n = s.count(e["old"])
            want = e.get("count", 1)
            if n != want:
                res["status"] = "stale"
                res["detail"] = "%s: fragment occurs %d times (want %d)" % (e["file"], n, want)
                return res
            s = s.replace(e["old"], e["new"])
            open(path, "w").write(s)
        b = subprocess.run(["go", "build", "./..."], cwd=dst, env=ENV, capture_output=True, text=True)
        if b.returncode != 0:
            res["status"] = "nocompile"
            res["detail"] = b.stderr[-400:]
            return res
        ev = os.path.join(d, "ev")
        r = subprocess.run([os.path.join(VERIF, "bin", "upfcheck"), "-prop", prop, "-tier", "quick", "-repo", dst,
                            "-verif", VERIF, "-out", ev], env=ENV, capture_output=True, text=True)
        keys = [l.split("key=")[1].split()[0] for l in r.stdout.splitlines() if "key=" in l and "KNOWN-FINDING" not in l]
        res["keys"] = keys
        if v.get("benign"):
            res["status"] = "ok" if (r.returncode == 0 and not keys) else "miss"
            if res["status"] == "miss":
                res["detail"] = "benign rewrite raised: %s" % keys
        else:
            hit = [k for k in keys if v["expect"] in k]
            res["status"] = "ok" if (r.returncode == 1 and hit) else "miss"
            if res["status"] == "miss":
                res["detail"] = "expected a finding containing %r, got %s (exit %d)" % (v["expect"], keys, r.returncode)
        return res
    finally:
        res["secs"] = round(time.time() - t0, 1)
        if not keep:
            shutil.rmtree(d, ignore_errors=True)


def main():
    args = sys.argv[1:]
    prop = args[0]
    merge = args[args.index("--merge") + 1] if "--merge" in args else None
    only = args[args.index("--only") + 1] if "--only" in args else None
    jobs = int(args[args.index("--jobs") + 1]) if "--jobs" in args else 4
    strict = "--strict" in args
    cat = os.path.join(VERIF, "checker", "variants", prop + ".json")
    variants = json.load(open(cat)) if os.path.exists(cat) else []
    if only:
        variants = [v for v in variants if v["name"] in only.split(",")]
    results = []
    with concurrent.futures.ThreadPoolExecutor(max_workers=jobs) as ex:
        for r in ex.map(lambda v: run_variant(prop, v, "--keep" in args), variants):
            results.append(r)
            tag = {"ok": "selftest ok  ", "miss": "SELFTEST-MISS", "stale": "selftest stale", "nocompile": "SELFTEST-NOCOMPILE"}[r["status"]]
            print("%s %s/%s (%s) %s" % (tag, prop, r["name"], r["kind"], r.get("detail", "")), flush=True)
    summary = {
        "variants": len(results),
        "detected_or_silent_as_expected": sum(r["status"] == "ok" for r in results),
        "missed": [r["name"] for r in results if r["status"] in ("miss", "nocompile")],
        "stale": [r["name"] for r in results if r["status"] == "stale"],
        "breaking": sum(r["kind"] == "breaking" for r in results),
        "benign": sum(r["kind"] == "benign" for r in results),
        "cases": [{"name": r["name"], "kind": r["kind"], "status": r["status"], "fired": r.get("keys", [])[:3]} for r in results],
    }
    print("selftest %s: %d variants, %d as expected, missed=%s stale=%s" % (
        prop, summary["variants"], summary["detected_or_silent_as_expected"], summary["missed"], summary["stale"]))
    if merge and os.path.exists(merge):
        ev = json.load(open(merge))
        ev["coverage"]["sensitivity_selftest"] = summary
        json.dump(ev, open(merge, "w"), indent=1)
    if strict and (summary["missed"] or summary["stale"]):
        sys.exit(3)


if __name__ == "__main__":
    main()
