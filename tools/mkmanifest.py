#!/usr/bin/env python3
"""Regenerates MANIFEST.json from tools/manifest_src.json (per-property texts) and the list of
properties the checker implements (bin/upfcheck -list)."""
import json, subprocess, os
V = os.path.dirname(os.path.dirname(os.path.abspath(__file__)))
src = json.load(open(os.path.join(V, "tools", "manifest_src.json")))
impl = subprocess.run([os.path.join(V, "bin", "upfcheck"), "-list"], capture_output=True, text=True).stdout.split()
props = [json.loads(l)["id"] for l in open(os.path.join(V, "properties.jsonl"))]
checks, na = [], []
for pid in props:
    s = src.get(pid, {})
    if pid in impl and not s.get("not_applicable"):
        checks.append({
            "property_id": pid,
            "quick_cmd": "./check.sh %s quick" % pid,
            "thorough_cmd": "./check.sh %s thorough" % pid,
            "evidence_file": "/verif/evidence/%s.json" % pid,
            "replay_cmd_template": "./bin/upfcheck -explain {path}",
            "engine": "upfcheck",
            "level_claimed": {"category": "other", "text": s.get("level_text", ""), "design_ref": "DESIGN.md section 3, " + pid},
            "level_note": s.get("level_note", ""),
            "technique": s.get("technique", "static analysis"),
        })
    else:
        na.append({"property_id": pid, "reason": s.get("not_applicable") or "check not built yet in this round (see DESIGN.md section 3 for the planned static rules)"})
m = {
    "version": 1,
    "setup_cmd": "mkdir -p bin evidence && cd checker && GOFLAGS=-mod=mod GOPROXY=off GOSUMDB=off GOTOOLCHAIN=local go build -o ../bin/upfcheck ./cmd/upfcheck",
    "hooks": {"guard": "verif", "enable": "no hooks: the checks analyse /repo's source as it is (no instrumentation, no build tag needed)",
              "baseline_off_cmd": "./tools/baseline.sh", "source_commits": [], "add_only": True},
    "engines": [{"name": "upfcheck", "path": "checker/", "serves_properties": [c["property_id"] for c in checks],
                 "kind_free_text": "repository-specific static analyser (go/packages + go/types + go/ssa + VTA call graph + compiler prove pass as bounds oracle); never executes go-upf code"}],
    "checks": checks,
    "notes": "All claims are at level 'other': each check decides structural necessary conditions of its property on every path / for every value (see evidence coverage.explanation and undecided_remainder). known_findings.json lists genuine defects recorded rather than repaired (K1-K7) and the eleven repaired by fix: commits (F1-F11).",
    "not_applicable": na,
}
json.dump(m, open(os.path.join(V, "MANIFEST.json"), "w"), indent=1)
print("checks:", [c["property_id"] for c in checks], "n/a:", len(na))
