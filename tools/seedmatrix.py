#!/usr/bin/env python3
"""Runs every property's check on every confirmed seeded change (scratch copies of /repo) and writes
seeded/MATRIX.json plus detected_by in each seed's meta.json.  Analysis of patched source only."""
import json, os, shutil, subprocess, sys, tempfile, concurrent.futures, re
V = os.path.dirname(os.path.dirname(os.path.abspath(__file__)))
ENV = dict(os.environ, GOFLAGS="-mod=mod", GOPROXY="off", GOSUMDB="off", GOTOOLCHAIN="local")
def run(seed):
    d = tempfile.mkdtemp(prefix="upfseed_")
    try:
        dst = os.path.join(d, "repo")
        shutil.copytree("/repo", dst, ignore=shutil.ignore_patterns(".git"))
        pr = subprocess.run(["git", "apply", "--whitespace=nowarn", os.path.join(V, "seeded", seed, "patch.diff")], cwd=dst, capture_output=True, text=True)
        if pr.returncode != 0:
            return seed, {"error": "patch does not apply: " + pr.stderr[-200:]}
        r = subprocess.run([V + "/bin/upfcheck", "-prop", "all", "-repo", dst, "-verif", V, "-out", os.path.join(d, "ev")], env=ENV, capture_output=True, text=True)
        res = {}
        for l in r.stdout.splitlines():
            m = re.search(r"key=(C\d+)/(\S+)", l)
            if m and "KNOWN-FINDING" not in l:
                res.setdefault(m.group(1), []).append(m.group(2))
        return seed, res
    finally:
        shutil.rmtree(d, ignore_errors=True)
seeds = sorted(s for s in os.listdir(os.path.join(V, "seeded")) if re.match(r"C\d+-\d+$", s))
matrix = {}
# optional argument: a regex selecting the seeds to (re)run; the other rows of MATRIX.json are kept
if len(sys.argv) > 1:
    seeds = [s for s in seeds if re.search(sys.argv[1], s)]
    try:
        matrix = json.load(open(os.path.join(V, "seeded", "MATRIX.json")))
    except Exception:
        matrix = {}
with concurrent.futures.ThreadPoolExecutor(max_workers=6) as ex:
    for seed, res in ex.map(run, seeds):
        matrix[seed] = res
        own = seed.split("-")[0]
        print("%-7s own-property:%-3s detected by: %s" % (seed, "yes" if own in res else "NO", {k: v[:2] for k, v in res.items()}), flush=True)
        mp = os.path.join(V, "seeded", seed, "meta.json")
        meta = json.load(open(mp))
        meta["detected_by"] = res
        meta["detected_by_own_property_check"] = own in res
        json.dump(meta, open(mp, "w"), indent=1)
json.dump(matrix, open(os.path.join(V, "seeded", "MATRIX.json"), "w"), indent=1)
nd = [s for s, r in matrix.items() if not r and s in seeds]
no = [s for s, r in matrix.items() if r and s.split("-")[0] not in r and s in seeds]
print("seeds: %d, undetected: %s, detected only by another property's check: %s" % (len(matrix), nd, no))
