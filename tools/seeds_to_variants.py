#!/usr/bin/env python3
"""Adds every confirmed seeded change to the variant catalogue of each property whose check detects it
(per seeded/MATRIX.json), so the thorough tier replays it. Existing entries (same patch) are kept."""
import json, os, re
M = json.load(open('/verif/seeded/MATRIX.json'))
added = 0
for seed, det in sorted(M.items()):
    for prop, keys in det.items():
        path = '/verif/checker/variants/%s.json' % prop
        vs = json.load(open(path)) if os.path.exists(path) else []
        patch = 'seeded/%s/patch.diff' % seed
        if any(v.get('patch') == patch for v in vs):
            continue
        # expectation: rule + construct name without any '#n' suffix
        nf = [k for k in sorted(keys) if '/floor:' not in k]
        if not nf:
            continue  # only an instance-count floor moved: not a detection worth replaying
        k = nf[0]
        k = re.sub(r'#\d+$', '', k)
        vs.append({"name": "seed-" + seed, "expect": k, "patch": patch})
        json.dump(vs, open(path, 'w'), indent=1)
        added += 1
print("added", added)
