#!/bin/bash
# developer aid: apply a patch to the scratch worktree /tmp/wt/demo, run every property's rules on it, list findings
# usage: trypatch.sh <patch.diff> [prop-regex]
set -u
WT=/tmp/wt/demo
export GOFLAGS=-mod=mod GOPROXY=off GOSUMDB=off GOTOOLCHAIN=local
git -C $WT checkout -q -- . && git -C $WT clean -fdq
git -C $WT apply --whitespace=nowarn "$1" || { echo "APPLY FAILED"; exit 2; }
(cd $WT && go build ./... ) || { echo "BUILD FAILED"; git -C $WT checkout -q -- .; exit 2; }
rm -rf /tmp/wt/ev_try; mkdir -p /tmp/wt/ev_try
/verif/bin/upfcheck -prop all -repo $WT -verif /verif -out /tmp/wt/ev_try 2>&1 | grep -E "^  rule=" | sed 's/.*key=//' | sort | uniq | grep -E "${2:-.}"
git -C $WT checkout -q -- . && git -C $WT clean -fdq
