#!/bin/bash
# developer aid: apply a patch to the scratch worktree /tmp/wt/demo, run every property's rules on it, list findings
# usage: trypatch.sh <patch.diff> [prop-regex]
set -u
WT=${WT:-/tmp/wt/demo}
BIN=${UPFCHECK:-/verif/bin/upfcheck}
EV=/tmp/wt/ev_try_$(basename $WT)
export GOFLAGS=-mod=mod GOPROXY=off GOSUMDB=off GOTOOLCHAIN=local
git -C $WT checkout -q -- . && git -C $WT clean -fdq
git -C $WT apply --whitespace=nowarn "$1" || { echo "APPLY FAILED"; exit 2; }
(cd $WT && go build ./... ) || { echo "BUILD FAILED"; git -C $WT checkout -q -- .; exit 2; }
rm -rf $EV; mkdir -p $EV
$BIN -prop ${PROPS:-all} -repo $WT -verif /verif -out $EV 2>&1 | grep -E "^  rule=" | sed 's/.*key=//' | sort | uniq | grep -E "${2:-.}"
git -C $WT checkout -q -- . && git -C $WT clean -fdq
