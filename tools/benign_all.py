#!/usr/bin/env python3
"""Developer aid: applies each behaviour-preserving rewrite of checker/variants/_benign_global.json to a scratch
copy of /repo and runs EVERY property's rules on it; any finding is a false alarm to be corrected."""
import json, os, shutil, subprocess, sys, tempfile, concurrent.futures, re
V = os.path.dirname(os.path.dirname(os.path.abspath(__file__)))
ENV = dict(os.environ, GOFLAGS="-mod=mod", GOPROXY="off", GOSUMDB="off", GOTOOLCHAIN="local")
def run(v):
    d = tempfile.mkdtemp(prefix="upfben_")
    try:
        dst = os.path.join(d, "repo")
        shutil.copytree("/repo", dst, ignore=shutil.ignore_patterns(".git"))
        if v.get("patch"):
            pr = subprocess.run(["git", "apply", "--whitespace=nowarn", os.path.join(V, v["patch"])], cwd=dst, capture_output=True, text=True)
            if pr.returncode != 0:
                return v["name"], "STALE patch does not apply: " + pr.stderr[-200:]
        for e in v.get("edits", []):
            path = os.path.join(dst, e["file"]); s = open(path).read()
            if s.count(e["old"]) != e.get("count", 1):
                return v["name"], "STALE %s (%d)" % (e["file"], s.count(e["old"]))
            open(path, "w").write(s.replace(e["old"], e["new"]))
        b = subprocess.run(["go", "build", "./..."], cwd=dst, env=ENV, capture_output=True, text=True)
        if b.returncode != 0:
            return v["name"], "NOCOMPILE " + b.stderr[-300:]
        r = subprocess.run([V + "/bin/upfcheck", "-prop", "all", "-repo", dst, "-verif", V, "-out", os.path.join(d, "ev")], env=ENV, capture_output=True, text=True)
        keys = [l.split("key=")[1].split()[0] for l in r.stdout.splitlines() if "key=" in l and "KNOWN-FINDING" not in l]
        return v["name"], keys
    finally:
        shutil.rmtree(d, ignore_errors=True)
cat = json.load(open(os.path.join(V, "checker", "variants", "_benign_global.json")))
# refactorings written by independent agents (benign/<id>/ref<k>.patch.diff), see DESIGN.md 8.6
import glob
for f in sorted(glob.glob(os.path.join(V, "benign", "*", "ref*.patch.diff"))):
    cat.append({"name": "agent-" + os.path.basename(os.path.dirname(f)) + "-" + os.path.basename(f).split(".")[0], "patch": os.path.relpath(f, V)})
only = sys.argv[1] if len(sys.argv) > 1 else None
if only: cat = [v for v in cat if v["name"] == only or v["name"].startswith(only)]
bad = 0
with concurrent.futures.ThreadPoolExecutor(max_workers=int(os.environ.get('JOBS', '10'))) as ex:
    for name, res in ex.map(run, cat):
        ok = res == []
        bad += 0 if ok else 1
        print(("benign ok   " if ok else "FALSE-ALARM ") + name, "" if ok else res, flush=True)
print("%d rewrites, %d raised alarms" % (len(cat), bad))
sys.exit(1 if bad else 0)
