#!/bin/bash
# Runs the repository's test suite (guard off: there are no hooks) and compares the passing
# set with /root/.vp/BASELINE.json stable_pass.  Exit 0 iff every stable test passes.
export GOFLAGS=-mod=mod GOPROXY=off GOSUMDB=off GOTOOLCHAIN=local
unset GOWORK
REPO=${1:-/repo}
out=$(mktemp)
(cd "$REPO" && timeout 600 go test -p 1 -json -vet=off -count=1 -timeout 120s ./... ) > "$out" 2>/dev/null
python3 - "$out" <<'PY'
import json,sys
passed=set()
for l in open(sys.argv[1]):
    try: e=json.loads(l)
    except Exception: continue
    if e.get('Action')=='pass' and e.get('Test'):
        passed.add(e['Package']+'::'+e['Test'])
want=set(json.load(open('/root/.vp/BASELINE.json'))['stable_pass'])
missing=sorted(want-passed)
print(f"baseline: {len(want&passed)}/{len(want)} stable tests pass")
for m in missing: print("MISSING", m)
sys.exit(1 if missing else 0)
PY
rc=$?
rm -f "$out"
exit $rc
