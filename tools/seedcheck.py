#!/usr/bin/env python3
"""Runs checks on a scratch copy of /repo with one seeded change applied.
usage: seedcheck.py <seed-dir-name> [prop ...]   (default: all implemented properties)
Prints, per property, the finding keys raised (analysis of the patched source only)."""
import json, os, shutil, subprocess, sys, tempfile, concurrent.futures
V = os.path.dirname(os.path.dirname(os.path.abspath(__file__)))
ENV = dict(os.environ, GOFLAGS="-mod=mod", GOPROXY="off", GOSUMDB="off", GOTOOLCHAIN="local")
def main():
    seed = sys.argv[1]
    props = sys.argv[2:] or subprocess.run([V + "/bin/upfcheck", "-list"], capture_output=True, text=True).stdout.split()
    d = tempfile.mkdtemp(prefix="upfseed_")
    try:
        dst = os.path.join(d, "repo")
        shutil.copytree("/repo", dst, ignore=shutil.ignore_patterns(".git"))
        pr = subprocess.run(["git", "apply", "--whitespace=nowarn", os.path.join(V, "seeded", seed, "patch.diff")], cwd=dst, capture_output=True, text=True)
        if pr.returncode != 0:
            print("patch does not apply:", pr.stderr); return 2
        def run(p):
            r = subprocess.run([V + "/bin/upfcheck", "-prop", p, "-repo", dst, "-verif", V, "-out", os.path.join(d, "ev")], env=ENV, capture_output=True, text=True)
            keys = [l.split("key=")[1].split()[0] for l in r.stdout.splitlines() if "key=" in l and "KNOWN-FINDING" not in l]
            return p, r.returncode, keys
        res = {}
        with concurrent.futures.ThreadPoolExecutor(max_workers=6) as ex:
            for p, rc, keys in ex.map(run, props):
                res[p] = keys
                if keys or rc:
                    print("%s %s: exit %d %s" % (seed, p, rc, keys[:4]))
        if not any(res.values()):
            print("%s: NOT DETECTED by %s" % (seed, props))
        json.dump(res, open(os.path.join(V, "seeded", seed, "detected_by.json"), "w"), indent=1)
    finally:
        shutil.rmtree(d, ignore_errors=True)
if __name__ == "__main__":
    sys.exit(main())
