#!/bin/bash
# developer aid: run the complete variant catalogue of every property in strict mode
cd "$(dirname "$0")/.."
rc=0
for p in $(bin/upfcheck -list); do
  python3 tools/variants.py $p --jobs ${JOBS:-8} --strict | grep -v '^selftest ok' || true
  [ ${PIPESTATUS[0]} -ne 0 ] && rc=1
done
exit $rc
